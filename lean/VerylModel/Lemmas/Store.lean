import VerylModel.Core.Store
/-!
Helper lemmas for C29 (M-Store): association lists, blob files, the invariant `Inv` and its
preservation, the refinement of the abstract machine `astep` by `step`.
-/
namespace VerylModel.Store

/-! ### Strings: the blob header is a prefix that `read_blob` strips again -/

theorem startsWith_append (h p : String) : (h ++ p).startsWith h = true := by
  simp [String.startsWith_string_iff]

theorem drop_append (h p : String) : ((h ++ p).drop h.length).toString = p := by
  apply String.toList_inj.mp
  simp [String.toList_copy_drop]
  rw [← String.length_toList, List.drop_left]

/-! ### Association lists -/

@[simp] theorem lookup_nil (p : String) : lookup [] p = none := rfl

theorem lookup_cons (k : String) (v : Entry) (fs : Files) (p : String) :
    lookup ((k, v) :: fs) p = if k = p then some v else lookup fs p := rfl

theorem lookup_filter_ne (fs : Files) (p q : String) (h : p ≠ q) :
    lookup (fs.filter (fun kv => kv.1 ≠ p)) q = lookup fs q := by
  induction fs with
  | nil => rfl
  | cons kv rest ih =>
    obtain ⟨k, v⟩ := kv
    by_cases hk : k = p
    · have hkq : k ≠ q := by rw [hk]; exact h
      rw [List.filter_cons_of_neg (by simp [hk]), lookup_cons, if_neg hkq, ih]
    · rw [List.filter_cons_of_pos (by simp [hk]), lookup_cons, lookup_cons, ih]

theorem lookup_insert (fs : Files) (p : String) (e : Entry) (q : String) :
    lookup (insert fs p e) q = if p = q then some e else lookup fs q := by
  unfold insert
  rw [lookup_cons]
  by_cases h : p = q
  · rw [if_pos h, if_pos h]
  · rw [if_neg h, if_neg h, lookup_filter_ne fs p q h]

theorem lookup_update (fs : Files) (p : String) (f : Entry → Entry) (q : String) :
    lookup (update fs p f) q = if p = q then (lookup fs q).map f else lookup fs q := by
  induction fs with
  | nil => simp [update]
  | cons kv rest ih =>
    obtain ⟨k, v⟩ := kv
    have ih' : lookup (List.map (fun kv => if kv.1 = p then (kv.1, f kv.2) else kv) rest) q
        = if p = q then (lookup rest q).map f else lookup rest q := ih
    by_cases hk : k = p
    · subst hk
      by_cases hq : k = q
      · simp [update, lookup_cons, hq]
      · simp [update, lookup_cons, hq, ih']
    · by_cases hq : p = q
      · subst hq
        simp [update, lookup_cons, hk, ih']
      · simp [update, lookup_cons, hk, hq, ih']

theorem mem_of_lookup {fs : Files} {p : String} {e : Entry} (h : lookup fs p = some e) :
    (p, e) ∈ fs := by
  induction fs with
  | nil => simp at h
  | cons kv rest ih =>
    obtain ⟨k, v⟩ := kv
    rw [lookup_cons] at h
    by_cases hk : k = p
    · simp [hk] at h
      simp [hk, h]
    · simp [hk] at h
      exact List.mem_cons_of_mem _ (ih h)

theorem lookup_isSome_of_mem {fs : Files} {p : String} {e : Entry} (h : (p, e) ∈ fs) :
    ∃ e', lookup fs p = some e' := by
  induction fs with
  | nil => simp at h
  | cons kv rest ih =>
    obtain ⟨k, v⟩ := kv
    rw [lookup_cons]
    by_cases hk : k = p
    · exact ⟨v, by simp [hk]⟩
    · simp only [hk, if_false]
      apply ih
      rcases List.mem_cons.mp h with h | h
      · exact absurd (congrArg Prod.fst h).symm hk
      · exact h

/-- `sub a b`: every binding of `a` is what `b` answers. -/
theorem sub_lookup {a b : Files} (h : sub a b = true) {p : String} {e : Entry}
    (ha : lookup a p = some e) : lookup b p = some e := by
  have hm := mem_of_lookup ha
  have := List.all_eq_true.mp h (p, e) hm
  simpa using this

/-- `BTreeMap ==` on the list representation means: same answer for every key. -/
theorem mapEq_lookup {a b : Files} (h : mapEq a b = true) (p : String) : lookup a p = lookup b p := by
  unfold mapEq at h
  have hab : sub a b = true := by
    cases h1 : sub a b <;> simp [h1] at h ⊢
  have hba : sub b a = true := by
    cases h1 : sub b a <;> simp [h1] at h ⊢
  cases ha : lookup a p with
  | some e => exact (sub_lookup hab ha).symm
  | none =>
    cases hb : lookup b p with
    | none => rfl
    | some e => have := sub_lookup hba hb; rw [ha] at this; cases this

/-! ### Blob files -/

theorem findBlob_cons (n d : String) (bs : List (String × String)) (name : String) :
    findBlob ((n, d) :: bs) name = if n = name then some d else findBlob bs name := rfl

theorem findBlob_mem {bs : List (String × String)} {n data : String}
    (h : findBlob bs n = some data) : (n, data) ∈ bs := by
  induction bs with
  | nil => simp [findBlob] at h
  | cons b rest ih =>
    obtain ⟨k, v⟩ := b
    rw [findBlob_cons] at h
    by_cases hk : k = n
    · rw [if_pos hk] at h
      cases h; subst hk; exact List.mem_cons_self
    · rw [if_neg hk] at h
      exact List.mem_cons_of_mem _ (ih h)

/-- Filtering blob files by a predicate on the *name* (this is what `gc` does). -/
theorem findBlob_filter (bs : List (String × String)) (keep : String → Bool) (n : String) :
    findBlob (bs.filter (fun b => keep b.1)) n = if keep n = true then findBlob bs n else none := by
  induction bs with
  | nil => simp [findBlob]
  | cons b rest ih =>
    obtain ⟨k, v⟩ := b
    by_cases hkeep : keep k = true
    · rw [List.filter_cons_of_pos (by simpa using hkeep), findBlob_cons, findBlob_cons, ih]
      by_cases hk : k = n
      · subst hk; simp [hkeep]
      · simp [hk]
    · rw [List.filter_cons_of_neg (by simpa using hkeep), findBlob_cons, ih]
      by_cases hk : k = n
      · subst hk; simp [hkeep]
      · simp [hk]

/-- A blob file named `n` exists. -/
def Present (bs : List (String × String)) (n : String) : Prop := ∃ data, findBlob bs n = some data

/-- Content addressing: a blob file's content is its name, and it is a well-formed blob
    (header followed by a payload). -/
def BlobsOk (c : Consts) (bs : List (String × String)) : Prop :=
  ∀ nd ∈ bs, nd.2 = nd.1 ∧ ∃ p, nd.1 = blobData c p

/-- `bs'` has every file of `bs`, with the same content. -/
def Ext (bs bs' : List (String × String)) : Prop :=
  ∀ n data, findBlob bs n = some data → findBlob bs' n = some data

theorem Ext.refl (bs : List (String × String)) : Ext bs bs := fun _ _ h => h

theorem Ext.trans {a b c : List (String × String)} (h1 : Ext a b) (h2 : Ext b c) : Ext a c :=
  fun n data h => h2 n data (h1 n data h)

theorem Ext.present {bs bs' : List (String × String)} (h : Ext bs bs') {n : String}
    (hp : Present bs n) : Present bs' n := by
  obtain ⟨data, hd⟩ := hp
  exact ⟨data, h n data hd⟩

/-- `read_blob` on a present file, by cases. -/
theorem readBlob_none {c : Consts} {d : Disk} {n : String} (h : findBlob d.blobs n = none) :
    readBlob c d n = (d, none) := by
  simp only [readBlob, h]

theorem readBlob_foreign {c : Consts} {d : Disk} {n data : String}
    (h : findBlob d.blobs n = some data) (hne : data ≠ n) :
    readBlob c d n = ({ d with blobs := d.blobs.filter (fun b => b.1 ≠ n) }, none) := by
  simp only [readBlob, h]
  rw [if_pos hne]

theorem readBlob_own {c : Consts} {d : Disk} {n : String} (h : findBlob d.blobs n = some n) :
    readBlob c d n =
      (d, if n.startsWith c.header = true then some (n.drop c.header.length).toString else none) := by
  simp only [readBlob, h]
  rw [if_neg (fun hne => hne rfl)]
  split <;> rfl

/-- What `read_blob` returns depends on the named file only. -/
theorem readBlob_eq_of_find {c : Consts} {d d' : Disk} {n : String}
    (h : findBlob d'.blobs n = findBlob d.blobs n) : (readBlob c d' n).2 = (readBlob c d n).2 := by
  cases hf : findBlob d.blobs n with
  | none => rw [readBlob_none hf, readBlob_none (h.trans hf)]
  | some data =>
    by_cases h1 : data = n
    · subst h1; rw [readBlob_own hf, readBlob_own (h.trans hf)]
    · rw [readBlob_foreign hf h1, readBlob_foreign (h.trans hf) h1]

/-- `read_blob` returns the payload of a well-formed blob stored under its own name, and leaves
    the disk alone. -/
theorem readBlob_blobData {c : Consts} {d : Disk} {payload : String}
    (h : findBlob d.blobs (blobData c payload) = some (blobData c payload)) :
    readBlob c d (blobData c payload) = (d, some payload) := by
  rw [readBlob_own h]
  simp only [blobData, startsWith_append, if_true, drop_append]

/-- `read_blob` never touches the manifest. -/
theorem readBlob_manifest (c : Consts) (d : Disk) (n : String) :
    (readBlob c d n).1.manifest = d.manifest := by
  cases hf : findBlob d.blobs n with
  | none => rw [readBlob_none hf]
  | some data =>
    by_cases h1 : data = n
    · subst h1; rw [readBlob_own hf]
    · rw [readBlob_foreign hf h1]

theorem eq_append_of_startsWith {h s : String} (hs : s.startsWith h = true) :
    s = h ++ (s.drop h.length).toString := by
  obtain ⟨rest, hrest⟩ := (String.startsWith_string_iff).mp hs
  apply String.toList_inj.mp
  simp [String.toList_copy_drop]
  rw [← hrest, ← String.length_toList, List.drop_left]

/-- Whatever `read_blob` returns is the payload of a file whose content is its name; and then the
    disk is unchanged. -/
theorem readBlob_some {c : Consts} {d : Disk} {n payload : String}
    (h : (readBlob c d n).2 = some payload) :
    findBlob d.blobs n = some n ∧ n = c.header ++ payload ∧ (readBlob c d n).1 = d := by
  cases hf : findBlob d.blobs n with
  | none => rw [readBlob_none hf] at h; cases h
  | some data =>
    by_cases h1 : data = n
    · subst h1
      rw [readBlob_own hf] at h ⊢
      refine ⟨rfl, ?_, rfl⟩
      by_cases h2 : data.startsWith c.header = true
      · rw [if_pos h2] at h
        have hp : (data.drop c.header.length).toString = payload := Option.some.inj h
        rw [← hp]
        exact eq_append_of_startsWith h2
      · rw [if_neg h2] at h; cases h
    · rw [readBlob_foreign hf h1] at h; cases h

theorem BlobsOk.find {c : Consts} {bs : List (String × String)} (hb : BlobsOk c bs) {n data : String}
    (h : findBlob bs n = some data) : data = n ∧ ∃ p, n = blobData c p :=
  hb (n, data) (findBlob_mem h)

/-- Under `BlobsOk` every present blob is readable, and its payload is determined by its name. -/
theorem readBlob_of_present {c : Consts} {d : Disk} (hb : BlobsOk c d.blobs) {n : String}
    (hp : Present d.blobs n) :
    ∃ payload, n = blobData c payload ∧ readBlob c d n = (d, some payload) := by
  obtain ⟨data, hd⟩ := hp
  obtain ⟨hdn, p, hp⟩ := hb.find hd
  refine ⟨p, hp, ?_⟩
  subst hdn
  subst hp
  rw [readBlob_blobData hd]

theorem writeBlob_some {c : Consts} {d : Disk} {payload x : String}
    (h : findBlob d.blobs (blobName c payload) = some x) :
    writeBlob c d payload = (d, blobName c payload) := by
  simp only [writeBlob, h]

theorem writeBlob_none {c : Consts} {d : Disk} {payload : String}
    (h : findBlob d.blobs (blobName c payload) = none) :
    writeBlob c d payload =
      ({ d with blobs := (blobName c payload, blobData c payload) :: d.blobs }, blobName c payload) := by
  simp only [writeBlob, h]

theorem writeBlob_name (c : Consts) (d : Disk) (payload : String) :
    (writeBlob c d payload).2 = blobName c payload := by
  cases hf : findBlob d.blobs (blobName c payload) with
  | some x => rw [writeBlob_some hf]
  | none => rw [writeBlob_none hf]

theorem writeBlob_manifest (c : Consts) (d : Disk) (payload : String) :
    (writeBlob c d payload).1.manifest = d.manifest := by
  cases hf : findBlob d.blobs (blobName c payload) with
  | some x => rw [writeBlob_some hf]
  | none => rw [writeBlob_none hf]

theorem writeBlob_ext (c : Consts) (d : Disk) (payload : String) :
    Ext d.blobs (writeBlob c d payload).1.blobs := by
  intro n data h
  cases hf : findBlob d.blobs (blobName c payload) with
  | some x => rw [writeBlob_some hf]; exact h
  | none =>
    rw [writeBlob_none hf]
    show findBlob ((blobName c payload, blobData c payload) :: d.blobs) n = some data
    rw [findBlob_cons]
    by_cases hk : blobName c payload = n
    · rw [hk, h] at hf; cases hf
    · rw [if_neg hk]; exact h

theorem writeBlob_blobsOk {c : Consts} {d : Disk} (hb : BlobsOk c d.blobs) (payload : String) :
    BlobsOk c (writeBlob c d payload).1.blobs := by
  cases hf : findBlob d.blobs (blobName c payload) with
  | some x => rw [writeBlob_some hf]; exact hb
  | none =>
    rw [writeBlob_none hf]
    intro nd hnd
    rcases List.mem_cons.mp hnd with h | h
    · subst h; exact ⟨rfl, payload, rfl⟩
    · exact hb nd h

/-- After `write_blob` the blob is on disk under its name, holding header ++ payload
    (also when an existing file was reused: by `BlobsOk` its content is its name). -/
theorem writeBlob_find {c : Consts} {d : Disk} (hb : BlobsOk c d.blobs) (payload : String) :
    findBlob (writeBlob c d payload).1.blobs (blobName c payload) = some (blobData c payload) := by
  cases hf : findBlob d.blobs (blobName c payload) with
  | some x =>
    rw [writeBlob_some hf]
    show findBlob d.blobs (blobName c payload) = _
    rw [hf, (hb.find hf).1]; rfl
  | none =>
    rw [writeBlob_none hf]
    show findBlob ((blobName c payload, blobData c payload) :: d.blobs) _ = _
    rw [findBlob_cons, if_pos rfl]

theorem readBlob_writeBlob {c : Consts} {d : Disk} (hb : BlobsOk c d.blobs) (payload : String) :
    readBlob c (writeBlob c d payload).1 (writeBlob c d payload).2
      = ((writeBlob c d payload).1, some payload) := by
  rw [writeBlob_name]
  exact readBlob_blobData (writeBlob_find hb payload)

/-! ### Blob references of a file map -/

/-- `e` refers to blob `n` (as fragment or as diagnostics). -/
def Entry.refs (e : Entry) (n : String) : Prop := e.fragment = some n ∨ e.diagnostics = some n

theorem mem_referenced {fs : Files} {n : String} :
    n ∈ referenced fs ↔ ∃ p e, (p, e) ∈ fs ∧ e.refs n := by
  unfold referenced Entry.refs
  simp only [List.mem_flatMap, List.mem_append, Option.mem_toList]
  constructor
  · rintro ⟨⟨p, e⟩, hm, h⟩
    exact ⟨p, e, hm, h⟩
  · rintro ⟨p, e, hm, h⟩
    exact ⟨(p, e), hm, h⟩

theorem mem_insert {fs : Files} {p q : String} {e e' : Entry} (h : (q, e') ∈ insert fs p e) :
    (q = p ∧ e' = e) ∨ (q, e') ∈ fs := by
  unfold insert at h
  rcases List.mem_cons.mp h with h | h
  · left; cases h; exact ⟨rfl, rfl⟩
  · right; exact (List.mem_filter.mp h).1

theorem mem_update {fs : Files} {p q : String} {f : Entry → Entry} {e' : Entry}
    (h : (q, e') ∈ update fs p f) : (q, e') ∈ fs ∨ ∃ e0, (p, e0) ∈ fs ∧ q = p ∧ e' = f e0 := by
  unfold update at h
  obtain ⟨⟨k, v⟩, hm, heq⟩ := List.mem_map.mp h
  by_cases hk : k = p
  · simp only [hk, if_true] at heq
    right
    cases heq
    exact ⟨v, hk ▸ hm, rfl, rfl⟩
  · simp only [hk, if_false] at heq
    left
    rw [← heq]; exact hm

/-- Every blob the file map refers to is on disk. -/
def RefsOk (bs : List (String × String)) (fs : Files) : Prop := ∀ n ∈ referenced fs, Present bs n

theorem RefsOk.nil (bs : List (String × String)) : RefsOk bs [] := by
  intro n h; simp [referenced] at h

theorem RefsOk.mono {bs bs' : List (String × String)} {fs : Files} (h : RefsOk bs fs)
    (hext : Ext bs bs') : RefsOk bs' fs := fun n hn => hext.present (h n hn)

theorem RefsOk.of_mem {bs : List (String × String)} {fs : Files} (h : RefsOk bs fs) {p : String}
    {e : Entry} (hm : (p, e) ∈ fs) {n : String} (hr : e.refs n) : Present bs n :=
  h n (mem_referenced.mpr ⟨p, e, hm, hr⟩)

theorem RefsOk.of_lookup {bs : List (String × String)} {fs : Files} (h : RefsOk bs fs) {p : String}
    {e : Entry} (hl : lookup fs p = some e) {n : String} (hr : e.refs n) : Present bs n :=
  h.of_mem (mem_of_lookup hl) hr

theorem RefsOk.insert {bs : List (String × String)} {fs : Files} (h : RefsOk bs fs) (p : String)
    {e : Entry} (he : ∀ n, e.refs n → Present bs n) : RefsOk bs (insert fs p e) := by
  intro n hn
  obtain ⟨q, e', hm, hr⟩ := mem_referenced.mp hn
  rcases mem_insert hm with ⟨_, rfl⟩ | hm'
  · exact he n hr
  · exact h.of_mem hm' hr

theorem RefsOk.update {bs : List (String × String)} {fs : Files} (h : RefsOk bs fs) (p : String)
    {f : Entry → Entry} (hf : ∀ e0 n, (p, e0) ∈ fs → (f e0).refs n → Present bs n) :
    RefsOk bs (update fs p f) := by
  intro n hn
  obtain ⟨q, e', hm, hr⟩ := mem_referenced.mp hn
  rcases mem_update hm with hm' | ⟨e0, hm0, _, rfl⟩
  · exact h.of_mem hm' hr
  · exact hf e0 n hm0 hr

/-! ### The abstraction of file maps -/

theorem load_congr {c : Consts} {d d' : Disk} {e : Entry}
    (h : ∀ n, e.refs n → findBlob d'.blobs n = findBlob d.blobs n) :
    (load c d' e).2 = (load c d e).2 := by
  unfold load
  cases hf : e.fragment with
  | none => rfl
  | some n => exact readBlob_eq_of_find (h n (Or.inl hf))

theorem loadDiagnostics_congr {c : Consts} {d d' : Disk} {e : Entry}
    (h : ∀ n, e.refs n → findBlob d'.blobs n = findBlob d.blobs n) :
    (loadDiagnostics c d' e).2 = (loadDiagnostics c d e).2 := by
  unfold loadDiagnostics
  cases hf : e.diagnostics with
  | none => rfl
  | some n => exact readBlob_eq_of_find (h n (Or.inr hf))

theorem absEntry_congr {c : Consts} {d d' : Disk} {e : Entry}
    (h : ∀ n, e.refs n → findBlob d'.blobs n = findBlob d.blobs n) :
    absEntry c d' e = absEntry c d e := by
  unfold absEntry
  rw [load_congr h, loadDiagnostics_congr h]

theorem absFiles_congr {c : Consts} {d d' : Disk} {fs : Files}
    (h : ∀ n ∈ referenced fs, findBlob d'.blobs n = findBlob d.blobs n) :
    absFiles c d' fs = absFiles c d fs := by
  funext p
  unfold absFiles
  cases hl : lookup fs p with
  | none => rfl
  | some e =>
    simp only [Option.map_some]
    rw [absEntry_congr]
    intro n hr
    exact h n (mem_referenced.mpr ⟨p, e, mem_of_lookup hl, hr⟩)

theorem find_eq_of_ext {bs bs' : List (String × String)} (hext : Ext bs bs') {n : String}
    (hp : Present bs n) : findBlob bs' n = findBlob bs n := by
  obtain ⟨data, hd⟩ := hp
  rw [hd, hext n data hd]

/-- Adding blob files does not change what a file map with no dangling reference denotes. -/
theorem absFiles_ext {c : Consts} {d d' : Disk} {fs : Files} (hext : Ext d.blobs d'.blobs)
    (hr : RefsOk d.blobs fs) : absFiles c d' fs = absFiles c d fs :=
  absFiles_congr (fun n hn => find_eq_of_ext hext (hr n hn))

theorem absEntry_ext {c : Consts} {d d' : Disk} {e : Entry} (hext : Ext d.blobs d'.blobs)
    (hr : ∀ n, e.refs n → Present d.blobs n) : absEntry c d' e = absEntry c d e :=
  absEntry_congr (fun n hn => find_eq_of_ext hext (hr n hn))

theorem absFiles_nil (c : Consts) (d : Disk) : absFiles c d [] = AbsFiles.empty := rfl

theorem absFiles_insert (c : Consts) (d : Disk) (fs : Files) (p : String) (e : Entry) :
    absFiles c d (insert fs p e) = (absFiles c d fs).set p (absEntry c d e) := by
  funext q
  unfold absFiles AbsFiles.set
  rw [lookup_insert]
  by_cases h : p = q
  · rw [if_pos h, if_pos h]; rfl
  · rw [if_neg h, if_neg h]

theorem absFiles_update (c : Consts) (d : Disk) (fs : Files) (p : String) (f : Entry → Entry)
    (g : AbsEntry → AbsEntry) (hfg : ∀ e, absEntry c d (f e) = g (absEntry c d e)) :
    absFiles c d (update fs p f) = (absFiles c d fs).modify p g := by
  funext q
  unfold absFiles AbsFiles.modify
  rw [lookup_update]
  by_cases h : p = q
  · rw [if_pos h, if_pos h]
    show Option.map (absEntry c d) (Option.map f (lookup fs q))
      = Option.map g (Option.map (absEntry c d) (lookup fs q))
    cases lookup fs q with
    | none => rfl
    | some e => simp only [Option.map_some, hfg]
  · rw [if_neg h, if_neg h]

theorem absFiles_mapEq {c : Consts} {d : Disk} {a b : Files} (h : mapEq a b = true) :
    absFiles c d a = absFiles c d b := by
  funext p
  unfold absFiles
  rw [mapEq_lookup h p]

/-! ### The invariant -/

/-- Invariant of every reachable `(disk, open store?)`. -/
structure Inv (c : Consts) (s : State) : Prop where
  /-- blob files are content addressed and well formed -/
  blobs : BlobsOk c s.1.blobs
  /-- an on-disk manifest was written by this schema version -/
  diskSchema : ∀ mf, s.1.manifest = some mf → mf.schema = c.schemaVersion
  /-- the on-disk manifest has no dangling blob reference -/
  diskRefs : ∀ mf, s.1.manifest = some mf → RefsOk s.1.blobs mf.files
  /-- `manifest.files` of the open store has no dangling blob reference -/
  memFiles : ∀ m, s.2 = some m → RefsOk s.1.blobs m.files
  /-- `next_files` of the open store has no dangling blob reference -/
  memNext : ∀ m, s.2 = some m → RefsOk s.1.blobs m.next
  /-- `on_disk_current` ⇒ the on-disk manifest *is* the in-memory manifest -/
  current : ∀ m, s.2 = some m → m.onDiskCurrent = true →
    s.1.manifest = some { schema := c.schemaVersion, key := m.key, files := m.files }

theorem inv_init (c : Consts) : Inv c init := by
  refine ⟨?_, ?_, ?_, ?_, ?_, ?_⟩ <;> simp [init, BlobsOk]

/-- Operations that only add blob files and only change `next_files`. -/
theorem Inv.of_ext {c : Consts} {d d' : Disk} {m m' : Mem} (h : Inv c (d, some m))
    (hman : d'.manifest = d.manifest) (hext : Ext d.blobs d'.blobs) (hb : BlobsOk c d'.blobs)
    (hk : m'.key = m.key) (hf : m'.files = m.files) (ho : m'.onDiskCurrent = m.onDiskCurrent)
    (hn : RefsOk d'.blobs m'.next) : Inv c (d', some m') := by
  refine ⟨hb, ?_, ?_, ?_, ?_, ?_⟩
  · intro mf hmf; exact h.diskSchema mf (hman ▸ hmf)
  · intro mf hmf; exact (h.diskRefs mf (hman ▸ hmf)).mono hext
  · intro m1 hm1; cases hm1; rw [hf]; exact (h.memFiles m rfl).mono hext
  · intro m1 hm1; cases hm1; exact hn
  · intro m1 hm1 hc; cases hm1
    show d'.manifest = _
    rw [hman, hk, hf]; exact h.current m rfl (ho ▸ hc)

theorem inv_open {c : Consts} {d : Disk} {om : Option Mem} (h : Inv c (d, om)) (key : String) :
    Inv c (d, some (openStore c d key)) := by
  refine ⟨h.blobs, h.diskSchema, h.diskRefs, ?_, ?_, ?_⟩
  · intro m hm; cases hm
    show RefsOk d.blobs (openStore c d key).files
    unfold openStore
    cases hd : d.manifest with
    | none => exact RefsOk.nil _
    | some mf =>
      by_cases hc : mf.schema = c.schemaVersion ∧ mf.key = key
      · simp only [hc, and_self, if_true]; exact h.diskRefs mf hd
      · simp only [hc, if_false]; exact RefsOk.nil _
  · intro m hm; cases hm
    have : (openStore c d key).next = [] := by
      unfold openStore
      cases d.manifest with
      | none => rfl
      | some mf => by_cases hc : mf.schema = c.schemaVersion ∧ mf.key = key <;> simp [hc]
    rw [this]; exact RefsOk.nil _
  · intro m hm hcur; cases hm
    show d.manifest = _
    revert hcur
    unfold openStore
    cases hd : d.manifest with
    | none => simp
    | some mf =>
      by_cases hc : mf.schema = c.schemaVersion ∧ mf.key = key
      · simp only [hc, and_self, if_true]
        intro _
        obtain ⟨h1, h2⟩ := hc
        cases mf; simp_all
      · simp [hc]

theorem inv_drop {c : Consts} {d : Disk} {om : Option Mem} (h : Inv c (d, om)) : Inv c (d, none) := by
  refine ⟨h.blobs, h.diskSchema, h.diskRefs, ?_, ?_, ?_⟩ <;> intro m hm <;> cases hm

/-! ### Unfolding equations of the operations -/

theorem put_none (c : Consts) (d : Disk) (m : Mem) (p h : String) :
    put c d m p h none = (d, { m with next := insert m.next p (Entry.mk h none [] [] none) }) := rfl

theorem put_some (c : Consts) (d : Disk) (m : Mem) (p h payload : String) :
    put c d m p h (some payload) =
      ((writeBlob c d payload).1,
       { m with next := insert m.next p (Entry.mk h (some (writeBlob c d payload).2) [] [] none) }) := rfl

theorem setDiagnostics_absent {c : Consts} {d : Disk} {m : Mem} {p : String} (b : String)
    (h : lookup m.next p = none) : setDiagnostics c d m p b = (d, m) := by
  simp only [setDiagnostics, h]

theorem setDiagnostics_nofrag {c : Consts} {d : Disk} {m : Mem} {p : String} {e : Entry} (b : String)
    (h : lookup m.next p = some e) (hf : e.fragment = none) : setDiagnostics c d m p b = (d, m) := by
  simp only [setDiagnostics, h, hf]

theorem setDiagnostics_write {c : Consts} {d : Disk} {m : Mem} {p : String} {e : Entry} {n : String}
    (b : String) (h : lookup m.next p = some e) (hf : e.fragment = some n) :
    setDiagnostics c d m p b =
      ((writeBlob c d b).1,
       { m with next := update m.next p (fun e => { e with diagnostics := some (writeBlob c d b).2 }) }) := by
  simp only [setDiagnostics, h, hf]

theorem save_skip {c : Consts} {d : Disk} {m : Mem}
    (h : (m.onDiskCurrent && mapEq m.next m.files) = true) :
    save c d m = (d, { m with next := [] }) := by
  simp only [save, h, if_true]

theorem save_write {c : Consts} {d : Disk} {m : Mem}
    (h : (m.onDiskCurrent && mapEq m.next m.files) = false) : save c d m = saveWrite c d m := by
  simp only [save, h, Bool.false_eq_true, if_false]

theorem gc_find (d : Disk) (fs : Files) (n : String) :
    findBlob (gc d fs).blobs n = if (referenced fs).contains n = true then findBlob d.blobs n else none :=
  findBlob_filter d.blobs (fun n => (referenced fs).contains n) n

theorem gc_find_of_mem {d : Disk} {fs : Files} {n : String} (h : n ∈ referenced fs) :
    findBlob (gc d fs).blobs n = findBlob d.blobs n := by
  rw [gc_find, if_pos (List.contains_iff_mem.mpr h)]

theorem gc_find_sub {d : Disk} {fs : Files} {n data : String}
    (h : findBlob (gc d fs).blobs n = some data) : findBlob d.blobs n = some data := by
  rw [gc_find] at h
  by_cases hc : (referenced fs).contains n = true
  · rwa [if_pos hc] at h
  · rw [if_neg hc] at h; cases h

/-! ### Reads: `load` / `load_diagnostics` may remove a damaged file, never under `BlobsOk` -/

/-- Content-addressed blobs are never removed by `read_blob`. -/
theorem readBlob_fst_of_blobsOk {c : Consts} {d : Disk} (hb : BlobsOk c d.blobs) (n : String) :
    (readBlob c d n).1 = d := by
  cases hf : findBlob d.blobs n with
  | none => rw [readBlob_none hf]
  | some data =>
    have hdn := (hb.find hf).1
    subst hdn
    rw [readBlob_own hf]

theorem load_fst_of_blobsOk {c : Consts} {d : Disk} (hb : BlobsOk c d.blobs) (e : Entry) :
    (load c d e).1 = d := by
  unfold load
  cases e.fragment with
  | none => rfl
  | some n => exact readBlob_fst_of_blobsOk hb n

theorem loadDiagnostics_fst_of_blobsOk {c : Consts} {d : Disk} (hb : BlobsOk c d.blobs) (e : Entry) :
    (loadDiagnostics c d e).1 = d := by
  unfold loadDiagnostics
  cases e.diagnostics with
  | none => rfl
  | some n => exact readBlob_fst_of_blobsOk hb n

theorem load_manifest (c : Consts) (d : Disk) (e : Entry) : (load c d e).1.manifest = d.manifest := by
  unfold load
  cases e.fragment with
  | none => rfl
  | some n => exact readBlob_manifest c d n

theorem loadDiagnostics_manifest (c : Consts) (d : Disk) (e : Entry) :
    (loadDiagnostics c d e).1.manifest = d.manifest := by
  unfold loadDiagnostics
  cases e.diagnostics with
  | none => rfl
  | some n => exact readBlob_manifest c d n

theorem step_load_eq (c : Consts) (d : Disk) (m : Mem) (p : String) :
    step c (d, some m) (.load p) =
      match entry m p with
      | none => (d, some m)
      | some e => ((load c d e).1, some m) := rfl

theorem step_loadDiagnostics_eq (c : Consts) (d : Disk) (m : Mem) (p : String) :
    step c (d, some m) (.loadDiagnostics p) =
      match entry m p with
      | none => (d, some m)
      | some e => ((loadDiagnostics c d e).1, some m) := rfl

/-- Under `BlobsOk` the read operations are the identity on the state. -/
theorem step_load {c : Consts} {s : State} (hb : BlobsOk c s.1.blobs) (p : String) :
    step c s (.load p) = s := by
  obtain ⟨d, om⟩ := s
  cases om with
  | none => rfl
  | some m =>
    rw [step_load_eq]
    cases entry m p with
    | none => rfl
    | some e => simp only [load_fst_of_blobsOk hb e]

theorem step_loadDiagnostics {c : Consts} {s : State} (hb : BlobsOk c s.1.blobs) (p : String) :
    step c s (.loadDiagnostics p) = s := by
  obtain ⟨d, om⟩ := s
  cases om with
  | none => rfl
  | some m =>
    rw [step_loadDiagnostics_eq]
    cases entry m p with
    | none => rfl
    | some e => simp only [loadDiagnostics_fst_of_blobsOk hb e]

/-- Without any invariant: reads change neither the manifest file nor the open store. -/
theorem step_load_manifest_mem (c : Consts) (s : State) (p : String) :
    (step c s (.load p)).1.manifest = s.1.manifest ∧ (step c s (.load p)).2 = s.2 := by
  obtain ⟨d, om⟩ := s
  cases om with
  | none => exact ⟨rfl, rfl⟩
  | some m =>
    rw [step_load_eq]
    cases entry m p with
    | none => exact ⟨rfl, rfl⟩
    | some e => exact ⟨load_manifest c d e, rfl⟩

theorem step_loadDiagnostics_manifest_mem (c : Consts) (s : State) (p : String) :
    (step c s (.loadDiagnostics p)).1.manifest = s.1.manifest ∧
      (step c s (.loadDiagnostics p)).2 = s.2 := by
  obtain ⟨d, om⟩ := s
  cases om with
  | none => exact ⟨rfl, rfl⟩
  | some m =>
    rw [step_loadDiagnostics_eq]
    cases entry m p with
    | none => exact ⟨rfl, rfl⟩
    | some e => exact ⟨loadDiagnostics_manifest c d e, rfl⟩

/-! ### Preservation of the invariant -/

theorem inv_put {c : Consts} {d : Disk} {m : Mem} (h : Inv c (d, some m)) (p hs : String)
    (b : Option String) : Inv c ((put c d m p hs b).1, some (put c d m p hs b).2) := by
  cases b with
  | none =>
    rw [put_none]
    refine h.of_ext rfl (Ext.refl _) h.blobs rfl rfl rfl ?_
    refine (h.memNext m rfl).insert p ?_
    intro n hr; rcases hr with hr | hr <;> cases hr
  | some payload =>
    rw [put_some]
    refine h.of_ext (writeBlob_manifest c d payload) (writeBlob_ext c d payload)
      (writeBlob_blobsOk h.blobs payload) rfl rfl rfl ?_
    refine ((h.memNext m rfl).mono (writeBlob_ext c d payload)).insert p ?_
    intro n hr
    rcases hr with hr | hr
    · cases hr
      rw [writeBlob_name]
      exact ⟨_, writeBlob_find h.blobs payload⟩
    · cases hr

theorem inv_setDiagnostics {c : Consts} {d : Disk} {m : Mem} (h : Inv c (d, some m)) (p b : String) :
    Inv c ((setDiagnostics c d m p b).1, some (setDiagnostics c d m p b).2) := by
  cases hl : lookup m.next p with
  | none => rw [setDiagnostics_absent b hl]; exact h
  | some e =>
    cases hf : e.fragment with
    | none => rw [setDiagnostics_nofrag b hl hf]; exact h
    | some n0 =>
      rw [setDiagnostics_write b hl hf]
      refine h.of_ext (writeBlob_manifest c d b) (writeBlob_ext c d b)
        (writeBlob_blobsOk h.blobs b) rfl rfl rfl ?_
      have hmono := (h.memNext m rfl).mono (writeBlob_ext c d b)
      show RefsOk (writeBlob c d b).1.blobs
        (update m.next p (fun e => { e with diagnostics := some (writeBlob c d b).2 }))
      refine hmono.update p ?_
      intro e0 n hm hr
      rcases hr with hr | hr
      · exact hmono.of_mem hm (Or.inl hr)
      · cases hr
        rw [writeBlob_name]
        exact ⟨_, writeBlob_find h.blobs b⟩

theorem inv_keep {c : Consts} {d : Disk} {m : Mem} (h : Inv c (d, some m)) (p : String) :
    Inv c (d, some (keep m p)) := by
  unfold keep
  cases hl : lookup m.files p with
  | none => exact h
  | some e =>
    refine h.of_ext rfl (Ext.refl _) h.blobs rfl rfl rfl ?_
    exact (h.memNext m rfl).insert p (fun n hr => (h.memFiles m rfl).of_lookup hl hr)

/-- `get_mut(p).map(f)` where `f` adds no blob reference. -/
theorem inv_update {c : Consts} {d : Disk} {m : Mem} (h : Inv c (d, some m)) (p : String)
    (f : Entry → Entry) (hf : ∀ e n, (f e).refs n → e.refs n) :
    Inv c (d, some { m with next := update m.next p f }) := by
  refine h.of_ext rfl (Ext.refl _) h.blobs rfl rfl rfl ?_
  exact (h.memNext m rfl).update p (fun e0 n hm hr => (h.memNext m rfl).of_mem hm (hf e0 n hr))

theorem inv_invalidate {c : Consts} {d : Disk} {m : Mem} (h : Inv c (d, some m)) (p : String) :
    Inv c (d, some (invalidate m p)) := by
  refine inv_update h p _ ?_
  intro e n hr
  rcases hr with hr | hr
  · cases hr
  · exact Or.inr hr

theorem inv_setDependents {c : Consts} {d : Disk} {m : Mem} (h : Inv c (d, some m)) (p : String)
    (ds : List String) : Inv c (d, some (setDependents m p ds)) :=
  inv_update h p _ (fun _ _ hr => hr)

theorem inv_setTests {c : Consts} {d : Disk} {m : Mem} (h : Inv c (d, some m)) (p : String)
    (ts : List String) : Inv c (d, some (setTests m p ts)) :=
  inv_update h p _ (fun _ _ hr => hr)

theorem inv_saveWrite {c : Consts} {d : Disk} {m : Mem} (h : Inv c (d, some m)) :
    Inv c ((saveWrite c d m).1, some (saveWrite c d m).2) := by
  have hrefs : RefsOk (saveWrite c d m).1.blobs m.next := by
    intro n hn
    obtain ⟨data, hd⟩ := h.memNext m rfl n hn
    refine ⟨data, ?_⟩
    show findBlob (gc _ m.next).blobs n = some data
    rw [gc_find_of_mem hn]; exact hd
  refine ⟨?_, ?_, ?_, ?_, ?_, ?_⟩
  · intro nd hnd
    exact h.blobs nd (List.mem_filter.mp hnd).1
  · intro mf hmf; cases hmf; rfl
  · intro mf hmf; cases hmf; exact hrefs
  · intro m1 hm1; cases hm1; exact hrefs
  · intro m1 hm1; cases hm1; exact RefsOk.nil _
  · intro m1 hm1 _; cases hm1; rfl

theorem inv_save {c : Consts} {d : Disk} {m : Mem} (h : Inv c (d, some m)) :
    Inv c ((save c d m).1, some (save c d m).2) := by
  cases hs : (m.onDiskCurrent && mapEq m.next m.files) with
  | true =>
    rw [save_skip hs]
    exact h.of_ext rfl (Ext.refl _) h.blobs rfl rfl rfl (RefsOk.nil _)
  | false =>
    rw [save_write hs]
    exact inv_saveWrite h

/-- T5: every operation preserves the invariant. -/
theorem inv_step {c : Consts} {s : State} (h : Inv c s) (o : Op) : Inv c (step c s o) := by
  obtain ⟨d, om⟩ := s
  cases om with
  | none =>
    cases o with
    | «open» key => exact inv_open h key
    | drop => exact inv_drop h
    | _ => exact h
  | some m =>
    cases o with
    | «open» key => exact inv_open h key
    | drop => exact inv_drop h
    | put p hs b => exact inv_put h p hs b
    | setDiagnostics p b => exact inv_setDiagnostics h p b
    | keep p => exact inv_keep h p
    | invalidate p => exact inv_invalidate h p
    | setDependents p ds => exact inv_setDependents h p ds
    | setTests p ts => exact inv_setTests h p ts
    | save => exact inv_save h
    | load p => rw [step_load h.blobs p]; exact h
    | loadDiagnostics p => rw [step_loadDiagnostics h.blobs p]; exact h

theorem inv_run {c : Consts} {s : State} (h : Inv c s) (ops : List Op) : Inv c (run c s ops) := by
  induction ops generalizing s with
  | nil => exact h
  | cons o rest ih => exact ih (inv_step h o)

/-! ### Refinement: `step` implements `astep` through `abs` -/

theorem absDisk_ext {c : Consts} {d d' : Disk} (hman : d'.manifest = d.manifest)
    (hext : Ext d.blobs d'.blobs) (hr : ∀ mf, d.manifest = some mf → RefsOk d.blobs mf.files) :
    absDisk c d' = absDisk c d := by
  unfold absDisk
  rw [hman]
  cases hd : d.manifest with
  | none => rfl
  | some mf =>
    by_cases hs : mf.schema = c.schemaVersion
    · simp only [hs, if_true]
      rw [absFiles_ext hext (hr mf hd)]
    · simp only [hs, if_false]

theorem abs_some (c : Consts) (d : Disk) (m : Mem) :
    abs c (d, some m) =
      { saved := absDisk c d,
        sess := some { key := m.key, prev := absFiles c d m.files, next := absFiles c d m.next } } := rfl

/-- Shape of `abs` after an operation that only adds blob files and only changes `next_files`. -/
theorem abs_of_ext {c : Consts} {d d' : Disk} {m : Mem} (h : Inv c (d, some m))
    (hman : d'.manifest = d.manifest) (hext : Ext d.blobs d'.blobs) (nx : Files) :
    abs c (d', some { m with next := nx }) =
      { saved := absDisk c d,
        sess := some { key := m.key, prev := absFiles c d m.files, next := absFiles c d' nx } } := by
  rw [abs_some, absDisk_ext hman hext h.diskRefs]
  show AState.mk _ (some (ASession.mk m.key (absFiles c d' m.files) _)) = _
  rw [absFiles_ext hext (h.memFiles m rfl)]

theorem refines_open (c : Consts) (d : Disk) (om : Option Mem) (key : String) :
    abs c (d, some (openStore c d key)) = astep (abs c (d, om)) (.open key) := by
  have hr : astep (abs c (d, om)) (.open key) =
      { saved := absDisk c d,
        sess := some { key := key, prev := (absDisk c d).visible key, next := AbsFiles.empty } } := rfl
  rw [hr, abs_some]
  unfold openStore absDisk
  cases hd : d.manifest with
  | none => rfl
  | some mf =>
    by_cases hs : mf.schema = c.schemaVersion
    · by_cases hk : mf.key = key
      · simp [hs, hk, Spec.visible, absFiles_nil]
      · simp [hs, hk, Spec.visible, absFiles_nil]
    · simp [hs, Spec.visible, absFiles_nil]

theorem refines_put {c : Consts} {d : Disk} {m : Mem} (h : Inv c (d, some m)) (p hs : String)
    (b : Option String) :
    abs c ((put c d m p hs b).1, some (put c d m p hs b).2) = astep (abs c (d, some m)) (.put p hs b) := by
  have hr : astep (abs c (d, some m)) (.put p hs b) =
      { saved := absDisk c d,
        sess := some { key := m.key, prev := absFiles c d m.files,
                       next := (absFiles c d m.next).set p (AbsEntry.mk hs [] [] b none) } } := rfl
  rw [hr]
  cases b with
  | none =>
    rw [put_none, abs_some]
    show AState.mk _ (some (ASession.mk _ _ (absFiles c d (insert m.next p _)))) = _
    rw [absFiles_insert]
    rfl
  | some payload =>
    rw [put_some]
    have hext := writeBlob_ext c d payload
    dsimp only
    rw [abs_of_ext h (writeBlob_manifest c d payload) hext, absFiles_insert,
      absFiles_ext hext (h.memNext m rfl)]
    have he : absEntry c (writeBlob c d payload).1
        (Entry.mk hs (some (writeBlob c d payload).2) [] [] none)
        = AbsEntry.mk hs [] [] (some payload) none := by
      simp only [absEntry, load, loadDiagnostics, readBlob_writeBlob h.blobs payload]
    rw [he]

theorem astep_setDiagnostics (a : AState) (s : ASession) (hs : a.sess = some s) (p b : String) :
    astep a (.setDiagnostics p b) =
      match s.next p with
      | none => a
      | some e =>
        match e.fragment with
        | none => a
        | some _ =>
          { a with sess := some { s with next := s.next.modify p (fun e => { e with diagnostics := some b }) } } := by
  simp only [astep, hs]
  cases s.next p with
  | none => rfl
  | some e => cases e.fragment <;> rfl

theorem refines_setDiagnostics {c : Consts} {d : Disk} {m : Mem} (h : Inv c (d, some m)) (p b : String) :
    abs c ((setDiagnostics c d m p b).1, some (setDiagnostics c d m p b).2)
      = astep (abs c (d, some m)) (.setDiagnostics p b) := by
  rw [astep_setDiagnostics _ _ rfl]
  show _ = match (lookup m.next p).map (absEntry c d) with
    | none => _
    | some e => _
  cases hl : lookup m.next p with
  | none => rw [setDiagnostics_absent b hl]; rfl
  | some e =>
    cases hf : e.fragment with
    | none =>
      rw [setDiagnostics_nofrag b hl hf]
      simp only [Option.map_some, absEntry, load, hf]
    | some n0 =>
      rw [setDiagnostics_write b hl hf]
      obtain ⟨pl, _, hpl⟩ := readBlob_of_present h.blobs ((h.memNext m rfl).of_lookup hl (Or.inl hf))
      have hload : (absEntry c d e).fragment = some pl := by
        simp only [absEntry, load, hf, hpl]
      simp only [Option.map_some, hload]
      have hext := writeBlob_ext c d b
      rw [abs_of_ext h (writeBlob_manifest c d b) hext,
        absFiles_update c _ m.next p _ (fun e => { e with diagnostics := some b }),
        absFiles_ext hext (h.memNext m rfl)]
      · rfl
      · intro e'
        simp only [absEntry, load, loadDiagnostics, readBlob_writeBlob h.blobs b]

theorem refines_keep {c : Consts} {d : Disk} {m : Mem} (p : String) :
    abs c (d, some (keep m p)) = astep (abs c (d, some m)) (.keep p) := by
  have hr : astep (abs c (d, some m)) (.keep p) =
      match (lookup m.files p).map (absEntry c d) with
      | none => abs c (d, some m)
      | some e => { saved := absDisk c d,
                    sess := some { key := m.key, prev := absFiles c d m.files,
                                   next := (absFiles c d m.next).set p e } } := rfl
  rw [hr]
  unfold keep
  cases hl : lookup m.files p with
  | none => rfl
  | some e =>
    simp only [Option.map_some]
    rw [abs_some]
    show AState.mk _ (some (ASession.mk _ _ (absFiles c d (insert m.next p e)))) = _
    rw [absFiles_insert]

/-- `get_mut(p).map(f)` against `modify p g`, when `abs ∘ f = g ∘ abs`. -/
theorem refines_update {c : Consts} {d : Disk} {m : Mem} (p : String) (f : Entry → Entry)
    (g : AbsEntry → AbsEntry) (hfg : ∀ e, absEntry c d (f e) = g (absEntry c d e)) :
    abs c (d, some { m with next := update m.next p f }) =
      { saved := absDisk c d,
        sess := some { key := m.key, prev := absFiles c d m.files,
                       next := (absFiles c d m.next).modify p g } } := by
  rw [abs_some]
  show AState.mk _ (some (ASession.mk _ _ (absFiles c d (update m.next p f)))) = _
  rw [absFiles_update c d m.next p f g hfg]

theorem refines_invalidate {c : Consts} {d : Disk} {m : Mem} (p : String) :
    abs c (d, some (invalidate m p)) = astep (abs c (d, some m)) (.invalidate p) :=
  refines_update p _ (fun e => { e with fragment := none }) (fun _ => rfl)

theorem refines_setDependents {c : Consts} {d : Disk} {m : Mem} (p : String) (ds : List String) :
    abs c (d, some (setDependents m p ds)) = astep (abs c (d, some m)) (.setDependents p ds) :=
  refines_update p _ (fun e => { e with dependents := ds }) (fun _ => rfl)

theorem refines_setTests {c : Consts} {d : Disk} {m : Mem} (p : String) (ts : List String) :
    abs c (d, some (setTests m p ts)) = astep (abs c (d, some m)) (.setTests p ts) :=
  refines_update p _ (fun e => { e with tests := ts }) (fun _ => rfl)

theorem astep_save (c : Consts) (d : Disk) (m : Mem) :
    astep (abs c (d, some m)) .save =
      { saved := some (m.key, absFiles c d m.next),
        sess := some { key := m.key, prev := absFiles c d m.next, next := AbsFiles.empty } } := rfl

theorem saveWrite_manifest (c : Consts) (d : Disk) (m : Mem) :
    (saveWrite c d m).1.manifest = some { schema := c.schemaVersion, key := m.key, files := m.next } := rfl

theorem saveWrite_find {c : Consts} {d : Disk} {m : Mem} {n : String} (h : n ∈ referenced m.next) :
    findBlob (saveWrite c d m).1.blobs n = findBlob d.blobs n := by
  show findBlob (gc _ m.next).blobs n = _
  rw [gc_find_of_mem h]

/-- The write branch of `save` implements the abstract `save` (no invariant needed: `gc` keeps
    exactly the blobs `next_files` refers to). -/
theorem abs_saveWrite (c : Consts) (d : Disk) (m : Mem) :
    abs c ((saveWrite c d m).1, some (saveWrite c d m).2) = astep (abs c (d, some m)) .save := by
  have hfiles : absFiles c (saveWrite c d m).1 m.next = absFiles c d m.next :=
    absFiles_congr (fun n hn => saveWrite_find hn)
  rw [astep_save, abs_some]
  have hd : absDisk c (saveWrite c d m).1 = some (m.key, absFiles c d m.next) := by
    unfold absDisk
    rw [saveWrite_manifest]
    simp only [if_true, hfiles]
  rw [hd]
  show AState.mk _ (some (ASession.mk m.key (absFiles c (saveWrite c d m).1 m.next) _)) = _
  rw [hfiles]
  rfl

/-- The skipped `save` implements the abstract `save` too: this needs `on_disk_current`. -/
theorem abs_saveSkip {c : Consts} {d : Disk} {m : Mem} (h : Inv c (d, some m))
    (hs : (m.onDiskCurrent && mapEq m.next m.files) = true) :
    abs c (d, some { m with next := [] }) = astep (abs c (d, some m)) .save := by
  have hcur : m.onDiskCurrent = true := by
    cases hc : m.onDiskCurrent <;> simp [hc] at hs ⊢
  have heq : mapEq m.next m.files = true := by
    rw [hcur] at hs; simpa using hs
  have hd : absDisk c d = some (m.key, absFiles c d m.files) := by
    unfold absDisk
    rw [h.current m rfl hcur]
    simp only [if_true]
  rw [astep_save, abs_some, hd, absFiles_mapEq heq]
  rfl

theorem refines_save {c : Consts} {d : Disk} {m : Mem} (h : Inv c (d, some m)) :
    abs c ((save c d m).1, some (save c d m).2) = astep (abs c (d, some m)) .save := by
  cases hs : (m.onDiskCurrent && mapEq m.next m.files) with
  | true => rw [save_skip hs]; exact abs_saveSkip h hs
  | false => rw [save_write hs]; exact abs_saveWrite c d m

/-- T1: every operation commutes with the abstraction on every state satisfying the invariant. -/
theorem refines_step {c : Consts} {s : State} (h : Inv c s) (o : Op) :
    abs c (step c s o) = astep (abs c s) o := by
  obtain ⟨d, om⟩ := s
  cases om with
  | none =>
    cases o with
    | «open» key => exact refines_open c d none key
    | _ => rfl
  | some m =>
    cases o with
    | «open» key => exact refines_open c d (some m) key
    | drop => rfl
    | put p hs b => exact refines_put h p hs b
    | setDiagnostics p b => exact refines_setDiagnostics h p b
    | keep p => exact refines_keep p
    | invalidate p => exact refines_invalidate p
    | setDependents p ds => exact refines_setDependents p ds
    | setTests p ts => exact refines_setTests p ts
    | save => exact refines_save h
    | load p => rw [step_load h.blobs p]; rfl
    | loadDiagnostics p => rw [step_loadDiagnostics h.blobs p]; rfl

theorem refines_run {c : Consts} {s : State} (h : Inv c s) (ops : List Op) :
    abs c (run c s ops) = arun (abs c s) ops := by
  induction ops generalizing s with
  | nil => rfl
  | cons o rest ih =>
    show abs c (run c (step c s o) rest) = arun (astep (abs c s) o) rest
    rw [ih (inv_step h o), refines_step h o]

theorem abs_init (c : Consts) : abs c init = ainit := rfl

/-! ### What `save` leaves on disk, and what the other operations leave alone -/

theorem run_append (c : Consts) (s : State) (a b : List Op) :
    run c s (a ++ b) = run c (run c s a) b := List.foldl_append

theorem run_cons (c : Consts) (s : State) (o : Op) (rest : List Op) :
    run c s (o :: rest) = run c (step c s o) rest := rfl

theorem arun_append (a : AState) (x y : List Op) : arun a (x ++ y) = arun (arun a x) y :=
  List.foldl_append

theorem step_save (c : Consts) (d : Disk) (m : Mem) :
    step c (d, some m) .save = ((save c d m).1, some (save c d m).2) := rfl

/-- After `save` the on-disk manifest answers every path like `next_files` did. -/
theorem save_manifest {c : Consts} {d : Disk} {m : Mem} (h : Inv c (d, some m)) :
    ∃ mf, (save c d m).1.manifest = some mf ∧ mf.schema = c.schemaVersion ∧ mf.key = m.key ∧
      ∀ p, lookup mf.files p = lookup m.next p := by
  cases hs : (m.onDiskCurrent && mapEq m.next m.files) with
  | false => rw [save_write hs]; exact ⟨_, saveWrite_manifest c d m, rfl, rfl, fun _ => rfl⟩
  | true =>
    rw [save_skip hs]
    have hcur : m.onDiskCurrent = true := by
      cases hc : m.onDiskCurrent <;> simp [hc] at hs ⊢
    have heq : mapEq m.next m.files = true := by
      rw [hcur] at hs; simpa using hs
    exact ⟨_, h.current m rfl hcur, rfl, rfl, fun p => (mapEq_lookup heq p).symm⟩

/-- `save` keeps every blob `next_files` refers to, bytes included. -/
theorem save_find {c : Consts} {d : Disk} {m : Mem} {n : String} (hn : n ∈ referenced m.next) :
    findBlob (save c d m).1.blobs n = findBlob d.blobs n := by
  cases hs : (m.onDiskCurrent && mapEq m.next m.files) with
  | false => rw [save_write hs]; exact saveWrite_find hn
  | true => rw [save_skip hs]

theorem save_mem (c : Consts) (d : Disk) (m : Mem) :
    (save c d m).2.key = m.key ∧ (save c d m).2.next = [] := by
  cases hs : (m.onDiskCurrent && mapEq m.next m.files) with
  | false => rw [save_write hs]; exact ⟨rfl, rfl⟩
  | true => rw [save_skip hs]; exact ⟨rfl, rfl⟩

theorem setDiagnostics_manifest (c : Consts) (d : Disk) (m : Mem) (p b : String) :
    (setDiagnostics c d m p b).1.manifest = d.manifest := by
  cases hl : lookup m.next p with
  | none => rw [setDiagnostics_absent b hl]
  | some e =>
    cases hf : e.fragment with
    | none => rw [setDiagnostics_nofrag b hl hf]
    | some n0 => rw [setDiagnostics_write b hl hf]; exact writeBlob_manifest c d b

theorem setDiagnostics_ext (c : Consts) (d : Disk) (m : Mem) (p b : String) :
    Ext d.blobs (setDiagnostics c d m p b).1.blobs := by
  cases hl : lookup m.next p with
  | none => rw [setDiagnostics_absent b hl]; exact Ext.refl _
  | some e =>
    cases hf : e.fragment with
    | none => rw [setDiagnostics_nofrag b hl hf]; exact Ext.refl _
    | some n0 => rw [setDiagnostics_write b hl hf]; exact writeBlob_ext c d b

/-- Only `save` touches the manifest file. -/
theorem step_manifest {c : Consts} (s : State) {o : Op} (ho : o ≠ .save) :
    (step c s o).1.manifest = s.1.manifest := by
  obtain ⟨d, om⟩ := s
  cases om with
  | none => cases o <;> rfl
  | some m =>
    cases o with
    | save => exact absurd rfl ho
    | put p hs b =>
      cases b with
      | none => rfl
      | some payload => exact writeBlob_manifest c d payload
    | setDiagnostics p b => exact setDiagnostics_manifest c d m p b
    | load p => exact (step_load_manifest_mem c _ p).1
    | loadDiagnostics p => exact (step_loadDiagnostics_manifest_mem c _ p).1
    | _ => rfl

/-- Only `save` removes blob files (in a state satisfying the invariant: `read_blob` removes a
    damaged file, and there is none). -/
theorem step_ext {c : Consts} {s : State} (h : Inv c s) {o : Op} (ho : o ≠ .save) :
    Ext s.1.blobs (step c s o).1.blobs := by
  obtain ⟨d, om⟩ := s
  cases om with
  | none => cases o <;> exact Ext.refl _
  | some m =>
    cases o with
    | save => exact absurd rfl ho
    | put p hs b =>
      cases b with
      | none => exact Ext.refl _
      | some payload => exact writeBlob_ext c d payload
    | setDiagnostics p b => exact setDiagnostics_ext c d m p b
    | load p => rw [step_load h.blobs p]; exact Ext.refl _
    | loadDiagnostics p => rw [step_loadDiagnostics h.blobs p]; exact Ext.refl _
    | _ => exact Ext.refl _

theorem run_manifest {c : Consts} (s : State) {ops : List Op} (ho : ∀ o ∈ ops, o ≠ Op.save) :
    (run c s ops).1.manifest = s.1.manifest := by
  induction ops generalizing s with
  | nil => rfl
  | cons o rest ih =>
    rw [run_cons, ih _ (fun o' h' => ho o' (List.mem_cons_of_mem _ h')),
      step_manifest s (ho o List.mem_cons_self)]

theorem run_ext {c : Consts} {s : State} (h : Inv c s) {ops : List Op} (ho : ∀ o ∈ ops, o ≠ Op.save) :
    Ext s.1.blobs (run c s ops).1.blobs := by
  induction ops generalizing s with
  | nil => exact Ext.refl _
  | cons o rest ih =>
    rw [run_cons]
    exact (step_ext h (ho o List.mem_cons_self)).trans
      (ih (inv_step h o) (fun o' h' => ho o' (List.mem_cons_of_mem _ h')))

theorem astep_saved (a : AState) {o : Op} (ho : o ≠ .save) : (astep a o).saved = a.saved := by
  obtain ⟨sv, ss⟩ := a
  cases ss with
  | none => cases o <;> rfl
  | some s =>
    cases o with
    | save => exact absurd rfl ho
    | setDiagnostics p b =>
      rw [astep_setDiagnostics _ s rfl]
      split
      · rfl
      · split <;> rfl
    | keep p =>
      show (match s.prev p with
        | none => _
        | some e => _ : AState).saved = _
      cases s.prev p <;> rfl
    | _ => rfl

theorem arun_saved (a : AState) {ops : List Op} (ho : ∀ o ∈ ops, o ≠ Op.save) :
    (arun a ops).saved = a.saved := by
  induction ops generalizing a with
  | nil => rfl
  | cons o rest ih =>
    show (arun (astep a o) rest).saved = _
    rw [ih _ (fun o' h' => ho o' (List.mem_cons_of_mem _ h')), astep_saved a (ho o List.mem_cons_self)]

/-- `open` on a disk whose manifest has the right schema and key sees exactly its files. -/
theorem entry_openStore {c : Consts} {d : Disk} {mf : Manifest} (hd : d.manifest = some mf)
    (hs : mf.schema = c.schemaVersion) (p : String) :
    entry (openStore c d mf.key) p = lookup mf.files p := by
  unfold entry openStore
  rw [hd]
  simp only [hs, and_self, if_true]

/-! ### The association lists are maps: keys stay unique

So `referenced` (hence `gc`) ranges over exactly the bindings a `BTreeMap` would hold, and `mapEq`
is `BTreeMap ==`. -/

def KeysNodup (fs : Files) : Prop := (fs.map Prod.fst).Nodup

theorem KeysNodup.nil : KeysNodup [] := List.nodup_nil

theorem KeysNodup.insert {fs : Files} (h : KeysNodup fs) (p : String) (e : Entry) :
    KeysNodup (insert fs p e) := by
  unfold KeysNodup VerylModel.Store.insert
  rw [List.map_cons, List.nodup_cons]
  constructor
  · intro hm
    obtain ⟨⟨k, v⟩, hkv, hk⟩ := List.mem_map.mp hm
    have := (List.mem_filter.mp hkv).2
    simp at this
    exact this hk
  · exact List.Nodup.sublist (List.Sublist.map _ List.filter_sublist) h

theorem keys_update (fs : Files) (p : String) (f : Entry → Entry) :
    (update fs p f).map Prod.fst = fs.map Prod.fst := by
  unfold update
  rw [List.map_map]
  apply List.map_congr_left
  intro kv _
  show (if kv.1 = p then (kv.1, f kv.2) else kv).1 = kv.1
  split <;> rfl

theorem KeysNodup.update {fs : Files} (h : KeysNodup fs) (p : String) (f : Entry → Entry) :
    KeysNodup (update fs p f) := by
  unfold KeysNodup
  rw [keys_update]; exact h

/-- With unique keys, the first binding is the only one. -/
theorem lookup_of_mem {fs : Files} (h : KeysNodup fs) {p : String} {e : Entry} (hm : (p, e) ∈ fs) :
    lookup fs p = some e := by
  induction fs with
  | nil => simp at hm
  | cons kv rest ih =>
    obtain ⟨k, v⟩ := kv
    unfold KeysNodup at h
    rw [List.map_cons, List.nodup_cons] at h
    rw [lookup_cons]
    rcases List.mem_cons.mp hm with heq | hrest
    · cases heq; rw [if_pos rfl]
    · have hne : k ≠ p := by
        intro hk
        apply h.1
        rw [hk]
        exact List.mem_map.mpr ⟨(p, e), hrest, rfl⟩
      rw [if_neg hne]
      exact ih h.2 hrest

/-- On maps with unique keys `mapEq` is exactly extensional equality (`BTreeMap ==`). -/
theorem mapEq_iff {a b : Files} (ha : KeysNodup a) (hb : KeysNodup b) :
    mapEq a b = true ↔ ∀ p, lookup a p = lookup b p := by
  constructor
  · exact mapEq_lookup
  · intro h
    unfold mapEq sub
    rw [Bool.and_eq_true, List.all_eq_true, List.all_eq_true]
    constructor
    · intro ⟨k, v⟩ hm
      simp only [beq_iff_eq]
      rw [← h k]; exact lookup_of_mem ha hm
    · intro ⟨k, v⟩ hm
      simp only [beq_iff_eq]
      rw [h k]; exact lookup_of_mem hb hm

structure Uniq (s : State) : Prop where
  disk : ∀ mf, s.1.manifest = some mf → KeysNodup mf.files
  files : ∀ m, s.2 = some m → KeysNodup m.files
  next : ∀ m, s.2 = some m → KeysNodup m.next

theorem uniq_init : Uniq init := by
  refine ⟨?_, ?_, ?_⟩ <;> simp [init]

theorem Uniq.of_next {d d' : Disk} {m : Mem} (h : Uniq (d, some m)) (hman : d'.manifest = d.manifest)
    {nx : Files} (hn : KeysNodup nx) : Uniq (d', some { m with next := nx }) := by
  refine ⟨?_, ?_, ?_⟩
  · intro mf hmf; exact h.disk mf (hman ▸ hmf)
  · intro m1 hm1; cases hm1; exact h.files m rfl
  · intro m1 hm1; cases hm1; exact hn

theorem uniq_step {c : Consts} {s : State} (h : Uniq s) (o : Op) : Uniq (step c s o) := by
  obtain ⟨d, om⟩ := s
  have hopen : ∀ key, Uniq (d, some (openStore c d key)) := by
    intro key
    have hfiles : KeysNodup (openStore c d key).files ∧ (openStore c d key).next = [] := by
      unfold openStore
      cases hd : d.manifest with
      | none => exact ⟨KeysNodup.nil, rfl⟩
      | some mf =>
        by_cases hc : mf.schema = c.schemaVersion ∧ mf.key = key
        · simp only [hc, and_self, if_true, and_true]; exact h.disk mf hd
        · simp only [hc, if_false, and_true]; exact KeysNodup.nil
    refine ⟨h.disk, ?_, ?_⟩
    · intro m hm; cases hm; exact hfiles.1
    · intro m hm; cases hm; rw [hfiles.2]; exact KeysNodup.nil
  have hdrop : Uniq (d, none) := by
    refine ⟨h.disk, ?_, ?_⟩ <;> intro m hm <;> cases hm
  cases om with
  | none =>
    cases o with
    | «open» key => exact hopen key
    | drop => exact hdrop
    | _ => exact h
  | some m =>
    have hnext := h.next m rfl
    cases o with
    | «open» key => exact hopen key
    | drop => exact hdrop
    | put p hs b =>
      cases b with
      | none => exact h.of_next rfl (hnext.insert p _)
      | some payload => exact h.of_next (writeBlob_manifest c d payload) (hnext.insert p _)
    | setDiagnostics p b =>
      show Uniq ((setDiagnostics c d m p b).1, some (setDiagnostics c d m p b).2)
      cases hl : lookup m.next p with
      | none => rw [setDiagnostics_absent b hl]; exact h
      | some e =>
        cases hf : e.fragment with
        | none => rw [setDiagnostics_nofrag b hl hf]; exact h
        | some n0 =>
          rw [setDiagnostics_write b hl hf]
          exact h.of_next (writeBlob_manifest c d b) (hnext.update p _)
    | keep p =>
      show Uniq (d, some (keep m p))
      unfold keep
      cases lookup m.files p with
      | none => exact h
      | some e => exact h.of_next rfl (hnext.insert p e)
    | invalidate p => exact h.of_next rfl (hnext.update p _)
    | setDependents p ds => exact h.of_next rfl (hnext.update p _)
    | setTests p ts => exact h.of_next rfl (hnext.update p _)
    | save =>
      show Uniq ((save c d m).1, some (save c d m).2)
      cases hs : (m.onDiskCurrent && mapEq m.next m.files) with
      | true => rw [save_skip hs]; exact h.of_next rfl KeysNodup.nil
      | false =>
        rw [save_write hs]
        refine ⟨?_, ?_, ?_⟩
        · intro mf hmf; cases hmf; exact hnext
        · intro m1 hm1; cases hm1; exact hnext
        · intro m1 hm1; cases hm1; exact KeysNodup.nil
    | load p =>
      obtain ⟨h1, h2⟩ := step_load_manifest_mem c (d, some m) p
      exact ⟨fun mf hmf => h.disk mf (h1 ▸ hmf), fun m1 hm1 => h.files m1 (h2 ▸ hm1),
        fun m1 hm1 => h.next m1 (h2 ▸ hm1)⟩
    | loadDiagnostics p =>
      obtain ⟨h1, h2⟩ := step_loadDiagnostics_manifest_mem c (d, some m) p
      exact ⟨fun mf hmf => h.disk mf (h1 ▸ hmf), fun m1 hm1 => h.files m1 (h2 ▸ hm1),
        fun m1 hm1 => h.next m1 (h2 ▸ hm1)⟩

theorem uniq_run {c : Consts} {s : State} (h : Uniq s) (ops : List Op) : Uniq (run c s ops) := by
  induction ops generalizing s with
  | nil => exact h
  | cons o rest ih => exact ih (uniq_step h o)

/-- A non-skipped `save` leaves exactly the referenced blob files. -/
theorem saveWrite_blobs_referenced {c : Consts} {d : Disk} {m : Mem} {nd : String × String}
    (h : nd ∈ (saveWrite c d m).1.blobs) : nd.1 ∈ referenced m.next ∧ nd ∈ d.blobs := by
  have := List.mem_filter.mp h
  exact ⟨List.contains_iff_mem.mp this.2, this.1⟩

end VerylModel.Store
