import VerylModel.Lemmas.Resolve
/-! Lemmas for `update_idempotent` (C31 T3): single-run invariants of `gen_locks` and a
congruence lemma relating two runs whose resolver agrees on the declarations that are visited. -/
namespace VerylModel.Resolve

variable {ρ : Type}

/-! ### shape of one loop step -/

theorem resolveAll_forall (w : World ρ) (t : Table) (force : Bool) :
    ∀ (ds : List (Dep ρ)) (xs : List LockDep), resolveAll w t force ds = .ok xs →
      (∀ d ∈ ds, ∃ x ∈ xs, resolveDependency w t force d = .ok x) ∧
      (∀ x ∈ xs, ∃ d ∈ ds, resolveDependency w t force d = .ok x)
  | [], xs, h => by
    simp only [resolveAll] at h
    cases h
    simp
  | d :: ds, xs, h => by
    simp only [resolveAll] at h
    split at h
    · cases h
    · rename_i x hx
      split at h
      · cases h
      · rename_i xs' hxs
        cases h
        have ih := resolveAll_forall w t force ds xs' hxs
        constructor
        · intro d' hd'
          rcases List.mem_cons.mp hd' with hd' | hd'
          · subst hd'; exact ⟨x, List.mem_cons_self, hx⟩
          · obtain ⟨x', hx', h'⟩ := ih.1 d' hd'
            exact ⟨x', List.mem_cons_of_mem _ hx', h'⟩
        · intro x' hx'
          rcases List.mem_cons.mp hx' with hx' | hx'
          · subst hx'; exact ⟨d, List.mem_cons_self, hx⟩
          · obtain ⟨d', hd', h'⟩ := ih.2 x' hx'
            exact ⟨d', List.mem_cons_of_mem _ hd', h'⟩

/-- What a successful loop step does: nothing to locks/srcs/metas (duplicate uuid), or it pushes one
    lock together with its uuid and its metadata. -/
theorem stepDep_shape (w : World ρ) (t : Table) (force root : Bool) (a a' : Acc ρ) (d : Dep ρ)
    (h : stepDep w t force root a d = .ok a') :
    ∃ x m xs, resolveDependency w t force d = .ok x ∧ getMetadata w x.src = .ok m ∧
      resolveAll w t force m.deps = .ok xs ∧
      ((a.srcs.contains x.src.uuid = true ∧ a'.locks = a.locks ∧ a'.srcs = a.srcs ∧ a'.metas = a.metas) ∨
       (a.srcs.contains x.src.uuid = false ∧ ∃ l : Lock, l.src = x.src ∧ l.deps = xs ∧
          a'.locks = a.locks ++ [l] ∧ a'.srcs = x.src.uuid :: a.srcs ∧ a'.metas = a.metas ++ [m])) := by
  unfold stepDep at h
  split at h
  · cases h
  · rename_i x hx
    split at h
    · cases h
    · rename_i m hm
      simp only at h
      split at h
      · cases h
      · split at h
        · cases h
        · rename_i xs hxs
          refine ⟨x, m, xs, hx, hm, hxs, ?_⟩
          split at h
          · rename_i hc
            split at h
            · cases h
            · cases h
              exact Or.inl ⟨hc, rfl, rfl, rfl⟩
          · rename_i hc
            cases h
            exact Or.inr ⟨by simpa using hc, _, rfl, rfl, rfl, rfl, rfl⟩

/-! ### single-run invariants -/

/-- Invariant of the loop state relative to the uuid table `ss0` the enclosing traversal started with. -/
structure LevelInv (w : World ρ) (t : Table) (force : Bool) (ss0 : List Uuid) (a : Acc ρ) : Prop where
  mono : ∀ u ∈ ss0, u ∈ a.srcs
  fromLocks : ∀ u ∈ a.srcs, u ∈ ss0 ∨ ∃ l ∈ a.locks, l.src.uuid = u
  lockIn : ∀ l ∈ a.locks, l.src.uuid ∈ a.srcs
  lockMeta : ∀ l ∈ a.locks, ∃ m ∈ a.metas, getMetadata w l.src = .ok m ∧ resolveAll w t force m.deps = .ok l.deps
  metaLock : ∀ m ∈ a.metas, ∃ l ∈ a.locks, getMetadata w l.src = .ok m ∧ resolveAll w t force m.deps = .ok l.deps
  lockFrom : ∀ l ∈ a.locks, ∃ d, resolveDependency w t force d = .ok ⟨d.name, l.src⟩

theorem resolveDependency_name (w : World ρ) (t : Table) (force : Bool) (d : Dep ρ) (x : LockDep)
    (h : resolveDependency w t force d = .ok x) : x = ⟨d.name, x.src⟩ := by
  unfold resolveDependency at h
  split at h
  · cases h
  · split at h
    · cases h
    · cases h; rfl
  · split at h
    · cases h
    · cases h; rfl

theorem stepDep_inv (w : World ρ) (t : Table) (force root : Bool) (ss0 : List Uuid) (a a' : Acc ρ) (d : Dep ρ)
    (h : stepDep w t force root a d = .ok a') (inv : LevelInv w t force ss0 a) :
    LevelInv w t force ss0 a' ∧ (∀ u ∈ a.srcs, u ∈ a'.srcs) ∧
      ∃ x, resolveDependency w t force d = .ok x ∧ x.src.uuid ∈ a'.srcs := by
  obtain ⟨x, m, xs, hx, hm, hxs, hcase⟩ := stepDep_shape w t force root a a' d h
  rcases hcase with ⟨hc, hl, hs, hms⟩ | ⟨hc, l, hlsrc, hldeps, hl, hs, hms⟩
  · refine ⟨⟨?_, ?_, ?_, ?_, ?_, ?_⟩, ?_, x, hx, ?_⟩
    · rw [hs]; exact inv.mono
    · rw [hs, hl]; exact inv.fromLocks
    · rw [hs, hl]; exact inv.lockIn
    · rw [hl, hms]; exact inv.lockMeta
    · rw [hl, hms]; exact inv.metaLock
    · rw [hl]; exact inv.lockFrom
    · rw [hs]; exact fun u hu => hu
    · rw [hs]; simpa using hc
  · refine ⟨⟨?_, ?_, ?_, ?_, ?_, ?_⟩, ?_, x, hx, ?_⟩
    · rw [hs]; exact fun u hu => List.mem_cons_of_mem _ (inv.mono u hu)
    · rw [hs, hl]
      intro u hu
      rcases List.mem_cons.mp hu with hu | hu
      · exact Or.inr ⟨l, by simp, by rw [hlsrc, hu]⟩
      · rcases inv.fromLocks u hu with h1 | ⟨l', hl', h2⟩
        · exact Or.inl h1
        · exact Or.inr ⟨l', List.mem_append_left _ hl', h2⟩
    · rw [hs, hl]
      intro l' hl'
      rcases List.mem_append.mp hl' with hl' | hl'
      · exact List.mem_cons_of_mem _ (inv.lockIn l' hl')
      · simp only [List.mem_singleton] at hl'
        subst hl'
        rw [hlsrc]; exact List.mem_cons_self
    · rw [hl, hms]
      intro l' hl'
      rcases List.mem_append.mp hl' with hl' | hl'
      · obtain ⟨m', hm', h1, h2⟩ := inv.lockMeta l' hl'
        exact ⟨m', List.mem_append_left _ hm', h1, h2⟩
      · simp only [List.mem_singleton] at hl'
        subst hl'
        exact ⟨m, by simp, by rw [hlsrc]; exact hm, by rw [hldeps]; exact hxs⟩
    · rw [hl, hms]
      intro m' hm'
      rcases List.mem_append.mp hm' with hm' | hm'
      · obtain ⟨l', hl', h1, h2⟩ := inv.metaLock m' hm'
        exact ⟨l', List.mem_append_left _ hl', h1, h2⟩
      · simp only [List.mem_singleton] at hm'
        subst hm'
        exact ⟨l, by simp, by rw [hlsrc]; exact hm, by rw [hldeps]; exact hxs⟩
    · rw [hl]
      intro l' hl'
      rcases List.mem_append.mp hl' with hl' | hl'
      · exact inv.lockFrom l' hl'
      · simp only [List.mem_singleton] at hl'
        subst hl'
        refine ⟨d, ?_⟩
        rw [hlsrc, ← resolveDependency_name w t force d x hx]
        exact hx
    · rw [hs]; exact fun u hu => List.mem_cons_of_mem _ hu
    · rw [hs]; exact List.mem_cons_self

theorem levelLoop_inv (w : World ρ) (t : Table) (force root : Bool) (ss0 : List Uuid) :
    ∀ (ds : List (Dep ρ)) (a a' : Acc ρ), levelLoop w t force root ds a = .ok a' → LevelInv w t force ss0 a →
      LevelInv w t force ss0 a' ∧ (∀ u ∈ a.srcs, u ∈ a'.srcs) ∧ (∀ l ∈ a.locks, l ∈ a'.locks) ∧
        ∀ d ∈ ds, ∃ x, resolveDependency w t force d = .ok x ∧ x.src.uuid ∈ a'.srcs
  | [], a, a', h, inv => by
    simp only [levelLoop] at h
    cases h
    exact ⟨inv, fun _ h => h, fun _ h => h, by simp⟩
  | d :: ds, a, a', h, inv => by
    simp only [levelLoop] at h
    split at h
    · cases h
    · rename_i a1 h1
      obtain ⟨inv1, mono1, x, hx, hxin⟩ := stepDep_inv w t force root ss0 a a1 d h1 inv
      obtain ⟨inv', mono', lmono', hall⟩ := levelLoop_inv w t force root ss0 ds a1 a' h inv1
      have lmono1 : ∀ l ∈ a.locks, l ∈ a1.locks := by
        obtain ⟨_, _, _, _, _, _, hcase⟩ := stepDep_shape w t force root a a1 d h1
        rcases hcase with ⟨_, hl, _, _⟩ | ⟨_, l, _, _, hl, _, _⟩
        · rw [hl]; exact fun _ h => h
        · rw [hl]; exact fun _ h => List.mem_append_left _ h
      refine ⟨inv', fun u hu => mono' u (mono1 u hu), fun l hl => lmono' l (lmono1 l hl), ?_⟩
      intro d' hd'
      rcases List.mem_cons.mp hd' with hd' | hd'
      · subst hd'; exact ⟨x, hx, mono' _ hxin⟩
      · exact hall d' hd'

/-- Facts about a finished `gen_locks` traversal that started with uuid table `ss`. -/
structure RunOK (w : World ρ) (t : Table) (force : Bool) (ss : List Uuid) (ls : List Lock) (ss' : List Uuid) : Prop where
  mono : ∀ u ∈ ss, u ∈ ss'
  fromLocks : ∀ u ∈ ss', u ∈ ss ∨ ∃ l ∈ ls, l.src.uuid = u
  lockMeta : ∀ l ∈ ls, ∃ m, getMetadata w l.src = .ok m ∧ resolveAll w t force m.deps = .ok l.deps
  depsIn : ∀ l ∈ ls, ∀ x ∈ l.deps, x.src.uuid ∈ ss'
  lockFrom : ∀ l ∈ ls, ∃ d, resolveDependency w t force d = .ok ⟨d.name, l.src⟩

/-- Invariant of the loop over `dependencies_metadata`. `done` are the locks whose children have
    been traversed, `todo` the metadata still to traverse. -/
theorem genChildren_ok (w : World ρ) (t : Table) (force : Bool)
    (rec : List (Dep ρ) → List Name → List Uuid → GenResult)
    (hrec : ∀ ds ns ss ls ns' ss', rec ds ns ss = .ok (ls, ns', ss') →
      RunOK w t force ss ls ss' ∧ ∀ d ∈ ds, ∃ x, resolveDependency w t force d = .ok x ∧ x.src.uuid ∈ ss')
    (ss0 : List Uuid) :
    ∀ (ms : List (Meta ρ)) (ns : List Name) (ss : List Uuid) (acc : List Lock) (r : List Lock × List Name × List Uuid),
      genChildren rec ms ns ss acc = .ok r →
      -- what holds before: `acc`/`ss` satisfy everything except that the children of `ms` are pending
      (∀ u ∈ ss0, u ∈ ss) → (∀ u ∈ ss, u ∈ ss0 ∨ ∃ l ∈ acc, l.src.uuid = u) →
      (∀ l ∈ acc, ∃ m, getMetadata w l.src = .ok m ∧ resolveAll w t force m.deps = .ok l.deps) →
      (∀ l ∈ acc, ∃ d, resolveDependency w t force d = .ok ⟨d.name, l.src⟩) →
      (∀ l ∈ acc, (∀ x ∈ l.deps, x.src.uuid ∈ ss) ∨
         ∃ m ∈ ms, getMetadata w l.src = .ok m ∧ resolveAll w t force m.deps = .ok l.deps) →
      RunOK w t force ss0 r.1 r.2.2 ∧ (∀ u ∈ ss, u ∈ r.2.2) ∧ (∀ l ∈ acc, l ∈ r.1)
  | [], ns, ss, acc, r, h, hmono, hfrom, hmeta, hlf, hdeps => by
    simp only [genChildren] at h
    cases h
    refine ⟨⟨hmono, hfrom, hmeta, ?_, hlf⟩, fun _ h => h, fun _ h => h⟩
    intro l hl
    rcases hdeps l hl with h1 | ⟨m, hm, _⟩
    · exact h1
    · cases hm
  | m :: ms, ns, ss, acc, r, h, hmono, hfrom, hmeta, hlf, hdeps => by
    simp only [genChildren] at h
    split at h
    · cases h
    · rename_i ls ns' ss' hr
      obtain ⟨ok1, hroot⟩ := hrec _ _ _ _ _ _ hr
      have step := genChildren_ok w t force rec hrec ss0 ms ns' ss' (acc ++ ls) r h
        (fun u hu => ok1.mono u (hmono u hu))
        (by
          intro u hu
          rcases ok1.fromLocks u hu with h1 | ⟨l, hl, h2⟩
          · rcases hfrom u h1 with h3 | ⟨l, hl, h4⟩
            · exact Or.inl h3
            · exact Or.inr ⟨l, List.mem_append_left _ hl, h4⟩
          · exact Or.inr ⟨l, List.mem_append_right _ hl, h2⟩)
        (by
          intro l hl
          rcases List.mem_append.mp hl with hl | hl
          · exact hmeta l hl
          · exact ok1.lockMeta l hl)
        (by
          intro l hl
          rcases List.mem_append.mp hl with hl | hl
          · exact hlf l hl
          · exact ok1.lockFrom l hl)
        (by
          intro l hl
          rcases List.mem_append.mp hl with hl | hl
          · rcases hdeps l hl with h1 | ⟨m', hm', hg, hra⟩
            · exact Or.inl (fun x hx => ok1.mono _ (h1 x hx))
            · rcases List.mem_cons.mp hm' with hm' | hm'
              · -- the children of this lock have just been traversed
                subst hm'
                left
                intro x hx
                obtain ⟨d, hd, hdx⟩ := (resolveAll_forall w t force _ _ hra).2 x hx
                obtain ⟨x', hx', hin⟩ := hroot d hd
                rw [hdx] at hx'
                cases hx'
                exact hin
              · exact Or.inr ⟨m', hm', hg, hra⟩
          · exact Or.inl (ok1.depsIn l hl))
      obtain ⟨ok, hsm, hlm⟩ := step
      exact ⟨ok, fun u hu => hsm u (ok1.mono u hu), fun l hl => hlm l (List.mem_append_left _ hl)⟩

theorem genLocks_ok (w : World ρ) (t : Table) (force : Bool) :
    ∀ (fuel : Nat) (root : Bool) (ds : List (Dep ρ)) (ns : List Name) (ss : List Uuid)
      (ls : List Lock) (ns' : List Name) (ss' : List Uuid),
      genLocks w t force fuel root ds ns ss = .ok (ls, ns', ss') →
      RunOK w t force ss ls ss' ∧ ∀ d ∈ ds, ∃ x, resolveDependency w t force d = .ok x ∧ x.src.uuid ∈ ss'
  | 0, _, _, _, _, _, _, _, h => by simp [genLocks] at h
  | fuel + 1, root, ds, ns, ss, ls, ns', ss', h => by
    simp only [genLocks] at h
    split at h
    · cases h
    · rename_i a ha
      have inv0 : LevelInv w t force ss ({ names := ns, srcs := ss, locks := [], metas := [] } : Acc ρ) :=
        ⟨fun _ h => h, fun _ h => Or.inl h, by simp, by simp, by simp, by simp⟩
      obtain ⟨inv, smono, _, hall⟩ := levelLoop_inv w t force root ss ds _ a ha inv0
      have := genChildren_ok w t force (genLocks w t force fuel false)
        (fun ds ns ss ls ns' ss' h => genLocks_ok w t force fuel false ds ns ss ls ns' ss' h)
        ss a.metas a.names a.srcs a.locks (ls, ns', ss') h
        inv.mono inv.fromLocks
        (fun l hl => by obtain ⟨m, _, h1, h2⟩ := inv.lockMeta l hl; exact ⟨m, h1, h2⟩)
        inv.lockFrom
        (fun l hl => by obtain ⟨m, hm, h1, h2⟩ := inv.lockMeta l hl; exact Or.inr ⟨m, hm, h1, h2⟩)
      obtain ⟨ok, hsm, _⟩ := this
      refine ⟨ok, ?_⟩
      intro d hd
      obtain ⟨x, hx, hin⟩ := hall d hd
      exact ⟨x, hx, hsm _ hin⟩


/-! ### two runs whose resolver agrees on the visited declarations -/

theorem genChildren_acc_sub (rec : List (Dep ρ) → List Name → List Uuid → GenResult) :
    ∀ (ms : List (Meta ρ)) (ns : List Name) (ss : List Uuid) (acc : List Lock) (r : List Lock × List Name × List Uuid),
      genChildren rec ms ns ss acc = .ok r → ∀ l ∈ acc, l ∈ r.1
  | [], _, _, _, _, h, l, hl => by
    simp only [genChildren] at h
    cases h
    exact hl
  | m :: ms, ns, ss, acc, r, h, l, hl => by
    simp only [genChildren] at h
    split at h
    · cases h
    · exact genChildren_acc_sub rec ms _ _ _ r h l (List.mem_append_left _ hl)

/-- The setting of the congruence: a set `S` of declarations on which the two resolvers agree, a
    set `M` of metadata all of whose declarations are in `S`, and a set `U` of uuids whose metadata
    is in `M`. -/
structure Agree (w : World ρ) (t1 t2 : Table) (f1 f2 : Bool) (S : Dep ρ → Prop) (M : Meta ρ → Prop) (U : Uuid → Prop) : Prop where
  same : ∀ d, S d → resolveDependency w t2 f2 d = resolveDependency w t1 f1 d
  closed : ∀ m, M m → ∀ d ∈ m.deps, S d
  metaOf : ∀ s m, U s.uuid → getMetadata w s = .ok m → M m

theorem resolveAll_congr {w : World ρ} {t1 t2 : Table} {f1 f2 : Bool} {S : Dep ρ → Prop} {M : Meta ρ → Prop} {U : Uuid → Prop}
    (ag : Agree w t1 t2 f1 f2 S M U) : ∀ (ds : List (Dep ρ)), (∀ d ∈ ds, S d) →
      resolveAll w t2 f2 ds = resolveAll w t1 f1 ds
  | [], _ => rfl
  | d :: ds, h => by
    simp only [resolveAll]
    rw [ag.same d (h d List.mem_cons_self), resolveAll_congr ag ds (fun d' hd' => h d' (List.mem_cons_of_mem _ hd'))]

theorem stepDep_congr {w : World ρ} {t1 t2 : Table} {f1 f2 : Bool} {S : Dep ρ → Prop} {M : Meta ρ → Prop} {U : Uuid → Prop}
    (ag : Agree w t1 t2 f1 f2 S M U) (root : Bool) (a a' : Acc ρ) (d : Dep ρ)
    (hd : S d) (hsrc : ∀ u ∈ a.srcs, U u)
    (h : stepDep w t1 f1 root a d = .ok a') (hl : ∀ l ∈ a'.locks, U l.src.uuid) :
    stepDep w t2 f2 root a d = .ok a' := by
  obtain ⟨x, m, xs, hx, hm, hxs, hcase⟩ := stepDep_shape w t1 f1 root a a' d h
  have hM : M m := by
    rcases hcase with ⟨hc, _, _, _⟩ | ⟨_, l, hlsrc, _, hlocks, _, _⟩
    · exact ag.metaOf x.src m (hsrc _ (by simpa using hc)) hm
    · have : U l.src.uuid := hl l (by rw [hlocks]; simp)
      rw [hlsrc] at this
      exact ag.metaOf x.src m this hm
  have hx2 : resolveDependency w t2 f2 d = .ok x := by rw [ag.same d hd]; exact hx
  have hxs2 : resolveAll w t2 f2 m.deps = .ok xs := by rw [resolveAll_congr ag m.deps (ag.closed m hM)]; exact hxs
  rw [← h]
  unfold stepDep
  simp only [hx, hx2, hm, hxs, hxs2]

theorem levelLoop_congr {w : World ρ} {t1 t2 : Table} {f1 f2 : Bool} {S : Dep ρ → Prop} {M : Meta ρ → Prop} {U : Uuid → Prop}
    (ag : Agree w t1 t2 f1 f2 S M U) (root : Bool) (ss0 : List Uuid) (hss0 : ∀ u ∈ ss0, U u) :
    ∀ (ds : List (Dep ρ)) (a a' : Acc ρ), (∀ d ∈ ds, S d) → LevelInv w t1 f1 ss0 a →
      levelLoop w t1 f1 root ds a = .ok a' → (∀ l ∈ a'.locks, U l.src.uuid) →
      levelLoop w t2 f2 root ds a = .ok a'
  | [], a, a', _, _, h, _ => by
    simp only [levelLoop] at h ⊢
    exact h
  | d :: ds, a, a', hS, inv, h, hl => by
    simp only [levelLoop] at h
    split at h
    · cases h
    · rename_i a1 h1
      obtain ⟨inv1, _, _⟩ := stepDep_inv w t1 f1 root ss0 a a1 d h1 inv
      obtain ⟨_, _, lmono, _⟩ := levelLoop_inv w t1 f1 root ss0 ds a1 a' h inv1
      have hsrc : ∀ u ∈ a.srcs, U u := by
        intro u hu
        rcases inv.fromLocks u hu with h0 | ⟨l, hl0, h2⟩
        · exact hss0 u h0
        · obtain ⟨_, _, _, _, _, _, hcase⟩ := stepDep_shape w t1 f1 root a a1 d h1
          have hl1 : l ∈ a1.locks := by
            rcases hcase with ⟨_, hlk, _, _⟩ | ⟨_, l', _, _, hlk, _, _⟩
            · rw [hlk]; exact hl0
            · rw [hlk]; exact List.mem_append_left _ hl0
          rw [← h2]; exact hl l (lmono l hl1)
      have s2 := stepDep_congr ag root a a1 d (hS d List.mem_cons_self) hsrc h1 (fun l hl1 => hl l (lmono l hl1))
      simp only [levelLoop, s2]
      exact levelLoop_congr ag root ss0 hss0 ds a1 a' (fun d' hd' => hS d' (List.mem_cons_of_mem _ hd')) inv1 h hl

theorem genChildren_congr {w : World ρ} {t1 t2 : Table} {f1 f2 : Bool} {S : Dep ρ → Prop} {M : Meta ρ → Prop} {U : Uuid → Prop}
    (ag : Agree w t1 t2 f1 f2 S M U)
    (rec1 rec2 : List (Dep ρ) → List Name → List Uuid → GenResult)
    (hok : ∀ ds ns ss ls ns' ss', rec1 ds ns ss = .ok (ls, ns', ss') → RunOK w t1 f1 ss ls ss')
    (hrec : ∀ ds ns ss ls ns' ss', rec1 ds ns ss = .ok (ls, ns', ss') → (∀ d ∈ ds, S d) → (∀ u ∈ ss, U u) →
      (∀ l ∈ ls, U l.src.uuid) → rec2 ds ns ss = .ok (ls, ns', ss')) :
    ∀ (ms : List (Meta ρ)) (ns : List Name) (ss : List Uuid) (acc : List Lock) (r : List Lock × List Name × List Uuid),
      genChildren rec1 ms ns ss acc = .ok r → (∀ m ∈ ms, M m) → (∀ u ∈ ss, U u) → (∀ l ∈ r.1, U l.src.uuid) →
      genChildren rec2 ms ns ss acc = .ok r
  | [], _, _, _, _, h, _, _, _ => by
    simp only [genChildren] at h ⊢
    exact h
  | m :: ms, ns, ss, acc, r, h, hM, hU, hl => by
    simp only [genChildren] at h
    split at h
    · cases h
    · rename_i ls1 ns1 ss1 hr
      have hsub : ∀ l ∈ ls1, l ∈ r.1 := fun l hl1 =>
        genChildren_acc_sub rec1 ms ns1 ss1 (acc ++ ls1) r h l (List.mem_append_right _ hl1)
      have h2 := hrec _ _ _ _ _ _ hr (ag.closed m (hM m List.mem_cons_self)) hU (fun l hl1 => hl l (hsub l hl1))
      have ok1 := hok _ _ _ _ _ _ hr
      have hU1 : ∀ u ∈ ss1, U u := by
        intro u hu
        rcases ok1.fromLocks u hu with h0 | ⟨l, hl1, h3⟩
        · exact hU u h0
        · rw [← h3]; exact hl l (hsub l hl1)
      simp only [genChildren, h2]
      exact genChildren_congr ag rec1 rec2 hok hrec ms ns1 ss1 (acc ++ ls1) r h
        (fun m' hm' => hM m' (List.mem_cons_of_mem _ hm')) hU1 hl

theorem genLocks_congr {w : World ρ} {t1 t2 : Table} {f1 f2 : Bool} {S : Dep ρ → Prop} {M : Meta ρ → Prop} {U : Uuid → Prop}
    (ag : Agree w t1 t2 f1 f2 S M U) :
    ∀ (fuel : Nat) (root : Bool) (ds : List (Dep ρ)) (ns : List Name) (ss : List Uuid)
      (ls : List Lock) (ns' : List Name) (ss' : List Uuid),
      genLocks w t1 f1 fuel root ds ns ss = .ok (ls, ns', ss') → (∀ d ∈ ds, S d) → (∀ u ∈ ss, U u) →
      (∀ l ∈ ls, U l.src.uuid) → genLocks w t2 f2 fuel root ds ns ss = .ok (ls, ns', ss')
  | 0, _, _, _, _, _, _, _, h, _, _, _ => by simp [genLocks] at h
  | fuel + 1, root, ds, ns, ss, ls, ns', ss', h, hS, hU, hl => by
    simp only [genLocks] at h
    split at h
    · cases h
    · rename_i a ha
      have inv0 : LevelInv w t1 f1 ss ({ names := ns, srcs := ss, locks := [], metas := [] } : Acc ρ) :=
        ⟨fun _ h => h, fun _ h => Or.inl h, by simp, by simp, by simp, by simp⟩
      obtain ⟨inv, _, _, _⟩ := levelLoop_inv w t1 f1 root ss ds _ a ha inv0
      have hla : ∀ l ∈ a.locks, U l.src.uuid := fun l hla =>
        hl l (genChildren_acc_sub _ a.metas a.names a.srcs a.locks (ls, ns', ss') h l hla)
      have l2 := levelLoop_congr ag root ss hU ds _ a hS inv0 ha hla
      have hMa : ∀ m ∈ a.metas, M m := by
        intro m hm
        obtain ⟨l, hlm, hg, _⟩ := inv.metaLock m hm
        exact ag.metaOf l.src m (hla l hlm) hg
      have hUa : ∀ u ∈ a.srcs, U u := by
        intro u hu
        rcases inv.fromLocks u hu with h0 | ⟨l, hl0, h2⟩
        · exact hU u h0
        · rw [← h2]; exact hla l hl0
      have c2 := genChildren_congr ag (genLocks w t1 f1 fuel false) (genLocks w t2 f2 fuel false)
        (fun ds ns ss ls ns' ss' h => (genLocks_ok w t1 f1 fuel false ds ns ss ls ns' ss' h).1)
        (fun ds ns ss ls ns' ss' h h1 h2 h3 => genLocks_congr ag fuel false ds ns ss ls ns' ss' h h1 h2 h3)
        a.metas a.names a.srcs a.locks (ls, ns', ss') h hMa hUa hl
      simp only [genLocks, l2]
      exact c2


/-! ### a freshly resolved lock table answers every visited declaration as the latest release did -/

/-- Coherence of a world: a directory of a repository holds one project, and within one
    `Veryl.pub` versions and revisions determine each other. -/
structure WorldOK (w : World ρ) : Prop where
  onePerDir : ∀ u pr1 pr2 p x y, w.head u pr1 = some (p, x) → w.head u pr2 = some (p, y) → pr1 = pr2
  revVersion : ∀ u pr p rels, w.head u pr = some (p, some rels) →
    ∀ r1 ∈ rels, ∀ r2 ∈ rels, r1.revision = r2.revision → r1.version = r2.version
  versionRev : ∀ u pr p rels, w.head u pr = some (p, some rels) →
    ∀ r1 ∈ rels, ∀ r2 ∈ rels, r1.version = r2.version → r1.revision = r2.revision

theorem getMetadata_uuid (w : World ρ) {s1 s2 : Src} (h : s1.uuid = s2.uuid) : getMetadata w s1 = getMetadata w s2 := by
  cases s1 <;> cases s2 <;> simp only [Src.uuid, Uuid.mk.injEq, Key.url.injEq, Key.path.injEq, reduceCtorEq, false_and] at h
  · obtain ⟨h1, h2, h3⟩ := h
    subst h1 h2 h3
    rfl
  · obtain ⟨h1, _, _⟩ := h
    subst h1
    rfl

theorem resolveVersion_nil (w : World ρ) (u pr : Nat) (req : ρ) :
    resolveVersion w [] false u pr req = resolveLatest w u pr req := by
  simp [resolveVersion, resolveFromLockfile, Table.get]

theorem resolveLatest_ok (w : World ρ) (u pr : Nat) (req : ρ) (rel : Release) (p : Nat)
    (h : resolveLatest w u pr req = .ok (rel, p)) :
    ∃ rels, w.head u pr = some (p, some rels) ∧ rel ∈ rels ∧ w.mt req rel.version = true ∧
      ∀ r' ∈ rels, w.mt req r'.version = true → r'.version ≤ rel.version := by
  unfold resolveLatest at h
  split at h
  · cases h
  · cases h
  · rename_i path rels hh
    have spec := bestRelease_spec w req rels none (by simp)
    split at h
    · rename_i r hr
      cases h
      rw [hr] at spec
      obtain ⟨h1, h2, h3, _⟩ := spec
      refine ⟨rels, hh, ?_, h1, h3⟩
      rcases h2 with h2 | h2
      · exact h2
      · cases h2
    · cases h

/-- A repository lock obtained without consulting a lock table is a published release of the
    project at its directory. -/
theorem sound_of_resolved (w : World ρ) (d : Dep ρ) (u p pr v r : Nat)
    (h : resolveDependency w [] false d = .ok ⟨d.name, .repo u p pr v r⟩) :
    ∃ rels, w.head u pr = some (p, some rels) ∧ (⟨v, r⟩ : Release) ∈ rels := by
  unfold resolveDependency at h
  split at h
  · cases h
  · rename_i url proj req hk
    rw [resolveVersion_nil] at h
    split at h
    · cases h
    · rename_i rel path hl
      simp only [Except.ok.injEq, LockDep.mk.injEq, Src.repo.injEq, true_and] at h
      obtain ⟨h1, h2, h3, h4, h5⟩ := h
      subst h1 h2 h3
      obtain ⟨rels, hh, hm, _, _⟩ := resolveLatest_ok w _ _ req rel _ hl
      refine ⟨rels, hh, ?_⟩
      have : (⟨v, r⟩ : Release) = rel := by cases rel; simp_all
      rw [this]; exact hm
  · split at h
    · cases h
    · cases h

theorem locked_highest (w : World ρ) (proj : Nat) (req : ρ) (pre post : List Lock) (l : Lock)
    (hs : (pre ++ l :: post).Pairwise (fun a b => leDesc a b = true))
    (hpre : ∀ x ∈ pre, lockMatches w proj req x = false)
    (u p v r : Nat) (hl : l.src = .repo u p proj v r)
    (x : Lock) (hx : x ∈ pre ++ l :: post) (hm : lockMatches w proj req x = true)
    (u' p' v' r' : Nat) (hxs : x.src = .repo u' p' proj v' r') (hu : u' = u) : v' ≤ v := by
  rcases List.mem_append.mp hx with hx | hx
  · rw [hpre x hx] at hm
    cases hm
  · rcases List.mem_cons.mp hx with hx | hx
    · subst hx
      rw [hl] at hxs
      cases hxs
      exact Nat.le_refl _
    · have hp := (List.pairwise_append.mp hs).2.1
      have := List.rel_of_pairwise_cons hp hx
      rw [leDesc_iff, hl, hxs, hu] at this
      simp only [srcLe] at this
      omega

/-- The key step: if the table `buildTable L` holds, for the release that `resolve_version_from_latest`
    picks for a declaration, a lock of the same uuid, then resolving the declaration against that
    table (no `force`) gives the same answer. -/
theorem stable_of_locked (w : World ρ) (wok : WorldOK w) (L : List Lock)
    (sound : ∀ l ∈ L, ∀ u p pr v r, l.src = .repo u p pr v r →
      ∃ rels, w.head u pr = some (p, some rels) ∧ (⟨v, r⟩ : Release) ∈ rels)
    (d : Dep ρ) (x : LockDep) (hx : resolveDependency w [] false d = .ok x)
    (hl : ∃ l0 ∈ L, l0.src.uuid = x.src.uuid) :
    resolveDependency w (buildTable L) false d = .ok x := by
  unfold resolveDependency at hx ⊢
  cases hk : d.kind with
  | bad => rw [hk] at hx; cases hx
  | path target => rw [hk] at hx; exact hx
  | git u pr req =>
    rw [hk] at hx
    simp only at hx ⊢
    rw [resolveVersion_nil] at hx
    cases hlat : resolveLatest w u pr req with
    | error e => rw [hlat] at hx; cases hx
    | ok rp =>
      obtain ⟨rel, p⟩ := rp
      rw [hlat] at hx
      simp only [Except.ok.injEq] at hx
      suffices hv : resolveVersion w (buildTable L) false u pr req = .ok (rel, p) by
        rw [hv]; simp only [Except.ok.injEq]; exact hx
      obtain ⟨rels, hh, hrel, hmt, hmax⟩ := resolveLatest_ok w u pr req rel p hlat
      obtain ⟨l0, hl0, hu0⟩ := hl
      rw [← hx] at hu0
      -- the lock of the same uuid is a lock of exactly this release
      have hl0src : l0.src = .repo u p pr rel.version rel.revision := by
        cases hs0 : l0.src with
        | path q => rw [hs0] at hu0; simp [Src.uuid] at hu0
        | repo u0 p0 pr0 v0 r0 =>
          rw [hs0] at hu0
          simp only [Src.uuid, Uuid.mk.injEq, Key.url.injEq] at hu0
          obtain ⟨e1, e2, e3⟩ := hu0
          subst e1 e2 e3
          obtain ⟨rels0, hh0, hm0⟩ := sound l0 hl0 _ _ _ _ _ hs0
          have epr : pr0 = pr := wok.onePerDir _ _ _ _ _ _ hh0 hh
          subst epr
          rw [hh] at hh0
          simp only [Option.some.injEq, Prod.mk.injEq, true_and] at hh0
          subst hh0
          have := wok.revVersion _ _ _ _ hh _ hm0 _ hrel rfl
          simp only at this
          rw [this]
      have hmatch0 : lockMatches w pr req l0 = true := by
        simp [lockMatches, hl0src, hmt]
      have hbucket := get_buildTable L (.url u)
      have hmem0 : l0 ∈ (buildTable L).get (.url u) := by
        rw [hbucket]
        apply (List.mergeSort_perm _ _).mem_iff.mpr
        simp [hl0, hl0src, Src.key]
      have hsorted : ((buildTable L).get (.url u)).Pairwise (fun a b => leDesc a b = true) := by
        rw [hbucket]
        exact List.pairwise_mergeSort leDesc_trans leDesc_total _
      have hsub : ∀ l ∈ (buildTable L).get (.url u), l ∈ L ∧ l.src.key = .url u := by
        intro l hlm
        rw [hbucket] at hlm
        have := (List.mergeSort_perm _ _).mem_iff.mp hlm
        simpa using this
      have key := findSome_lockPick w pr req ((buildTable L).get (.url u))
      unfold resolveVersion
      rw [resolveFromLockfile_eq]
      split at key
      · rename_i rel' p' heq
        rw [heq]
        simp only [Bool.false_eq_true, if_false, Except.ok.injEq, Prod.mk.injEq]
        obtain ⟨pre, l1, post, hsplit, hpre, hm1, u1, hs1⟩ := key
        have hl1mem : l1 ∈ (buildTable L).get (.url u) := by rw [hsplit]; simp
        obtain ⟨hl1L, hl1key⟩ := hsub l1 hl1mem
        have eu : u1 = u := by
          rw [hs1] at hl1key
          simpa [Src.key] using hl1key
        subst eu
        obtain ⟨rels1, hh1, hm1'⟩ := sound l1 hl1L _ _ _ _ _ hs1
        rw [hh] at hh1
        simp only [Option.some.injEq, Prod.mk.injEq] at hh1
        obtain ⟨ep, er⟩ := hh1
        subst ep
        have er' : rels = rels1 := by simpa using er
        subst er'
        have hmt1 : w.mt req rel'.version = true := by
          simp only [lockMatches, hs1, Bool.and_eq_true, decide_eq_true_eq] at hm1
          exact hm1.2
        have hle1 : rel'.version ≤ rel.version := hmax _ hm1' hmt1
        have hle2 : rel.version ≤ rel'.version := by
          rw [hsplit] at hsorted hmem0
          exact locked_highest w pr req pre post l1 hsorted hpre u1 p rel'.version rel'.revision hs1 l0 hmem0 hmatch0
            u1 p rel.version rel.revision hl0src rfl
        have hv : rel'.version = rel.version := Nat.le_antisymm hle1 hle2
        have hr := wok.versionRev _ _ _ _ hh _ hm1' _ hrel hv
        simp only at hr
        refine ⟨?_, rfl⟩
        cases rel'; cases rel; simp_all
      · exact absurd (key l0 hmem0) (by rw [hmatch0]; simp)

end VerylModel.Resolve
