import VerylModel.Lemmas.WideShift
import VerylModel.Lemmas.WideMask
/-! Helper lemmas for C18 (part A): sign handling — wide_ashr, wide_scmp, wide_scmp_asym, wide_resize. -/
namespace VerylModel.Wide

/-- two's-complement reading of a `w`-bit value. -/
def toInt (w x : Nat) : Int := if x.testBit (w - 1) then (x : Int) - ((2 ^ w : Nat) : Int) else (x : Int)

/-- `x` below bit `s`, ones from `s` up to `M`. -/
theorem testBit_low_ones (x s M k : Nat) (hx : x < 2 ^ s) (hs : s ≤ M) :
    (x + (2 ^ M - 2 ^ s)).testBit k = if k < s then x.testBit k else decide (k < M) := by
  have e : 2 ^ M - 2 ^ s = 2 ^ s * (2 ^ (M - s) - 1) := by
    rw [Nat.mul_sub, Nat.mul_one, ← Nat.pow_add]
    congr 2; omega
  rw [e, Nat.add_comm, Nat.testBit_two_pow_mul_add _ hx]
  split
  · rfl
  · rw [Nat.testBit_two_pow_sub_one]
    congr 1
    apply propext
    omega

theorem store_eq_of_length (dst ws : List Nat) (h : dst.length = ws.length) : store dst ws = ws := by
  unfold store
  rw [List.drop_of_length_le (by omega), List.append_nil]

-- ── ashr ────────────────────────────────────────────────────────────────────────────────────

theorem setBitAt_length (n : Nat) (d : List Nat) (p : Nat) : (setBitAt n d p).length = d.length := by
  unfold setBitAt; simp only; split <;> simp

theorem setBitAt_words (n : Nat) (d : List Nat) (p : Nat) (hd : Words d) : Words (setBitAt n d p) := by
  unfold setBitAt
  simp only
  split
  · exact hd.set _ _ (or_lt_W (rd_lt hd _) (two_pow_lt_W (Nat.mod_lt _ (by decide))))
  · exact hd

theorem bitAt_setBitAt (n : Nat) (d : List Nat) (p k : Nat) (hn : n ≤ d.length) :
    bitAt (setBitAt n d p) k = (bitAt d k || (decide (k = p) && decide (p / 64 < n))) := by
  unfold setBitAt
  simp only
  split
  · rename_i h
    unfold bitAt
    rw [rd_set]
    by_cases h1 : k / 64 = p / 64
    · have h2 : p / 64 < d.length := by omega
      simp only [h1, h2, and_self, if_true, Nat.testBit_or, Nat.testBit_two_pow, h, decide_true, Bool.and_true]
      congr 1
      apply decide_eq_decide.mpr
      omega
    · have h3 : ¬ k = p := fun e => h1 (by rw [e])
      simp [h1, h3]
  · rename_i h
    simp [h]

theorem fill_spec (n len s : Nat) (d : List Nat) (hn : n ≤ d.length) (hd : Words d) :
    let r := (List.range' s len).foldl (setBitAt n) d
    r.length = d.length ∧ Words r ∧
    ∀ k, bitAt r k = (bitAt d k || (decide (s ≤ k ∧ k < s + len) && decide (k / 64 < n))) := by
  induction len generalizing s d with
  | zero =>
    simp only [List.range'_zero, List.foldl_nil, true_and]
    refine ⟨hd, ?_⟩
    intro k
    have : decide (s ≤ k ∧ k < s + 0) = false := by
      apply decide_eq_false; omega
    rw [this, Bool.false_and, Bool.or_false]
  | succ len ih =>
    simp only [List.range'_succ, List.foldl_cons]
    have := ih (s + 1) (setBitAt n d s) (by rw [setBitAt_length]; exact hn) (setBitAt_words n d s hd)
    simp only [setBitAt_length] at this
    refine ⟨this.1, this.2.1, ?_⟩
    intro k
    rw [this.2.2 k, bitAt_setBitAt n d s k hn]
    by_cases h1 : k = s
    · subst h1
      have h2 : ¬ (k + 1 ≤ k ∧ k < k + 1 + len) := by omega
      have h3 : k ≤ k ∧ k < k + (len + 1) := by omega
      simp [h2, h3]
    · by_cases h2 : s + 1 ≤ k ∧ k < s + 1 + len
      · have h3 : s ≤ k ∧ k < s + (len + 1) := by omega
        simp [h1, h2, h3]
      · have h3 : ¬ (s ≤ k ∧ k < s + (len + 1)) := by omega
        simp [h1, h2, h3]

/-- Result of `wide_ashr` for a zero-padded operand: length, words, and every bit. -/
theorem ashr_spec (dst a : List Nat) (amount p : Nat)
    (hnb : unpackNb p ≠ 0) (hw : unpackWidth p ≠ 0) (hld : dst.length = nw (unpackNb p))
    (hwn : unpackWidth p ≤ 64 * nw (unpackNb p)) (ha : Words a)
    (hpad : ∀ j, unpackWidth p ≤ j → bitAt a j = false) :
    let r := ashr dst a amount p
    r.length = dst.length ∧ Words r ∧
    ∀ k, bitAt r k = (decide (k < unpackWidth p) &&
      (if k + amount < unpackWidth p then bitAt a (k + amount) else bitAt a (unpackWidth p - 1))) := by
  unfold ashr
  simp only [hnb, hw, or_self, if_false]
  generalize unpackWidth p = w at *
  generalize nw (unpackNb p) = n at *
  have hst : store dst (lshr n a amount) = lshr n a amount :=
    store_eq_of_length _ _ (by simp [lshr, hld]; split <;> simp)
  rw [hst]
  have hll : (lshr n a amount).length = n := by simp [lshr]; split <;> simp
  have hlw := lshr_words n a amount ha
  have hlb := bitAt_lshr n a amount ha
  -- the bits of the logical shift, given zero padding
  have hlb' : ∀ k, bitAt (lshr n a amount) k = (decide (k + amount < w) && bitAt a (k + amount)) := by
    intro k
    rw [hlb]
    by_cases h1 : k + amount < w
    · have : k + amount < 64 * n := by omega
      simp [h1, this]
    · simp [h1, hpad (k + amount) (by omega)]
  by_cases hs : signBit a w = 1 ∧ amount > 0
  · simp only [hs, and_self, if_true]
    have hsb := (signBit_eq_one a w).mp hs.1
    have hf := fill_spec n (w - (if amount ≥ w then 0 else w - amount)) (if amount ≥ w then 0 else w - amount)
      (lshr n a amount) (by omega) hlw
    simp only at hf
    refine ⟨by rw [hf.1, hll, hld], hf.2.1, ?_⟩
    intro k
    rw [hf.2.2 k, hlb' k, hsb]
    by_cases hk : k < w
    · have hkn : k / 64 < n := by omega
      by_cases h1 : k + amount < w
      · have : ¬ ((if amount ≥ w then 0 else w - amount) ≤ k ∧
            k < (if amount ≥ w then 0 else w - amount) + (w - (if amount ≥ w then 0 else w - amount))) := by
          split <;> omega
        simp [hk, h1, this]
      · have : (if amount ≥ w then 0 else w - amount) ≤ k ∧
            k < (if amount ≥ w then 0 else w - amount) + (w - (if amount ≥ w then 0 else w - amount)) := by
          split <;> omega
        simp [hk, h1, this, hkn]
    · have h1 : ¬ k + amount < w := by omega
      have : ¬ ((if amount ≥ w then 0 else w - amount) ≤ k ∧
          k < (if amount ≥ w then 0 else w - amount) + (w - (if amount ≥ w then 0 else w - amount))) := by
        split <;> omega
      simp [hk, h1, this]
  · simp only [hs, if_false]
    refine ⟨by rw [hll, hld], hlw, ?_⟩
    intro k
    rw [hlb' k]
    by_cases hk : k < w
    · by_cases h1 : k + amount < w
      · simp [hk, h1]
      · -- no fill: either the sign is 0, or amount = 0 (then k + amount < w)
        have hsign : bitAt a (w - 1) = false := by
          by_cases hamt : amount > 0
          · have : ¬ signBit a w = 1 := fun h => hs ⟨h, hamt⟩
            rw [signBit_eq_one] at this
            simpa using this
          · omega
        simp [hk, h1, hsign]
    · have h1 : ¬ k + amount < w := by omega
      simp [hk, h1]


-- ── scmp ────────────────────────────────────────────────────────────────────────────────────

theorem testBit_top {x w : Nat} (hw : 0 < w) (hx : x < 2 ^ w) : x.testBit (w - 1) = decide (2 ^ (w - 1) ≤ x) := by
  by_cases h : 2 ^ (w - 1) ≤ x
  · have e : w - 1 + 1 = w := by omega
    rw [Nat.testBit_of_two_pow_le_and_two_pow_add_one_gt h (by rw [e]; exact hx)]
    simp [h]
  · rw [Nat.testBit_lt_two_pow (by omega)]
    simp [h]

theorem ucmp_spec (n : Nat) (a b : List Nat) (hla : a.length = n) (hlb : b.length = n) (ha : Words a) (hb : Words b) :
    ucmp n a b = cmpNat (toNat a) (toNat b) := by
  rw [ucmp_take n a b ha hb, List.take_of_length_le (by omega), List.take_of_length_le (by omega)]

/-- same sign ⇒ signed order = unsigned order; different sign ⇒ the negative one is smaller. -/
theorem cmpInt_toInt (w A B : Nat) (hA : A < 2 ^ w) (hB : B < 2 ^ w) :
    cmpInt (toInt w A) (toInt w B) =
      if A.testBit (w - 1) ≠ B.testBit (w - 1) then (if A.testBit (w - 1) then -1 else 1) else cmpNat A B := by
  unfold toInt cmpInt cmpNat
  generalize 2 ^ w = P at *
  cases A.testBit (w - 1) <;> cases B.testBit (w - 1) <;>
    simp only [ne_eq, Bool.true_eq_false, Bool.false_eq_true, not_true_eq_false, not_false_eq_true,
      if_true, if_false] <;>
    (repeat' split) <;> omega

theorem scmp_spec (a b : List Nat) (p : Nat)
    (hnb : unpackNb p ≠ 0) (hw : unpackWidth p ≠ 0)
    (hla : a.length = nw (unpackNb p)) (hlb : b.length = nw (unpackNb p))
    (ha : Words a) (hb : Words b)
    (hA : toNat a < 2 ^ unpackWidth p) (hB : toNat b < 2 ^ unpackWidth p) :
    scmp a b p = cmpInt (toInt (unpackWidth p) (toNat a)) (toInt (unpackWidth p) (toNat b)) := by
  unfold scmp
  simp only [hnb, hw, or_self, if_false]
  rw [cmpInt_toInt _ _ _ hA hB, testBit_toNat ha, testBit_toNat hb, ucmp_spec _ a b hla hlb ha hb]
  rw [signBit_eq, signBit_eq]
  cases bitAt a (unpackWidth p - 1) <;> cases bitAt b (unpackWidth p - 1) <;> simp

-- ── scmp_asym ───────────────────────────────────────────────────────────────────────────────

/-- the operand as the loop of `wide_scmp_asym` sees it. -/
def sextWords (m : Nat) (a : List Nat) (w s : Nat) : List Nat := mapWords m fun i => sextWord a i w s

theorem scmpAsymLoop_eq (a b : List Nat) (aw bw asg bsg m i : Nat) (hi : i ≤ m) :
    scmpAsymLoop a b aw bw asg bsg i = ucmp i (sextWords m a aw asg) (sextWords m b bw bsg) := by
  induction i with
  | zero => simp [scmpAsymLoop, ucmp]
  | succ i ih =>
    simp only [scmpAsymLoop, ucmp, sextWords, rd_mapWords]
    have : i < m := by omega
    simp only [this, if_true]
    rw [ih (by omega)]
    rfl

theorem sextWords_words (m : Nat) (a : List Nat) (w s : Nat) (ha : Words a) : Words (sextWords m a w s) :=
  mapWords_words _ _ fun i _ => sextWord_lt a i w s ha

theorem bitAt_sextWords (m : Nat) (a : List Nat) (w s k : Nat) :
    bitAt (sextWords m a w s) k = (decide (k / 64 < m) && (if k < w then bitAt a k else decide (s = 1))) := by
  unfold sextWords
  rw [bitAt_mapWords, testBit_sextWord a (k / 64) w s (k % 64) (Nat.mod_lt _ (by decide))]
  have e : 64 * (k / 64) + k % 64 = k := by omega
  rw [e]

/-- value of the sign-extended operand: low `w` bits of `a`, sign above, `64 m` bits in all. -/
theorem sextWords_toNat (m : Nat) (a : List Nat) (w s : Nat) (ha : Words a) (hw : w ≤ 64 * m) :
    toNat (sextWords m a w s) = toNat a % 2 ^ w + (if s = 1 then 2 ^ (64 * m) - 2 ^ w else 0) := by
  apply toNat_eq_of_bits (sextWords_words m a w s ha)
  intro k
  rw [bitAt_sextWords]
  by_cases hs : s = 1
  · simp only [hs, if_true, decide_true]
    rw [testBit_low_ones _ _ _ _ (Nat.mod_lt _ (Nat.two_pow_pos w)) hw, Nat.testBit_mod_two_pow, testBit_toNat ha]
    by_cases h1 : k < w
    · have : k / 64 < m := by omega
      simp [h1, this]
    · simp only [h1, if_false, Bool.and_true]
      congr 1
      apply propext
      omega
  · simp only [hs, if_false, decide_false, Nat.add_zero]
    rw [Nat.testBit_mod_two_pow, testBit_toNat ha]
    by_cases h1 : k < w
    · have : k / 64 < m := by omega
      simp [h1, this]
    · simp [h1]

theorem cmp_sext (N aw bw A B : Nat) (s : Bool)
    (ha : aw ≤ N) (hb : bw ≤ N) (hsa : A.testBit (aw - 1) = s) (hsb : B.testBit (bw - 1) = s) :
    cmpNat (A + (if s then 2 ^ N - 2 ^ aw else 0)) (B + (if s then 2 ^ N - 2 ^ bw else 0))
      = cmpInt (toInt aw A) (toInt bw B) := by
  unfold toInt cmpInt cmpNat
  rw [hsa, hsb]
  have h1 : 2 ^ aw ≤ 2 ^ N := Nat.pow_le_pow_right (by decide) ha
  have h2 : 2 ^ bw ≤ 2 ^ N := Nat.pow_le_pow_right (by decide) hb
  generalize 2 ^ N = PN at *
  generalize 2 ^ aw = Pa at *
  generalize 2 ^ bw = Pb at *
  cases s <;>
    simp only [Bool.false_eq_true, if_true, if_false, Nat.add_zero] <;>
    (repeat' split) <;> omega


/-- operands of different sign (each at its own width). -/
theorem cmpInt_toInt_diff (aw bw A B : Nat) (hA : A < 2 ^ aw) (hB : B < 2 ^ bw)
    (h : A.testBit (aw - 1) ≠ B.testBit (bw - 1)) :
    cmpInt (toInt aw A) (toInt bw B) = if A.testBit (aw - 1) then -1 else 1 := by
  unfold toInt cmpInt
  generalize 2 ^ aw = Pa at *
  generalize 2 ^ bw = Pb at *
  revert h
  cases A.testBit (aw - 1) <;> cases B.testBit (bw - 1)
  · intro h; exact absurd rfl h
  · intro _
    simp only [Bool.false_eq_true, if_true, if_false]
    (repeat' split) <;> omega
  · intro _
    simp only [Bool.false_eq_true, if_true, if_false]
    (repeat' split) <;> omega
  · intro h; exact absurd rfl h

theorem scmpAsym_spec (a b : List Nat) (pa pb : Nat)
    (h1 : unpackWidth pa ≠ 0) (h2 : unpackWidth pb ≠ 0) (h3 : unpackNb pa ≠ 0) (h4 : unpackNb pb ≠ 0)
    (ha : Words a) (hb : Words b)
    (haw : unpackWidth pa ≤ 64 * max (nw (unpackNb pa)) (nw (unpackNb pb)))
    (hbw : unpackWidth pb ≤ 64 * max (nw (unpackNb pa)) (nw (unpackNb pb))) :
    scmpAsym a b pa pb =
      cmpInt (toInt (unpackWidth pa) (toNat a % 2 ^ unpackWidth pa))
             (toInt (unpackWidth pb) (toNat b % 2 ^ unpackWidth pb)) := by
  unfold scmpAsym
  simp only [h1, h2, h3, h4, or_self, if_false]
  generalize unpackWidth pa = aw at *
  generalize unpackWidth pb = bw at *
  generalize max (nw (unpackNb pa)) (nw (unpackNb pb)) = m at *
  have hA := Nat.mod_lt (toNat a) (Nat.two_pow_pos aw)
  have hB := Nat.mod_lt (toNat b) (Nat.two_pow_pos bw)
  have hsa : (toNat a % 2 ^ aw).testBit (aw - 1) = bitAt a (aw - 1) := by
    rw [Nat.testBit_mod_two_pow, testBit_toNat ha]
    have : aw - 1 < aw := by omega
    simp [this]
  have hsb : (toNat b % 2 ^ bw).testBit (bw - 1) = bitAt b (bw - 1) := by
    rw [Nat.testBit_mod_two_pow, testBit_toNat hb]
    have : bw - 1 < bw := by omega
    simp [this]
  rw [signBit_eq, signBit_eq]
  by_cases hne : bitAt a (aw - 1) = bitAt b (bw - 1)
  · have e : (bitAt a (aw - 1)).toNat = (bitAt b (bw - 1)).toNat := by rw [hne]
    simp only [e, ne_eq, not_true_eq_false, if_false]
    rw [scmpAsymLoop_eq a b aw bw _ _ m m (Nat.le_refl _),
      ucmp_spec m _ _ (by simp [sextWords]) (by simp [sextWords]) (sextWords_words _ _ _ _ ha) (sextWords_words _ _ _ _ hb),
      sextWords_toNat m a aw _ ha haw, sextWords_toNat m b bw _ hb hbw]
    have := cmp_sext (64 * m) aw bw (toNat a % 2 ^ aw) (toNat b % 2 ^ bw) (bitAt b (bw - 1)) haw hbw
      (by rw [hsa, hne]) hsb
    rw [← this]
    cases bitAt b (bw - 1) <;> simp
  · rw [cmpInt_toInt_diff aw bw _ _ hA hB (by rw [hsa, hsb]; exact hne), hsa]
    have : ¬ (bitAt a (aw - 1)).toNat = (bitAt b (bw - 1)).toNat := by
      revert hne
      cases bitAt a (aw - 1) <;> cases bitAt b (bw - 1) <;> simp
    simp only [ne_eq, this, not_false_eq_true, if_true]
    cases bitAt a (aw - 1) <;> simp

-- ── resize ──────────────────────────────────────────────────────────────────────────────────

theorem resize_eq (src : List Nat) (info dnb : Nat) (hsw : unpackWidth (info % 4294967296) ≠ 0) :
    resize src info dnb = sextWords (nw dnb) src (unpackWidth (info % 4294967296))
      (if (info >>> 32) &&& 1 = 1 then signBit src (unpackWidth (info % 4294967296)) else 0) := by
  unfold resize sextWords
  simp only [hsw, if_false]

theorem resize_zero (src : List Nat) (info dnb : Nat) (hsw : unpackWidth (info % 4294967296) = 0) :
    toNat (resize src info dnb) = 0 := by
  unfold resize
  simp only [hsw, if_true]
  apply toNat_eq_of_bits (zeros_words _)
  intro k
  simp [bitAt_mapWords]

theorem resize_toNat (src : List Nat) (info dnb : Nat) (hs : Words src)
    (hsw : unpackWidth (info % 4294967296) ≠ 0) :
    toNat (resize src info dnb) =
      (toNat src % 2 ^ unpackWidth (info % 4294967296)
        + (if (info >>> 32) &&& 1 = 1 ∧ (toNat src).testBit (unpackWidth (info % 4294967296) - 1) = true
           then 2 ^ (max (unpackWidth (info % 4294967296)) (64 * nw dnb)) - 2 ^ unpackWidth (info % 4294967296) else 0))
      % 2 ^ (64 * nw dnb) := by
  rw [resize_eq src info dnb hsw]
  generalize unpackWidth (info % 4294967296) = sw at *
  generalize nw dnb = m
  apply toNat_eq_of_bits (sextWords_words _ _ _ _ hs)
  intro k
  rw [bitAt_sextWords, Nat.testBit_mod_two_pow, testBit_toNat hs]
  have hkm : (k / 64 < m) ↔ (k < 64 * m) := by omega
  by_cases hneg : (info >>> 32) &&& 1 = 1 ∧ bitAt src (sw - 1) = true
  · simp only [hneg, and_self, if_true]
    rw [testBit_low_ones _ _ _ _ (Nat.mod_lt _ (Nat.two_pow_pos sw)) (Nat.le_max_left _ _), Nat.testBit_mod_two_pow,
      testBit_toNat hs, (signBit_eq_one src sw).mpr hneg.2]
    by_cases hk : k < 64 * m
    · have : k < max sw (64 * m) := by omega
      by_cases h1 : k < sw <;> simp [hkm, hk, h1, this]
    · simp [hkm, hk]
  · simp only [hneg, if_false, Nat.add_zero]
    rw [Nat.testBit_mod_two_pow, testBit_toNat hs]
    have hsign : ¬ ((if (info >>> 32) &&& 1 = 1 then signBit src sw else 0) = 1) := by
      intro h
      apply hneg
      split at h
      · rename_i h0
        exact ⟨h0, (signBit_eq_one src sw).mp h⟩
      · cases h
    rw [decide_eq_false hsign]
    by_cases hk : k < 64 * m
    · by_cases h1 : k < sw <;> simp [hkm, hk, h1]
    · simp [hkm, hk]

end VerylModel.Wide
