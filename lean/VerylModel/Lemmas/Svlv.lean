import VerylModel.Core.Svlv
/-! Helper lemmas for C36: both arms of `toWords` compute the base-2^32 digit list; `accumulate`
is positional packing. Core Lean only. -/
namespace VerylModel.Svlv

/-- Base-2^32 digit `i` of `n`. -/
def digit (n i : Nat) : Nat := (n >>> (32 * i)) % two32

/-- The word list both arms are shown to compute. -/
def specFrom (p m : Nat) : Nat → Nat → List Word
  | 0, _ => []
  | n + 1, i => ⟨digit p i ^^^ digit m i, digit m i⟩ :: specFrom p m n (i + 1)

theorem two32_eq : two32 = 2 ^ 32 := by decide
theorem two64_eq : two64 = 2 ^ 64 := by decide

theorem digit_lt (n i : Nat) : digit n i < two32 := by
  unfold digit; exact Nat.mod_lt _ (by decide)

theorem toWordsU64_spec (p m : Nat) : ∀ n i,
    toWordsU64 n (p >>> (32 * i)) (m >>> (32 * i)) = specFrom p m n i := by
  intro n
  induction n with
  | zero => intro i; rfl
  | succ n ih =>
    intro i
    have h := ih (i + 1)
    have e : 32 * (i + 1) = 32 * i + 32 := by omega
    rw [e, Nat.shiftRight_add, Nat.shiftRight_add] at h
    simp only [toWordsU64, specFrom, digit, h]

theorem u32Digits_getD : ∀ i n, (u32Digits n).getD i 0 = digit n i := by
  intro i
  induction i with
  | zero =>
    intro n
    rw [u32Digits]
    split
    · subst_vars; simp [digit]
    · simp [digit]
  | succ i ih =>
    intro n
    rw [u32Digits]
    split
    · subst_vars; simp [digit]
    · have e : 32 * (i + 1) = 32 + 32 * i := by omega
      simp only [List.getD_cons_succ, ih, digit, e, Nat.shiftRight_add]
      rw [Nat.shiftRight_eq_div_pow n 32, two32_eq]

theorem toWordsBig_spec (p m : Nat) : ∀ n i,
    toWordsBigFrom (u32Digits p) (u32Digits m) n i = specFrom p m n i := by
  intro n
  induction n with
  | zero => intro i; rfl
  | succ n ih => intro i; simp only [toWordsBigFrom, specFrom, u32Digits_getD, ih]

theorem toWords_spec (v : Val) : toWords v = specFrom v.payload v.mask (lenWords v.width) 0 := by
  unfold toWords
  cases v.repr with
  | u64 => simpa using toWordsU64_spec v.payload v.mask (lenWords v.width) 0
  | big => exact toWordsBig_spec _ _ _ _

theorem specFrom_length (p m : Nat) : ∀ n i, (specFrom p m n i).length = n := by
  intro n; induction n with
  | zero => intro i; rfl
  | succ n ih => intro i; simp [specFrom, ih]

theorem specFrom_getD (p m : Nat) : ∀ n i k, k < n →
    (specFrom p m n i).getD k ⟨0, 0⟩ = ⟨digit p (i + k) ^^^ digit m (i + k), digit m (i + k)⟩ := by
  intro n; induction n with
  | zero => intro i k h; omega
  | succ n ih =>
    intro i k h
    cases k with
    | zero => simp [specFrom]
    | succ k =>
      have := ih (i + 1) k (by omega)
      simp only [specFrom, List.getD_cons_succ, this]
      have e : i + 1 + k = i + (k + 1) := by omega
      rw [e]

theorem digit_testBit (n k j : Nat) (hj : j < 32) :
    (digit n k).testBit j = n.testBit (32 * k + j) := by
  unfold digit
  rw [two32_eq, Nat.testBit_mod_two_pow, Nat.testBit_shiftRight]
  simp [hj]

/-- Positional packing: the value `accumulate` builds when nothing wraps. -/
def pack (f : Word → Nat) : List Word → Nat
  | [] => 0
  | w :: ws => (pack f ws <<< 32) ||| f w

theorem accumulate_zero (f : Word → Nat) (ws : List Word) : accumulate 0 f ws = pack f ws := by
  unfold accumulate
  rw [List.foldl_reverse]
  induction ws with
  | nil => rfl
  | cons w ws ih =>
    simp only [if_true] at ih
    simp only [List.foldr_cons, pack, if_true, ih]

theorem pack_cons_eq (f : Word → Nat) (w : Word) (ws : List Word) (h : f w < two32) :
    pack f (w :: ws) = pack f ws * two32 + f w := by
  rw [two32_eq] at *
  simp only [pack]
  rw [← Nat.shiftLeft_add_eq_or_of_lt h, Nat.shiftLeft_eq]

theorem pack_lt (f : Word → Nat) : ∀ ws : List Word, (∀ w ∈ ws, f w < two32) →
    pack f ws < 2 ^ (32 * ws.length) := by
  intro ws
  induction ws with
  | nil => intro _; simp [pack]
  | cons w ws ih =>
    intro h
    have hw := h w (by simp)
    have ih' := ih (fun x hx => h x (by simp [hx]))
    rw [pack_cons_eq f w ws hw]
    have e : 32 * (w :: ws).length = 32 * ws.length + 32 := by simp; omega
    rw [e, Nat.pow_add]
    rw [two32_eq] at *
    have : (pack f ws + 1) * 2 ^ 32 ≤ 2 ^ (32 * ws.length) * 2 ^ 32 :=
      Nat.mul_le_mul_right _ ih'
    rw [Nat.add_mul] at this
    omega

theorem accumulate_two64 (f : Word → Nat) (ws : List Word) (hl : ws.length ≤ 2)
    (h : ∀ w ∈ ws, f w < two32) : accumulate two64 f ws = pack f ws := by
  unfold accumulate
  rw [List.foldl_reverse]
  have hne : two64 ≠ 0 := by decide
  match ws, hl, h with
  | [], _, _ => rfl
  | [a], _, _ => simp [pack, hne]
  | [a, b], _, h =>
    have hb : f b < two32 := h b (by simp)
    simp only [List.foldr_cons, List.foldr_nil, pack, hne, if_false]
    have h0 : (0 <<< 32 % two64 ||| f b) = f b := by simp
    rw [h0]
    have h1 : (f b <<< 32) % two64 = f b <<< 32 := by
      apply Nat.mod_eq_of_lt
      rw [Nat.shiftLeft_eq, two64_eq]
      rw [two32_eq] at hb
      have : f b * 2 ^ 32 < 2 ^ 32 * 2 ^ 32 := Nat.mul_lt_mul_of_pos_right hb (by decide)
      simpa using this
    simp [h1]
  | _ :: _ :: _ :: _, hl, _ => simp at hl

theorem digit_pack_zero (f : Word → Nat) (w : Word) (ws : List Word) (h : f w < two32) :
    digit (pack f (w :: ws)) 0 = f w := by
  rw [pack_cons_eq f w ws h]
  unfold digit
  simp only [Nat.mul_zero, Nat.shiftRight_zero]
  rw [Nat.mul_comm, Nat.mul_add_mod]
  exact Nat.mod_eq_of_lt h

theorem digit_pack_succ (f : Word → Nat) (w : Word) (ws : List Word) (h : f w < two32) (i : Nat) :
    digit (pack f (w :: ws)) (i + 1) = digit (pack f ws) i := by
  rw [pack_cons_eq f w ws h]
  unfold digit
  have e : 32 * (i + 1) = 32 + 32 * i := by omega
  rw [e, Nat.shiftRight_add, Nat.shiftRight_eq_div_pow _ 32, ← two32_eq]
  have : (pack f ws * two32 + f w) / two32 = pack f ws := by
    rw [Nat.mul_comm, Nat.mul_add_div (by decide), Nat.div_eq_of_lt h, Nat.add_zero]
  rw [this]

theorem specFrom_pack_succ (f g : Word → Nat) (w : Word) (ws : List Word)
    (hf : f w < two32) (hg : g w < two32) : ∀ n i,
    specFrom (pack f (w :: ws)) (pack g (w :: ws)) n (i + 1) = specFrom (pack f ws) (pack g ws) n i := by
  intro n; induction n with
  | zero => intro i; rfl
  | succ n ih =>
    intro i
    simp only [specFrom, digit_pack_succ f w ws hf, digit_pack_succ g w ws hg, ih]

theorem xor_xor_cancel (a b : Nat) : (a ^^^ b) ^^^ b = a := by
  rw [Nat.xor_assoc, Nat.xor_self, Nat.xor_zero]

theorem specFrom_pack (ws : List Word) (h : ∀ w ∈ ws, w.aval < two32 ∧ w.bval < two32) :
    specFrom (pack (fun w => w.aval ^^^ w.bval) ws) (pack (fun w => w.bval) ws) ws.length 0 = ws := by
  induction ws with
  | nil => rfl
  | cons w ws ih =>
    have hw := h w (by simp)
    have hx : w.aval ^^^ w.bval < two32 := by
      rw [two32_eq] at *; exact Nat.xor_lt_two_pow hw.1 hw.2
    have ih' := ih (fun x hx => h x (by simp [hx]))
    simp only [List.length_cons, specFrom]
    rw [specFrom_pack_succ (fun w => w.aval ^^^ w.bval) (fun w => w.bval) w ws hx hw.2,
      digit_pack_zero (fun w => w.aval ^^^ w.bval) w ws hx, digit_pack_zero (fun w => w.bval) w ws hw.2, ih']
    simp [xor_xor_cancel]

/-- Packing the digits of `x` gives `x` modulo the window. -/
theorem pack_specFrom_payload (p m : Nat) : ∀ n i,
    pack (fun w => w.aval ^^^ w.bval) (specFrom p m n i) = (p >>> (32 * i)) % 2 ^ (32 * n) := by
  intro n; induction n with
  | zero => intro i; simp [specFrom, pack, Nat.mod_one]
  | succ n ih =>
    intro i
    have hd : (fun w : Word => w.aval ^^^ w.bval) ⟨digit p i ^^^ digit m i, digit m i⟩ < two32 := by
      simp only [xor_xor_cancel]; exact digit_lt _ _
    simp only [specFrom]
    rw [pack_cons_eq _ _ _ hd, ih (i + 1)]
    simp only [xor_xor_cancel, digit]
    have e : 32 * (i + 1) = 32 * i + 32 := by omega
    rw [e, Nat.shiftRight_add, Nat.shiftRight_eq_div_pow _ 32, two32_eq]
    have e2 : 32 * (n + 1) = 32 + 32 * n := by omega
    rw [e2, Nat.pow_add, Nat.mod_mul]
    rw [Nat.mul_comm, Nat.add_comm]

theorem pack_specFrom_mask (p m : Nat) : ∀ n i,
    pack (fun w => w.bval) (specFrom p m n i) = (m >>> (32 * i)) % 2 ^ (32 * n) := by
  intro n; induction n with
  | zero => intro i; simp [specFrom, pack, Nat.mod_one]
  | succ n ih =>
    intro i
    have hd : (fun w : Word => w.bval) ⟨digit p i ^^^ digit m i, digit m i⟩ < two32 := digit_lt _ _
    simp only [specFrom]
    rw [pack_cons_eq _ _ _ hd, ih (i + 1)]
    simp only [digit]
    have e : 32 * (i + 1) = 32 * i + 32 := by omega
    rw [e, Nat.shiftRight_add, Nat.shiftRight_eq_div_pow _ 32, two32_eq]
    have e2 : 32 * (n + 1) = 32 + 32 * n := by omega
    rw [e2, Nat.pow_add, Nat.mod_mul]
    rw [Nat.mul_comm, Nat.add_comm]

theorem specFrom_fields_lt (p m : Nat) : ∀ n i, ∀ w ∈ specFrom p m n i, w.aval < two32 ∧ w.bval < two32 := by
  intro n; induction n with
  | zero => intro i w hw; simp [specFrom] at hw
  | succ n ih =>
    intro i w hw
    simp only [specFrom, List.mem_cons] at hw
    rcases hw with rfl | hw
    · constructor
      · rw [two32_eq]; exact Nat.xor_lt_two_pow (by rw [← two32_eq]; exact digit_lt _ _) (by rw [← two32_eq]; exact digit_lt _ _)
      · exact digit_lt _ _
    · exact ih _ _ hw

theorem width_le_lenWords (w : Nat) : w ≤ 32 * lenWords w := by
  unfold lenWords; split <;> omega

theorem lenWords_mul (n : Nat) : lenWords (n * 32) = n := by
  unfold lenWords; split <;> omega

end VerylModel.Svlv
