import VerylModel.Core.Reloc
/-! `compute_recurring_set_inner` computes "instantiated under two differently named tops",
    whatever the order of the tops (used by `Props/C34.lean`). -/
namespace VerylModel.Reloc

mutual
/-- All component ids in a subtree (the node itself included). -/
def idsOne : Comp → List Nat
  | .node id kids => id :: idsKids kids
/-- All component ids in a forest, at every depth. -/
def idsKids : List Comp → List Nat
  | [] => []
  | c :: cs => idsOne c ++ idsKids cs
end

mutual
def sizeOne : Comp → Nat
  | .node _ kids => 1 + sizeKids kids
def sizeKids : List Comp → Nat
  | [] => 0
  | c :: cs => sizeOne c + sizeKids cs
end

mutual
/-- The hierarchy is consistent: a component id (an `Arc` pointer) always has the same instances
    inside, `K id`. -/
def consOne (K : Nat → List Comp) : Comp → Prop
  | .node id kids => kids = K id ∧ consKids K kids
def consKids (K : Nat → List Comp) : List Comp → Prop
  | [] => True
  | c :: cs => consOne K c ∧ consKids K cs
end

mutual
/-- Descendants of a member are members, and its own forest is strictly smaller. -/
theorem desc_one (K : Nat → List Comp) : ∀ (c : Comp), consOne K c → ∀ x, x ∈ idsOne c →
    (∀ y, y ∈ idsKids (K x) → y ∈ idsOne c) ∧ sizeKids (K x) < sizeOne c
  | .node id kids, hc, x, hx => by
    simp only [consOne] at hc
    simp only [idsOne, List.mem_cons] at hx
    rcases hx with rfl | hx
    · rw [← hc.1]
      exact ⟨fun y hy => by simp only [idsOne, List.mem_cons]; exact Or.inr hy, by simp only [sizeOne]; omega⟩
    · have := desc_kids K kids hc.2 x hx
      exact ⟨fun y hy => by simp only [idsOne, List.mem_cons]; exact Or.inr (this.1 y hy), by simp only [sizeOne]; omega⟩
theorem desc_kids (K : Nat → List Comp) : ∀ (cs : List Comp), consKids K cs → ∀ x, x ∈ idsKids cs →
    (∀ y, y ∈ idsKids (K x) → y ∈ idsKids cs) ∧ sizeKids (K x) < sizeKids cs
  | [], _, x, hx => by simp [idsKids] at hx
  | c :: cs, hc, x, hx => by
    simp only [consKids] at hc
    simp only [idsKids, List.mem_append] at hx
    rcases hx with hx | hx
    · have := desc_one K c hc.1 x hx
      exact ⟨fun y hy => by simp only [idsKids, List.mem_append]; exact Or.inl (this.1 y hy), by simp only [sizeKids]; omega⟩
    · have := desc_kids K cs hc.2 x hx
      exact ⟨fun y hy => by simp only [idsKids, List.mem_append]; exact Or.inr (this.1 y hy), by simp only [sizeKids]; omega⟩
end

/-- No component contains itself. -/
theorem acyclic (K : Nat → List Comp) (id : Nat) (kids : List Comp) (h : consOne K (.node id kids)) :
    id ∉ idsKids kids := by
  intro hin
  simp only [consOne] at h
  have := (desc_kids K kids h.2 id hin).2
  rw [← h.1] at this
  omega

/-! ## `mark_subtree` -/

/-- `r` is closed under descendants, except at the pending ids `P`. -/
def ClosedP (K : Nat → List Comp) (P r : List Nat) : Prop :=
  ∀ x, x ∈ r → x ∉ P → ∀ y, y ∈ idsKids (K x) → y ∈ r

structure MarkSpec (K : Nat → List Comp) (P r res ids : List Nat) : Prop where
  mono : ∀ y, y ∈ r → y ∈ res
  sub : ∀ y, y ∈ res → y ∈ r ∨ y ∈ ids
  all : ∀ y, y ∈ ids → y ∈ res
  closed : ClosedP K P res

mutual
theorem markOne_spec (K : Nat → List Comp) : ∀ (c : Comp) (P r : List Nat), consOne K c →
    (∀ p, p ∈ P → p ∉ idsOne c) → ClosedP K P r → MarkSpec K P r (markOne c r) (idsOne c)
  | .node id kids, P, r, hc, hP, hcl => by
    have hk : kids = K id := by simp only [consOne] at hc; exact hc.1
    have hck : consKids K kids := by simp only [consOne] at hc; exact hc.2
    have hidP : id ∉ P := fun h => hP id h (by simp [idsOne])
    unfold markOne
    by_cases hin : r.contains id = true
    · simp only [hin, if_true]
      have hmem : id ∈ r := by simpa using hin
      refine ⟨fun y h => h, fun y h => Or.inl h, ?_, hcl⟩
      intro y hy
      simp only [idsOne, List.mem_cons] at hy
      rcases hy with rfl | hy
      · exact hmem
      · exact hcl id hmem hidP y (by rw [← hk]; exact hy)
    · simp only [hin]
      have hnm : id ∉ r := by simpa using hin
      have hP' : ∀ p, p ∈ id :: P → p ∉ idsKids kids := by
        intro p hp
        simp only [List.mem_cons] at hp
        rcases hp with rfl | hp
        · exact acyclic K p kids hc
        · intro h; exact hP p hp (by simp only [idsOne, List.mem_cons]; exact Or.inr h)
      have hcl' : ClosedP K (id :: P) (id :: r) := by
        intro x hx hxP y hy
        simp only [List.mem_cons, not_or] at hx hxP
        rcases hx with rfl | hx
        · exact absurd rfl hxP.1
        · exact List.mem_cons_of_mem _ (hcl x hx hxP.2 y hy)
      have ih := markSub_spec K kids (id :: P) (id :: r) hck hP' hcl'
      refine ⟨fun y h => ih.mono y (List.mem_cons_of_mem _ h), ?_, ?_, ?_⟩
      · intro y hy
        rcases ih.sub y hy with h | h
        · simp only [List.mem_cons] at h
          rcases h with rfl | h
          · exact Or.inr (by simp [idsOne])
          · exact Or.inl h
        · exact Or.inr (by simp only [idsOne, List.mem_cons]; exact Or.inr h)
      · intro y hy
        simp only [idsOne, List.mem_cons] at hy
        rcases hy with rfl | hy
        · exact ih.mono y (by simp)
        · exact ih.all y hy
      · intro x hx hxP y hy
        by_cases hxi : x = id
        · subst hxi; exact ih.all y (by rw [hk]; exact hy)
        · exact ih.closed x hx (by simp only [List.mem_cons, not_or]; exact ⟨hxi, hxP⟩) y hy
theorem markSub_spec (K : Nat → List Comp) : ∀ (cs : List Comp) (P r : List Nat), consKids K cs →
    (∀ p, p ∈ P → p ∉ idsKids cs) → ClosedP K P r → MarkSpec K P r (markSub cs r) (idsKids cs)
  | [], P, r, _, _, hcl => by
    simp only [markSub, idsKids]
    exact ⟨fun y h => h, fun y h => Or.inl h, fun y h => by simp at h, hcl⟩
  | c :: cs, P, r, hc, hP, hcl => by
    simp only [consKids] at hc
    have h1 := markOne_spec K c P r hc.1
      (fun p hp h => hP p hp (by simp only [idsKids, List.mem_append]; exact Or.inl h)) hcl
    have h2 := markSub_spec K cs P (markOne c r) hc.2
      (fun p hp h => hP p hp (by simp only [idsKids, List.mem_append]; exact Or.inr h)) h1.closed
    simp only [markSub, idsKids]
    refine ⟨fun y h => h2.mono y (h1.mono y h), ?_, ?_, h2.closed⟩
    · intro y hy
      rcases h2.sub y hy with h | h
      · rcases h1.sub y h with h | h
        · exact Or.inl h
        · exact Or.inr (by simp only [List.mem_append]; exact Or.inl h)
      · exact Or.inr (by simp only [List.mem_append]; exact Or.inr h)
    · intro y hy
      simp only [List.mem_append] at hy
      rcases hy with h | h
      · exact h2.mono y (h1.all y h)
      · exact h2.all y h
end

/-! ## `walk` -/

/-- The walker's state against a *view* `V name id` = "id is accounted for under top `name`". -/
structure J (K : Nat → List Comp) (P : List Nat) (V : Nat → Nat → Prop)
    (S : List (Nat × Nat) × List Nat) : Prop where
  j1 : ∀ x, x ∈ S.2 ↔ ∃ u v, u ≠ v ∧ V u x ∧ V v x
  j2 : ∀ x u, cacheGet S.1 x = some u → V u x
  j3 : ∀ x u, V u x → x ∈ S.2 ∨ ∃ w, cacheGet S.1 x = some w
  j4 : ∀ x u, V u x → x ∉ P → ∀ y, y ∈ idsKids (K x) → V u y
  j5 : ∀ p, p ∈ P → p ∉ S.2

def addView (V : Nat → Nat → Prop) (t : Nat) (L : List Nat) : Nat → Nat → Prop :=
  fun u x => V u x ∨ (u = t ∧ x ∈ L)

theorem J_congr {K : Nat → List Comp} {P : List Nat} {V V' : Nat → Nat → Prop}
    {S : List (Nat × Nat) × List Nat} (h : ∀ u x, V u x ↔ V' u x) (j : J K P V S) : J K P V' S where
  j1 := fun x => by
    rw [j.j1 x]
    constructor
    · intro ⟨u, v, huv, h1, h2⟩; exact ⟨u, v, huv, (h u x).1 h1, (h v x).1 h2⟩
    · intro ⟨u, v, huv, h1, h2⟩; exact ⟨u, v, huv, (h u x).2 h1, (h v x).2 h2⟩
  j2 := fun x u hx => (h u x).1 (j.j2 x u hx)
  j3 := fun x u hx => j.j3 x u ((h u x).2 hx)
  j4 := fun x u hx hp y hy => (h u y).1 (j.j4 x u ((h u x).2 hx) hp y hy)
  j5 := j.j5

theorem cacheGet_cons (owner : List (Nat × Nat)) (id t x : Nat) :
    cacheGet ((id, t) :: owner) x = if id = x then some t else cacheGet owner x := by
  simp only [cacheGet]

mutual
theorem walkOne_spec (K : Nat → List Comp) (t : Nat) : ∀ (c : Comp) (P : List Nat)
    (V : Nat → Nat → Prop) (S : List (Nat × Nat) × List Nat), consOne K c →
    (∀ p, p ∈ P → p ∉ idsOne c) → J K P V S → J K P (addView V t (idsOne c)) (walkOne t c S)
  | .node id kids, P, V, (owner, rec), hc, hP, j => by
    have hk : kids = K id := by simp only [consOne] at hc; exact hc.1
    have hck : consKids K kids := by simp only [consOne] at hc; exact hc.2
    have hidP : id ∉ P := fun h => hP id h (by simp [idsOne])
    have hidin : id ∈ idsOne (.node id kids) := by simp [idsOne]
    have hkidsin : ∀ y, y ∈ idsKids kids → y ∈ idsOne (.node id kids) := fun y h => by
      simp only [idsOne, List.mem_cons]; exact Or.inr h
    have hsub : ∀ x, x ∈ idsOne (.node id kids) → ∀ y, y ∈ idsKids (K x) → y ∈ idsOne (.node id kids) :=
      fun x hx => (desc_one K _ hc x hx).1
    -- j4 of the result, common to all cases
    have j4' : ∀ x u, addView V t (idsOne (.node id kids)) u x → x ∉ P → ∀ y, y ∈ idsKids (K x) →
        addView V t (idsOne (.node id kids)) u y := by
      intro x u hx hxP y hy
      rcases hx with hx | ⟨hu, hx⟩
      · exact Or.inl (j.j4 x u hx hxP y hy)
      · exact Or.inr ⟨hu, hsub x hx y hy⟩
    unfold walkOne
    by_cases hin : rec.contains id = true
    · -- already recurring: skip the subtree
      simp only [hin, if_true]
      have hmem : id ∈ rec := by simpa using hin
      have hall : ∀ y, y ∈ idsOne (.node id kids) → y ∈ rec := by
        intro y hy
        simp only [idsOne, List.mem_cons] at hy
        rcases hy with rfl | hy
        · exact hmem
        · obtain ⟨u, v, huv, h1, h2⟩ := (j.j1 id).1 hmem
          exact (j.j1 y).2 ⟨u, v, huv, j.j4 id u h1 hidP y (by rw [← hk]; exact hy),
            j.j4 id v h2 hidP y (by rw [← hk]; exact hy)⟩
      refine ⟨?_, fun x u hx => Or.inl (j.j2 x u hx), ?_, j4', j.j5⟩
      · intro x
        constructor
        · intro hx
          obtain ⟨u, v, huv, h1, h2⟩ := (j.j1 x).1 hx
          exact ⟨u, v, huv, Or.inl h1, Or.inl h2⟩
        · intro ⟨u, v, huv, h1, h2⟩
          rcases h1 with h1 | ⟨_, h1⟩
          · rcases h2 with h2 | ⟨_, h2⟩
            · exact (j.j1 x).2 ⟨u, v, huv, h1, h2⟩
            · exact hall x h2
          · exact hall x h1
      · intro x u hx
        rcases hx with hx | ⟨_, hx⟩
        · exact j.j3 x u hx
        · exact Or.inl (hall x hx)
    · simp only [hin]
      have hnm : id ∉ rec := by simpa using hin
      cases hown : cacheGet owner id with
      | some o =>
        simp only
        by_cases hot : o = t
        · -- owned by this top already: its subtree was walked
          subst hot
          simp only [ne_eq, not_true_eq_false, if_false]
          have hVt : ∀ y, y ∈ idsOne (.node id kids) → V o y := by
            intro y hy
            simp only [idsOne, List.mem_cons] at hy
            rcases hy with rfl | hy
            · exact j.j2 y o hown
            · exact j.j4 id o (j.j2 id o hown) hidP y (by rw [← hk]; exact hy)
          exact J_congr (fun u x => ⟨fun h => Or.inl h, fun h => by
            rcases h with h | ⟨hu, hx⟩
            · exact h
            · subst hu; exact hVt x hx⟩) j
        · -- owned by another top: the component and its subtree recur
          simp only [ne_eq, hot, not_false_eq_true, if_true]
          have hclosed : ClosedP K [id] (id :: rec) := by
            intro x hx hxP y hy
            simp only [List.mem_cons, List.not_mem_nil, or_false] at hx hxP
            rcases hx with rfl | hx
            · exact absurd rfl hxP
            · have hxnP : x ∉ P := fun h => j.j5 x h hx
              obtain ⟨u, v, huv, h1, h2⟩ := (j.j1 x).1 hx
              exact List.mem_cons_of_mem _ ((j.j1 y).2 ⟨u, v, huv, j.j4 x u h1 hxnP y hy, j.j4 x v h2 hxnP y hy⟩)
          have hm := markSub_spec K kids [id] (id :: rec) hck
            (fun p hp => by
              simp only [List.mem_singleton] at hp
              subst hp; exact acyclic K p kids hc) hclosed
          have hVo : ∀ y, y ∈ idsOne (.node id kids) → V o y := by
            intro y hy
            simp only [idsOne, List.mem_cons] at hy
            rcases hy with rfl | hy
            · exact j.j2 y o hown
            · exact j.j4 id o (j.j2 id o hown) hidP y (by rw [← hk]; exact hy)
          have hall : ∀ y, y ∈ idsOne (.node id kids) → y ∈ markSub kids (id :: rec) := by
            intro y hy
            simp only [idsOne, List.mem_cons] at hy
            rcases hy with rfl | hy
            · exact hm.mono y (by simp)
            · exact hm.all y hy
          refine ⟨?_, fun x u hx => Or.inl (j.j2 x u hx), ?_, j4', ?_⟩
          · intro x
            constructor
            · intro hx
              rcases hm.sub x hx with h | h
              · simp only [List.mem_cons] at h
                rcases h with rfl | h
                · exact ⟨o, t, hot, Or.inl (hVo x hidin), Or.inr ⟨rfl, hidin⟩⟩
                · obtain ⟨u, v, huv, h1, h2⟩ := (j.j1 x).1 h
                  exact ⟨u, v, huv, Or.inl h1, Or.inl h2⟩
              · exact ⟨o, t, hot, Or.inl (hVo x (hkidsin x h)), Or.inr ⟨rfl, hkidsin x h⟩⟩
            · intro ⟨u, v, huv, h1, h2⟩
              rcases h1 with h1 | ⟨_, h1⟩
              · rcases h2 with h2 | ⟨_, h2⟩
                · exact hm.mono x (List.mem_cons_of_mem _ ((j.j1 x).2 ⟨u, v, huv, h1, h2⟩))
                · exact hall x h2
              · exact hall x h1
          · intro x u hx
            rcases hx with hx | ⟨_, hx⟩
            · rcases j.j3 x u hx with h | h
              · exact Or.inl (hm.mono x (List.mem_cons_of_mem _ h))
              · exact Or.inr h
            · exact Or.inl (hall x hx)
          · intro p hp hpr
            rcases hm.sub p hpr with h | h
            · simp only [List.mem_cons] at h
              rcases h with rfl | h
              · exact hidP hp
              · exact j.j5 p hp h
            · exact hP p hp (hkidsin p h)
      | none =>
        -- first sighting: own it and walk the instances inside
        simp only
        have hnoV : ∀ u, ¬ V u id := by
          intro u hu
          rcases j.j3 id u hu with h | ⟨w, h⟩
          · exact hnm h
          · rw [hown] at h; cases h
        have j1 : J K (id :: P) (addView V t [id]) ((id, t) :: owner, rec) := by
          refine ⟨?_, ?_, ?_, ?_, ?_⟩
          · intro x
            constructor
            · intro hx
              obtain ⟨u, v, huv, h1, h2⟩ := (j.j1 x).1 hx
              exact ⟨u, v, huv, Or.inl h1, Or.inl h2⟩
            · intro ⟨u, v, huv, h1, h2⟩
              rcases h1 with h1 | ⟨hu, h1⟩
              · rcases h2 with h2 | ⟨hv, h2⟩
                · exact (j.j1 x).2 ⟨u, v, huv, h1, h2⟩
                · simp only [List.mem_singleton] at h2; subst h2; exact absurd h1 (hnoV u)
              · simp only [List.mem_singleton] at h1; subst h1
                rcases h2 with h2 | ⟨hv, _⟩
                · exact absurd h2 (hnoV v)
                · exact absurd (hu.trans hv.symm) huv
          · intro x u hx
            rw [cacheGet_cons] at hx
            by_cases he : id = x
            · simp only [he, if_true, Option.some.injEq] at hx
              subst he; subst hx; exact Or.inr ⟨rfl, by simp⟩
            · simp only [he, if_false] at hx; exact Or.inl (j.j2 x u hx)
          · intro x u hx
            show x ∈ rec ∨ ∃ w, cacheGet ((id, t) :: owner) x = some w
            rw [cacheGet_cons]
            by_cases he : id = x
            · exact Or.inr ⟨t, by simp [he]⟩
            · rcases hx with hx | ⟨_, hx⟩
              · rcases j.j3 x u hx with h | ⟨w, h⟩
                · exact Or.inl h
                · exact Or.inr ⟨w, by simp [he, h]⟩
              · simp only [List.mem_singleton] at hx; exact absurd hx.symm he
          · intro x u hx hxP y hy
            simp only [List.mem_cons, not_or] at hxP
            rcases hx with hx | ⟨_, hx⟩
            · exact Or.inl (j.j4 x u hx hxP.2 y hy)
            · simp only [List.mem_singleton] at hx; exact absurd hx hxP.1
          · intro p hp
            simp only [List.mem_cons] at hp
            rcases hp with rfl | hp
            · exact hnm
            · exact j.j5 p hp
        have hP' : ∀ p, p ∈ id :: P → p ∉ idsKids kids := by
          intro p hp
          simp only [List.mem_cons] at hp
          rcases hp with rfl | hp
          · exact acyclic K p kids hc
          · intro h; exact hP p hp (hkidsin p h)
        have ih := walkKids_spec K t kids (id :: P) (addView V t [id]) ((id, t) :: owner, rec) hck hP' j1
        have hview : ∀ u x, addView (addView V t [id]) t (idsKids kids) u x ↔
            addView V t (idsOne (.node id kids)) u x := by
          intro u x
          simp only [addView, idsOne, List.mem_cons, List.not_mem_nil, or_false]
          constructor
          · rintro ((h | ⟨hu, h⟩) | ⟨hu, h⟩)
            · exact Or.inl h
            · exact Or.inr ⟨hu, Or.inl h⟩
            · exact Or.inr ⟨hu, Or.inr h⟩
          · rintro (h | ⟨hu, h | h⟩)
            · exact Or.inl (Or.inl h)
            · exact Or.inl (Or.inr ⟨hu, h⟩)
            · exact Or.inr ⟨hu, h⟩
        have ih' := J_congr hview ih
        exact ⟨ih'.j1, ih'.j2, ih'.j3, j4', fun p hp => ih'.j5 p (List.mem_cons_of_mem _ hp)⟩
theorem walkKids_spec (K : Nat → List Comp) (t : Nat) : ∀ (cs : List Comp) (P : List Nat)
    (V : Nat → Nat → Prop) (S : List (Nat × Nat) × List Nat), consKids K cs →
    (∀ p, p ∈ P → p ∉ idsKids cs) → J K P V S → J K P (addView V t (idsKids cs)) (walkKids t cs S)
  | [], P, V, S, _, _, j => by
    simp only [walkKids, idsKids]
    exact J_congr (fun u x => ⟨fun h => Or.inl h, fun h => by
      rcases h with h | ⟨_, h⟩
      · exact h
      · simp at h⟩) j
  | c :: cs, P, V, S, hc, hP, j => by
    simp only [consKids] at hc
    have h1 := walkOne_spec K t c P V S hc.1
      (fun p hp h => hP p hp (by simp only [idsKids, List.mem_append]; exact Or.inl h)) j
    have h2 := walkKids_spec K t cs P _ _ hc.2
      (fun p hp h => hP p hp (by simp only [idsKids, List.mem_append]; exact Or.inr h)) h1
    simp only [walkKids, idsKids]
    refine J_congr (fun u x => ?_) h2
    simp only [addView, List.mem_append]
    constructor
    · rintro ((h | ⟨hu, h⟩) | ⟨hu, h⟩)
      · exact Or.inl h
      · exact Or.inr ⟨hu, Or.inl h⟩
      · exact Or.inr ⟨hu, Or.inr h⟩
    · rintro (h | ⟨hu, h | h⟩)
      · exact Or.inl (Or.inl h)
      · exact Or.inl (Or.inr ⟨hu, h⟩)
      · exact Or.inr ⟨hu, h⟩
end

/-! ## `compute_recurring_set_inner` -/

/-- `id` is instantiated (at any depth) under a top named `u` of the list. -/
def Under (tops : List (Nat × List Comp)) (u x : Nat) : Prop :=
  ∃ a, a ∈ tops ∧ a.1 = u ∧ x ∈ idsKids a.2

theorem J_init (K : Nat → List Comp) : J K [] (fun _ _ => False) ([], []) where
  j1 := fun x => by simp
  j2 := fun x u h => by simp [cacheGet] at h
  j3 := fun x u h => h.elim
  j4 := fun x u h => h.elim
  j5 := fun p h => by simp at h

theorem computeRecurring_spec (K : Nat → List Comp) : ∀ (rest : List (Nat × List Comp))
    (V : Nat → Nat → Prop) (S : List (Nat × Nat) × List Nat),
    (∀ a, a ∈ rest → consKids K a.2) → J K [] V S →
    ∀ x, x ∈ computeRecurring rest S ↔
      ∃ u v, u ≠ v ∧ (V u x ∨ Under rest u x) ∧ (V v x ∨ Under rest v x)
  | [], V, S, _, j, x => by
    simp only [computeRecurring]
    rw [j.j1 x]
    constructor
    · intro ⟨u, v, huv, h1, h2⟩; exact ⟨u, v, huv, Or.inl h1, Or.inl h2⟩
    · intro ⟨u, v, huv, h1, h2⟩
      have e : ∀ w, ¬ Under [] w x := fun w ⟨a, ha, _⟩ => by simp at ha
      rcases h1 with h1 | h1
      · rcases h2 with h2 | h2
        · exact ⟨u, v, huv, h1, h2⟩
        · exact absurd h2 (e v)
      · exact absurd h1 (e u)
  | (t, kids) :: rest, V, S, hc, j, x => by
    have hj := walkKids_spec K t kids [] V S (hc (t, kids) (by simp)) (fun p hp => by simp at hp) j
    have ih := computeRecurring_spec K rest _ _ (fun a ha => hc a (List.mem_cons_of_mem _ ha)) hj x
    simp only [computeRecurring]
    rw [ih]
    have hv : ∀ w, (addView V t (idsKids kids) w x ∨ Under rest w x) ↔ (V w x ∨ Under ((t, kids) :: rest) w x) := by
      intro w
      simp only [addView, Under, List.mem_cons]
      constructor
      · rintro ((h | ⟨hw, h⟩) | ⟨a, ha, h⟩)
        · exact Or.inl h
        · exact Or.inr ⟨(t, kids), Or.inl rfl, hw.symm, h⟩
        · exact Or.inr ⟨a, Or.inr ha, h⟩
      · rintro (h | ⟨a, ha | ha, h⟩)
        · exact Or.inl (Or.inl h)
        · subst ha; exact Or.inl (Or.inr ⟨h.1.symm, h.2⟩)
        · exact Or.inr ⟨a, ha, h⟩
    constructor
    · intro ⟨u, v, huv, h1, h2⟩; exact ⟨u, v, huv, (hv u).1 h1, (hv v).1 h2⟩
    · intro ⟨u, v, huv, h1, h2⟩; exact ⟨u, v, huv, (hv u).2 h1, (hv v).2 h2⟩

end VerylModel.Reloc
