import VerylModel.Lemmas.BitsArms
set_option linter.unusedSimpArgs false
set_option linter.unusedVariables false
/-! 1-bit results, comparison/logical prologue, truth values. -/
namespace VerylModel.Bits
open Ref Impl

/-! ### 1-bit results -/

/-- Zero extension of a well-formed value keeps payload and mask. -/
theorem ext_unsigned_eq (x : V4) (W : Nat) (hx : x.wf) (h0 : 0 < x.width) (hW : x.width ≤ W) :
    ext x W false = ⟨W, x.payload, x.mask⟩ := by
  symm
  apply BV.eq_ofFn (w := W) rfl
  · exact Nat.lt_of_lt_of_le hx.1 (Nat.pow_le_pow_right (by decide) hW)
  · exact Nat.lt_of_lt_of_le hx.2 (Nat.pow_le_pow_right (by decide) hW)
  · intro i hi
    have hne : x.width ≠ 0 := by omega
    by_cases h : i < x.width
    · simp [extBit, hne, h, V4.bit, bitOf]
    · simp [extBit, hne, h, testBit_of_lt hx.1 (Nat.le_of_not_lt h), testBit_of_lt hx.2 (Nat.le_of_not_lt h), B4.p, B4.m]

theorem finishBit_spec (b : V4) (w : Nat) (hb : b.wf) (hw1 : b.width = 1) (hw0 : 0 < w) :
    ∃ v, finishBit b w = some v ∧ v.v.toBV = ⟨w, b.payload, b.mask⟩ := by
  have hc : (Val.u64 b).canon := by
    refine ⟨by omega, ?_⟩
    simp only [V4.wfIn]; rw [if_neg (by omega)]; exact hb
  obtain ⟨v, h1, h2, _⟩ := expand_spec (.u64 b) w false hc (by simp [hw1]; omega) hw0
  refine ⟨v, h1, ?_⟩
  rw [h2, Val.v_u64, ext_unsigned_eq b w hb (by omega) (by omega)]

def b4_0x (z x : Bool) : B4 := if z then .b0 else if x then .bx else .b1
def b4_1x (o x : Bool) : B4 := if o then .b1 else if x then .bx else .b0
def b4_x1 (x o : Bool) : B4 := if x then .bx else if o then .b1 else .b0

theorem finishBit_0x (z x : Bool) (w : Nat) (hw0 : 0 < w) :
    ∃ v, finishBit (U64.newBit0x z x) w = some v ∧ v.v.toBV = ofB4 w (b4_0x z x) := by
  cases z <;> cases x <;>
    exact (finishBit_spec _ w (by decide) rfl hw0)

theorem finishBit_1x (o x : Bool) (w : Nat) (hw0 : 0 < w) :
    ∃ v, finishBit (U64.newBit1x o x) w = some v ∧ v.v.toBV = ofB4 w (b4_1x o x) := by
  cases o <;> cases x <;>
    exact (finishBit_spec _ w (by decide) rfl hw0)

theorem finishBit_x1 (x o : Bool) (w : Nat) (hw0 : 0 < w) :
    ∃ v, finishBit (U64.newBitx1 x o) w = some v ∧ v.v.toBV = ofB4 w (b4_x1 x o) := by
  cases o <;> cases x <;>
    exact (finishBit_spec _ w (by decide) rfl hw0)

/-- Prologue of the comparison / logical arms: both operands sized to the larger one. -/
theorem cmpArm_spec (x y : Val) (w : Nat) (sgn : Bool) (mk : Bool → Bool → V4)
    (fu fb : V4 → V4 → Option (Bool × Bool))
    (hx : x.canon) (hy : y.canon) (hW : 0 < max x.width y.width) :
    ∃ a b : V4, a.toBV = ext x.v (max x.width y.width) sgn ∧ b.toBV = ext y.v (max x.width y.width) sgn ∧
      a.wf ∧ b.wf ∧ a.width = max x.width y.width ∧ b.width = max x.width y.width ∧
      ∀ p q, (if 64 < max x.width y.width then fb a b else fu a b) = some (p, q) →
        cmpArm x y w sgn mk fu fb = finishBit (mk p q) w := by
  obtain ⟨x', hx1, hx2, hx3, hx4, hx5, _⟩ := expand_spec x (max x.width y.width) sgn hx (Nat.le_max_left _ _) hW
  obtain ⟨y', hy1, hy2, hy3, hy4, hy5, _⟩ := expand_spec y (max x.width y.width) sgn hy (Nat.le_max_right _ _) hW
  refine ⟨x'.v, y'.v, hx2, hy2, hx5, hy5, hx4, hy4, ?_⟩
  intro p q hpq
  unfold cmpArm
  simp only [hx1, hy1, Option.bind_eq_bind, Option.bind_some]
  by_cases h : 64 < max x.width y.width
  · simp only [h, decide_true, if_true] at hx3 hy3 hpq
    cases x' <;> cases y' <;> simp_all [both]
  · simp only [h, decide_false, if_false] at hx3 hy3 hpq
    cases x' <;> cases y' <;> simp_all [both]

end VerylModel.Bits

namespace VerylModel.Bits
open Ref Impl

/-! ### numbers vs. bits -/

theorem exists_testBit_of_ne_zero {n : Nat} (h : n ≠ 0) : ∃ i, n.testBit i = true := by
  apply Classical.byContradiction
  intro hc
  apply h
  apply Nat.eq_of_testBit_eq
  intro i
  rw [Nat.zero_testBit]
  cases hb : n.testBit i with
  | false => rfl
  | true => exact absurd ⟨i, hb⟩ hc

theorem ne_zero_of_testBit {n i : Nat} (h : n.testBit i = true) : n ≠ 0 := by
  intro h0; rw [h0, Nat.zero_testBit] at h; cases h

theorem bne_zero_iff (n : Nat) : (n != 0) = true ↔ ∃ i, n.testBit i = true := by
  constructor
  · intro h; exact exists_testBit_of_ne_zero (by simpa using h)
  · rintro ⟨i, hi⟩; simpa using ne_zero_of_testBit hi

theorem bit_eq_b1 (x : V4) (i : Nat) :
    (x.bit i == B4.b1) = (x.payload.testBit i && !x.mask.testBit i) := by
  unfold V4.bit bitOf
  cases x.payload.testBit i <;> cases x.mask.testBit i <;> rfl

theorem bit_not_known (x : V4) (i : Nat) : (!(x.bit i).known) = x.mask.testBit i := by
  unfold V4.bit bitOf
  cases x.payload.testBit i <;> cases x.mask.testBit i <;> rfl

/-- "has a definite 1 bit", as both representations compute it (`K` = 64 or the value width). -/
theorem definite_one_iff (x : V4) (hx : x.wf) (K : Nat) (hK : x.width ≤ K) :
    ((x.payload &&& (x.mask ^^^ (2 ^ K - 1))) != 0) = anyLt x.width (fun i => x.bit i == .b1) := by
  rw [Bool.eq_iff_iff, bne_zero_iff, anyLt_iff]
  constructor
  · rintro ⟨i, hi⟩
    simp only [Nat.testBit_and, Nat.testBit_xor, testBit_mask, Bool.and_eq_true] at hi
    have hiw : i < x.width := by
      apply Classical.byContradiction; intro hc
      rw [testBit_of_lt hx.1 (Nat.le_of_not_lt hc)] at hi; exact absurd hi.1 (by decide)
    have hiK : i < K := by omega
    refine ⟨i, hiw, ?_⟩
    rw [bit_eq_b1]
    simp only [hiK, decide_true, Bool.xor_true] at hi
    simp [hi.1, hi.2]
  · rintro ⟨i, hiw, hb⟩
    rw [bit_eq_b1] at hb
    have hiK : i < K := by omega
    refine ⟨i, ?_⟩
    simp only [Nat.testBit_and, Nat.testBit_xor, testBit_mask, hiK, decide_true, Bool.xor_true]
    exact hb

theorem mask_ne_zero_iff (x : V4) (hx : x.wf) :
    (x.mask != 0) = anyLt x.width (fun i => !(x.bit i).known) := by
  rw [Bool.eq_iff_iff, bne_zero_iff, anyLt_iff]
  constructor
  · rintro ⟨i, hi⟩
    have hiw : i < x.width := by
      apply Classical.byContradiction; intro hc
      rw [testBit_of_lt hx.2 (Nat.le_of_not_lt hc)] at hi; cases hi
    exact ⟨i, hiw, by rw [bit_not_known]; exact hi⟩
  · rintro ⟨i, _, hb⟩
    rw [bit_not_known] at hb
    exact ⟨i, hb⟩

/-- §11.4.7 truth value, from the two flags the Rust computes. -/
theorem truth_eq (x : V4) (hx : x.wf) (K : Nat) (hK : x.width ≤ K) :
    truth x = b4_1x ((x.payload &&& (x.mask ^^^ (2 ^ K - 1))) != 0) (x.mask != 0) := by
  unfold truth b4_1x
  rw [definite_one_iff x hx K hK, mask_ne_zero_iff x hx]

/-! ### logical operators -/

theorem canon_wf_of_pos {x : Val} (hx : x.canon) (h0 : 0 < x.width) : x.v.wf := by
  cases x with
  | u64 v =>
    simp only [Val.canon, V4.wfIn, Val.width_u64] at hx h0
    rw [if_neg (by omega)] at hx
    exact hx.2
  | big v => exact hx.2

/-- The two truth flags of the logical arms, for an operand zero-extended to `W`. -/
theorem lflags_spec (x : Val) (a : V4) (W : Nat) (hx : x.canon) (h0 : 0 < x.width) (hW : x.width ≤ W)
    (ha : a.toBV = ext x.v W false) (hwa : a.width = W) :
    truth x.v = b4_1x ((a.payload &&& (a.mask ^^^ Big.genMask a.width)) != 0) (a.mask != 0) ∧
    (W ≤ 64 → truth x.v = b4_1x ((a.payload &&& U64.not a.mask) != 0) (a.mask != 0)) := by
  have hwf := canon_wf_of_pos hx h0
  have hxw : x.width = x.v.width := rfl
  rw [hxw] at h0 hW
  rw [ext_unsigned_eq x.v W hwf h0 hW] at ha
  have hp : a.payload = x.v.payload := by have := congrArg BV.payload ha; simpa [V4.toBV] using this
  have hm : a.mask = x.v.mask := by have := congrArg BV.mask ha; simpa [V4.toBV] using this
  constructor
  · rw [hp, hm, hwa, Big.genMask]; exact truth_eq x.v hwf W hW
  · intro h64
    rw [hp, hm, U64.not, U64.MAX]; exact truth_eq x.v hwf 64 (by omega)

theorem lor_flags (ox xx oy xy : Bool) :
    b4_1x (ox || oy) (xx || xy) = (b4_1x ox xx).or (b4_1x oy xy) := by
  cases ox <;> cases xx <;> cases oy <;> cases xy <;> rfl

theorem land_flags (ox xx oy xy : Bool)
    (h1 : b4_1x ox xx = .b0 → xy = false) (h2 : b4_1x oy xy = .b0 → xx = false) :
    b4_1x (ox && oy) (xx || xy) = (b4_1x ox xx).and (b4_1x oy xy) := by
  cases ox <;> cases xx <;> cases oy <;> cases xy <;> simp_all [b4_1x, B4.and]

theorem lnot_flags (o x : Bool) : b4_0x o x = (b4_1x o x).not := by
  cases o <;> cases x <;> rfl

end VerylModel.Bits
