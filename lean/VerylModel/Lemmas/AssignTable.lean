import VerylModel.Core.AssignTable
/-! Helper lemmas for C15: bit-level reading of the mask tests, and the summary of what the walk of
`Core/AssignTable.lean` leaves in the table entry of a variable. -/
namespace VerylModel.AssignTable

/-! ### Bits -/

theorem ne_zero_iff_bit {x : Nat} : x ≠ 0 ↔ ∃ i, x.testBit i = true := by
  constructor
  · intro h
    apply Classical.byContradiction
    intro hn
    apply h
    apply Nat.eq_of_testBit_eq
    intro i
    rw [Nat.zero_testBit]
    cases hb : x.testBit i
    · rfl
    · exact absurd ⟨i, hb⟩ hn
  · rintro ⟨i, hi⟩ h0
    rw [h0, Nat.zero_testBit] at hi
    cases hi

theorem and_ne_zero_iff {a b : Nat} : a &&& b ≠ 0 ↔ ∃ i, a.testBit i = true ∧ b.testBit i = true := by
  rw [ne_zero_iff_bit]
  simp [Nat.testBit_and]

theorem xor_ne_zero_iff {a b : Nat} : a ^^^ b ≠ 0 ↔ ∃ i, a.testBit i ≠ b.testBit i := by
  rw [ne_zero_iff_bit]
  constructor
  · rintro ⟨i, hi⟩
    refine ⟨i, ?_⟩
    rw [Nat.testBit_xor] at hi
    intro h; rw [h] at hi; simp at hi
  · rintro ⟨i, hi⟩
    refine ⟨i, ?_⟩
    rw [Nat.testBit_xor]
    cases ha : a.testBit i <;> cases hb : b.testBit i <;> simp_all

/-- Overlap test as a `Bool`. -/
def ov (a b : Nat) : Bool := a &&& b ≠ 0

theorem ov_iff {a b : Nat} : ov a b = true ↔ ∃ i, a.testBit i = true ∧ b.testBit i = true := by
  simp [ov, and_ne_zero_iff]

theorem ov_or_left (a b c : Nat) : ov (a ||| b) c = (ov a c || ov b c) := by
  rw [Bool.eq_iff_iff, Bool.or_eq_true, ov_iff, ov_iff, ov_iff]
  simp only [Nat.testBit_or, Bool.or_eq_true]
  constructor
  · rintro ⟨i, h1 | h1, h2⟩
    · exact Or.inl ⟨i, h1, h2⟩
    · exact Or.inr ⟨i, h1, h2⟩
  · rintro (⟨i, h1, h2⟩ | ⟨i, h1, h2⟩)
    · exact ⟨i, Or.inl h1, h2⟩
    · exact ⟨i, Or.inr h1, h2⟩

theorem ov_comm (a b : Nat) : ov a b = ov b a := by
  simp [ov, Nat.and_comm]

theorem ov_or_right (a b c : Nat) : ov a (b ||| c) = (ov a b || ov a c) := by
  rw [ov_comm, ov_or_left, ov_comm b, ov_comm c]

theorem ov_zero_left (a : Nat) : ov 0 a = false := by simp [ov]
theorem ov_zero_right (a : Nat) : ov a 0 = false := by simp [ov]

/-! ### `foldOr` -/

theorem foldl_or_init (l : List Nat) (init : Nat) : l.foldl (· ||| ·) init = init ||| foldOr l := by
  unfold foldOr
  induction l generalizing init with
  | nil => simp
  | cons a l ih => simp only [List.foldl_cons]; rw [ih, ih (0 ||| a), Nat.zero_or, Nat.or_assoc]

theorem foldOr_nil : foldOr [] = 0 := rfl

theorem foldOr_cons (a : Nat) (l : List Nat) : foldOr (a :: l) = a ||| foldOr l := by
  show (a :: l).foldl (· ||| ·) 0 = _
  rw [List.foldl_cons, foldl_or_init, Nat.zero_or]

theorem foldOr_append (a b : List Nat) : foldOr (a ++ b) = foldOr a ||| foldOr b := by
  induction a with
  | nil => simp [foldOr_nil]
  | cons x a ih => simp [foldOr_cons, ih, Nat.or_assoc]

theorem foldOr_testBit (l : List Nat) (i : Nat) :
    (foldOr l).testBit i = true ↔ ∃ m ∈ l, m.testBit i = true := by
  induction l with
  | nil => simp [foldOr_nil]
  | cons a l ih => simp [foldOr_cons, Nat.testBit_or, ih]

/-! ### Write summaries -/

/-- (may, definite, dynamic) masks. -/
abbrev M3 := Nat × Nat × Nat

def M3.or (a b : M3) : M3 := (a.1 ||| b.1, a.2.1 ||| b.2.1, a.2.2 ||| b.2.2)

def sum3 (ws : List (Nat × Bool)) : M3 := (mayMask ws, defMask ws, dynMask ws)

def Entry.m3 (e : Entry) : M3 := (e.mask, e.definite, e.dynamic)

theorem M3.or_assoc (a b c : M3) : (a.or b).or c = a.or (b.or c) := by
  simp [M3.or, Nat.or_assoc]

theorem M3.or_zero (a : M3) : a.or (0, 0, 0) = a := by simp [M3.or]
theorem M3.zero_or (a : M3) : M3.or (0, 0, 0) a = a := by simp [M3.or]

theorem sum3_nil : sum3 [] = (0, 0, 0) := rfl

theorem sum3_append (a b : List (Nat × Bool)) : sum3 (a ++ b) = (sum3 a).or (sum3 b) := by
  simp [sum3, M3.or, mayMask, defMask, dynMask, foldOr_append]

theorem sum3_single (m : Nat) (d : Bool) :
    sum3 [(m, d)] = (m, if d then 0 else m, if d then m else 0) := by
  cases d <;> simp [sum3, mayMask, defMask, dynMask, foldOr_cons, foldOr_nil]

theorem m3_zero : (({} : Entry)).m3 = (0, 0, 0) := rfl

theorem m3_add (e : Entry) (m : Nat) (d : Bool) : (e.add m d d).m3 = e.m3.or (sum3 [(m, d)]) := by
  rw [sum3_single]
  cases d <;> simp [Entry.add, Entry.m3, M3.or]

theorem m3_mergeByOr (a b : Entry) : (a.mergeByOr b).m3 = a.m3.or b.m3 := by
  simp [Entry.mergeByOr, Entry.m3, M3.or]

theorem pw_add (e : Entry) (m : Nat) (a b : Bool) : (e.add m a b).processWrite = e.processWrite := rfl

theorem m3_foldr (es : List Entry) (init : Entry) :
    (es.foldr Entry.mergeByOr init).m3 = es.foldr (fun e a => e.m3.or a) init.m3 := by
  induction es with
  | nil => rfl
  | cons e es ih => simp [m3_mergeByOr, ih]

/-! The table entry of `v` after a walk = the entry before, or-ed with the summary of every write
to `v` in the walked statements — whatever the context, the bases and the read bookkeeping. -/

mutual
theorem m3_stmt (cx : Cx) (v base : Nat) (st : St) : ∀ s : Stmt,
    (evalStmt cx v base st s).e.m3 = st.e.m3.or (sum3 (writesStmt v s))
  | .assign reads w => by
    simp only [evalStmt, writesStmt]
    split
    · simp [m3_add]
    · simp [sum3_nil, M3.or_zero]
  | .ifs c thn els => by
    simp only [evalStmt, writesStmt, m3_mergeByOr, sum3_append]
    rw [m3_block cx v _ _ thn, m3_block cx v _ _ els]
    simp [m3_zero, M3.zero_or]
  | .case c arms dflt exh => by
    simp only [evalStmt, writesStmt, m3_mergeByOr, sum3_append, List.foldr_append,
      List.foldr_cons, List.foldr_nil, m3_foldr]
    rw [m3_arms cx v (base ||| st.e.mask) st arms, m3_block cx v _ _ dflt]
    simp [m3_zero, M3.zero_or, M3.or_zero]
theorem m3_block (cx : Cx) (v base : Nat) (st : St) : ∀ b : Block,
    (evalBlock cx v base st b).e.m3 = st.e.m3.or (sum3 (writesBlock v b))
  | .nil => by simp [evalBlock, writesBlock, sum3_nil, M3.or_zero]
  | .cons s b => by
    simp only [evalBlock, writesBlock, sum3_append]
    rw [m3_block cx v base _ b, m3_stmt cx v base st s, M3.or_assoc]
theorem m3_arms (cx : Cx) (v base : Nat) (st : St) : ∀ (bs : Blocks) (tail : M3),
    (evalArms cx v base st bs).2.foldr (fun e a => e.m3.or a) tail
      = (sum3 (writesBlocks v bs)).or tail
  | .nil, tail => by simp [evalArms, writesBlocks, sum3_nil, M3.zero_or]
  | .cons b r, tail => by
    simp only [evalArms, writesBlocks, sum3_append, List.foldr_cons]
    rw [m3_arms cx v base _ r tail, m3_block cx v base _ b]
    simp [m3_zero, M3.zero_or, M3.or_assoc]
end

/-! `process_write` is never set inside a declaration. -/
mutual
theorem pw_stmt (cx : Cx) (v base : Nat) (st : St) : ∀ s : Stmt,
    st.e.processWrite = false → (evalStmt cx v base st s).e.processWrite = false
  | .assign reads w, h => by
    simp only [evalStmt]
    split <;> simp [pw_add, h]
  | .ifs c thn els, h => by
    simp only [evalStmt, Entry.mergeByOr, h, Bool.false_or, Bool.or_eq_false_iff]
    exact ⟨pw_block cx v _ _ thn rfl, pw_block cx v _ _ els rfl⟩
  | .case c arms dflt exh, h => by
    simp only [evalStmt, Entry.mergeByOr, h, Bool.false_or]
    have h1 := pw_arms cx v (base ||| st.e.mask) st arms
    have h2 := pw_block cx v (base ||| st.e.mask) { (evalArms cx v (base ||| st.e.mask) st arms).1 with e := {} } dflt rfl
    have : ∀ es : List Entry, (∀ e ∈ es, e.processWrite = false) →
        (es.foldr Entry.mergeByOr {}).processWrite = false := by
      intro es
      induction es with
      | nil => intro _; rfl
      | cons e es ih =>
        intro hall
        simp [Entry.mergeByOr, hall e (by simp), ih (fun x hx => hall x (by simp [hx]))]
    apply this
    intro e he
    rcases List.mem_append.mp he with he | he
    · exact h1 e he
    · simp only [List.mem_singleton] at he; rw [he]; exact h2
theorem pw_block (cx : Cx) (v base : Nat) (st : St) : ∀ b : Block,
    st.e.processWrite = false → (evalBlock cx v base st b).e.processWrite = false
  | .nil, h => by simpa [evalBlock] using h
  | .cons s b, h => by
    simp only [evalBlock]
    exact pw_block cx v base _ b (pw_stmt cx v base st s h)
theorem pw_arms (cx : Cx) (v base : Nat) (st : St) : ∀ bs : Blocks,
    ∀ e ∈ (evalArms cx v base st bs).2, e.processWrite = false
  | .nil => by simp [evalArms]
  | .cons b r => by
    simp only [evalArms, List.mem_cons]
    rintro e (he | he)
    · rw [he]; exact pw_block cx v base _ b rfl
    · exact pw_arms cx v base _ r e he
end

end VerylModel.AssignTable
