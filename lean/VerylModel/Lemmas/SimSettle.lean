import VerylModel.Core.Sim
/-!
Settling an acyclic network of combinational units (C02, T1), generically over the value type.

A unit is a store transformer with a write set `W` and a read set `R` such that it changes
nothing outside `W` (`frame`) and what it writes depends only on `R` (`dep`). A rank function
on units with "a unit reads only what strictly lower-ranked units write" is the acyclicity
certificate. Then `N` passes over the units in ANY order (`N` > every rank) reach a store on
which every unit is the identity, that store is the unique such store that agrees with the
initial one outside all write sets, and hence it does not depend on the order.
-/
namespace VerylModel.Sim

structure CombUnit (V : Type) where
  run : (Nat → V) → (Nat → V)
  W : List Nat
  R : List Nat

variable {V : Type}

structure UnitOk (u : CombUnit V) : Prop where
  frame : ∀ σ x, x ∉ u.W → u.run σ x = σ x
  dep : ∀ σ σ', (∀ x ∈ u.R, σ x = σ' x) → ∀ x ∈ u.W, u.run σ x = u.run σ' x

/-- acyclicity certificate for a set of units (given as a list) -/
structure Acyclic (us : List (CombUnit V)) (rk : CombUnit V → Nat) (N : Nat) : Prop where
  ok : ∀ u ∈ us, UnitOk u
  bound : ∀ u ∈ us, rk u < N
  /-- a unit reads only variables written by strictly lower-ranked units (or by none) -/
  rank : ∀ u ∈ us, ∀ v ∈ us, ∀ x, x ∈ u.R → x ∈ v.W → rk v < rk u
  /-- every variable has at most one driver -/
  single : ∀ u ∈ us, ∀ v ∈ us, ∀ x, x ∈ u.W → x ∈ v.W → u = v

def passU (l : List (CombUnit V)) (σ : Nat → V) : Nat → V := l.foldl (fun σ u => u.run σ) σ

def iterU (l : List (CombUnit V)) : Nat → (Nat → V) → (Nat → V)
  | 0, σ => σ
  | n + 1, σ => iterU l n (passU l σ)

/-- the unit is the identity on `σ` -/
def Settled (u : CombUnit V) (σ : Nat → V) : Prop := ∀ x, u.run σ x = σ x

theorem settled_run_eq {u : CombUnit V} {σ : Nat → V} (h : Settled u σ) : u.run σ = σ := funext h

section
variable {us : List (CombUnit V)} {rk : CombUnit V → Nat} {N : Nat}

/-- running a unit that is not ranked below `u` keeps `u` settled -/
theorem settled_preserved (A : Acyclic us rk N) {u v : CombUnit V} (hu : u ∈ us) (hv : v ∈ us)
    {σ : Nat → V} (hs : Settled u σ) (hr : ¬ rk v < rk u) : Settled u (v.run σ) := by
  intro x
  by_cases hx : x ∈ u.W
  · have h1 : u.run (v.run σ) x = u.run σ x := by
      apply (A.ok u hu).dep _ _ _ x hx
      intro y hy
      apply (A.ok v hv).frame
      intro hyv
      exact hr (A.rank u hu v hv y hy hyv)
    rw [h1, hs x]
    by_cases hxv : x ∈ v.W
    · have : u = v := A.single u hu v hv x hx hxv
      subst this
      exact (hs x).symm
    · exact ((A.ok v hv).frame σ x hxv).symm
  · exact (A.ok u hu).frame _ x hx

/-- a unit is settled right after it ran -/
theorem settled_after_run (A : Acyclic us rk N) {v : CombUnit V} (hv : v ∈ us) (σ : Nat → V) :
    Settled v (v.run σ) := by
  intro x
  by_cases hx : x ∈ v.W
  · apply (A.ok v hv).dep _ _ _ x hx
    intro y hy
    apply (A.ok v hv).frame
    intro hyw
    exact Nat.lt_irrefl _ (A.rank v hv v hv y hy hyw)
  · exact (A.ok v hv).frame _ x hx

/-- all units of rank below `k` are settled -/
def Inv (us : List (CombUnit V)) (rk : CombUnit V → Nat) (k : Nat) (σ : Nat → V) : Prop :=
  ∀ u ∈ us, rk u < k → Settled u σ

theorem inv_run (A : Acyclic us rk N) {k : Nat} {σ : Nat → V} (hI : Inv us rk k σ) {v : CombUnit V}
    (hv : v ∈ us) : Inv us rk k (v.run σ) := by
  intro u hu hk
  by_cases hr : rk v < rk u
  · have hvs : Settled v σ := hI v hv (Nat.lt_trans hr hk)
    rw [settled_run_eq hvs]
    exact hI u hu hk
  · exact settled_preserved A hu hv (hI u hu hk) hr

/-- one pass: the units of rank `k` met on the way become (and stay) settled -/
theorem pass_level (A : Acyclic us rk N) (k : Nat) :
    ∀ (l : List (CombUnit V)) (P : CombUnit V → Prop) (σ : Nat → V), (∀ v ∈ l, v ∈ us) → Inv us rk k σ →
      (∀ u ∈ us, rk u = k → P u → Settled u σ) →
      Inv us rk k (passU l σ) ∧ (∀ u ∈ us, rk u = k → (P u ∨ u ∈ l) → Settled u (passU l σ)) := by
  intro l
  induction l with
  | nil =>
    intro P σ _ hI hP
    refine ⟨hI, ?_⟩
    intro u hu hk h
    cases h with
    | inl h => exact hP u hu hk h
    | inr h => cases h
  | cons v l ih =>
    intro P σ hl hI hP
    have hv : v ∈ us := hl v (List.mem_cons_self ..)
    have hI1 : Inv us rk k (v.run σ) := inv_run A hI hv
    have hP1 : ∀ u ∈ us, rk u = k → (P u ∨ u = v) → Settled u (v.run σ) := by
      intro u hu hk h
      cases h with
      | inl h =>
        by_cases hr : rk v < rk u
        · have hvs : Settled v σ := hI v hv (hk ▸ hr)
          rw [settled_run_eq hvs]
          exact hP u hu hk h
        · exact settled_preserved A hu hv (hP u hu hk h) hr
      | inr h =>
        subst h
        exact settled_after_run A hu σ
    have := ih (fun u => P u ∨ u = v) (v.run σ) (fun w hw => hl w (List.mem_cons_of_mem _ hw)) hI1 hP1
    refine ⟨this.1, ?_⟩
    intro u hu hk h
    apply this.2 u hu hk
    cases h with
    | inl h => exact Or.inl (Or.inl h)
    | inr h =>
      cases List.mem_cons.mp h with
      | inl h => exact Or.inl (Or.inr h)
      | inr h => exact Or.inr h

theorem inv_pass (A : Acyclic us rk N) {l : List (CombUnit V)} (hl : ∀ v, v ∈ l ↔ v ∈ us) {k : Nat} {σ : Nat → V}
    (hI : Inv us rk k σ) : Inv us rk (k + 1) (passU l σ) := by
  have h := pass_level A k l (fun _ => False) σ (fun v hv => (hl v).mp hv) hI (fun _ _ _ h => h.elim)
  intro u hu hk
  by_cases hk' : rk u < k
  · exact h.1 u hu hk'
  · exact h.2 u hu (by omega) (Or.inr ((hl u).mpr hu))

theorem inv_iter (A : Acyclic us rk N) {l : List (CombUnit V)} (hl : ∀ v, v ∈ l ↔ v ∈ us) :
    ∀ (n k : Nat) (σ : Nat → V), Inv us rk k σ → Inv us rk (k + n) (iterU l n σ) := by
  intro n
  induction n with
  | zero => intro k σ h; simpa [iterU] using h
  | succ n ih =>
    intro k σ h
    have := ih (k + 1) (passU l σ) (inv_pass A hl h)
    simpa [iterU, Nat.add_assoc, Nat.add_comm 1 n] using this

/-- after `N` passes in any order every unit is settled -/
theorem all_settled (A : Acyclic us rk N) {l : List (CombUnit V)} (hl : ∀ v, v ∈ l ↔ v ∈ us) (σ : Nat → V) :
    ∀ u ∈ us, Settled u (iterU l N σ) := by
  intro u hu
  have := inv_iter A hl N 0 σ (fun _ _ h => absurd h (Nat.not_lt_zero _))
  exact this u hu (by simpa using A.bound u hu)

theorem pass_frame (A : Acyclic us rk N) :
    ∀ (l : List (CombUnit V)) (σ : Nat → V) (x : Nat), (∀ v ∈ l, v ∈ us) → (∀ u ∈ us, x ∉ u.W) → passU l σ x = σ x := by
  intro l
  induction l with
  | nil => intros; rfl
  | cons v l ih =>
    intro σ x hl hx
    have hv : v ∈ us := hl v (List.mem_cons_self ..)
    show passU l (v.run σ) x = σ x
    rw [ih (v.run σ) x (fun w hw => hl w (List.mem_cons_of_mem _ hw)) hx]
    exact (A.ok v hv).frame σ x (hx v hv)

theorem iter_frame (A : Acyclic us rk N) {l : List (CombUnit V)} (hl : ∀ v ∈ l, v ∈ us) :
    ∀ (n : Nat) (σ : Nat → V) (x : Nat), (∀ u ∈ us, x ∉ u.W) → iterU l n σ x = σ x := by
  intro n
  induction n with
  | zero => intros; rfl
  | succ n ih =>
    intro σ x hx
    show iterU l n (passU l σ) x = σ x
    rw [ih (passU l σ) x hx, pass_frame A l σ x hl hx]

/-- two stores on which every unit is settled and which agree outside the write sets are equal -/
theorem settled_unique (A : Acyclic us rk N) {σ σ' : Nat → V} (hs : ∀ u ∈ us, Settled u σ)
    (hs' : ∀ u ∈ us, Settled u σ') (hoff : ∀ x, (∀ u ∈ us, x ∉ u.W) → σ x = σ' x) : ∀ x, σ x = σ' x := by
  have key : ∀ k, ∀ u ∈ us, rk u = k → ∀ x ∈ u.W, σ x = σ' x := by
    intro k
    induction k using Nat.strongRecOn with
    | _ k ih =>
      intro u hu hk x hx
      rw [← hs u hu x, ← hs' u hu x]
      apply (A.ok u hu).dep _ _ _ x hx
      intro y hy
      by_cases hw : ∃ v, v ∈ us ∧ y ∈ v.W
      · obtain ⟨v, hv, hyv⟩ := hw
        have hlt := A.rank u hu v hv y hy hyv
        exact ih (rk v) (hk ▸ hlt) v hv rfl y hyv
      · apply hoff
        intro v hv hyv
        exact hw ⟨v, hv, hyv⟩
  intro x
  by_cases hw : ∃ v, v ∈ us ∧ x ∈ v.W
  · obtain ⟨v, hv, hxv⟩ := hw
    exact key (rk v) v hv rfl x hxv
  · apply hoff
    intro v hv hxv
    exact hw ⟨v, hv, hxv⟩

/-- T1: any two orders (lists with the same members) settle to the same store in `N` passes -/
theorem settle_order_indep_units (A : Acyclic us rk N) {l l' : List (CombUnit V)} (hl : ∀ v, v ∈ l ↔ v ∈ us)
    (hl' : ∀ v, v ∈ l' ↔ v ∈ us) (σ : Nat → V) : iterU l N σ = iterU l' N σ := by
  funext x
  apply settled_unique A (all_settled A hl σ) (all_settled A hl' σ)
  intro y hy
  rw [iter_frame A (fun v hv => (hl v).mp hv) N σ y hy, iter_frame A (fun v hv => (hl' v).mp hv) N σ y hy]

/-- … and more passes change nothing -/
theorem settle_stable (A : Acyclic us rk N) {l : List (CombUnit V)} (hl : ∀ v, v ∈ l ↔ v ∈ us) (σ : Nat → V) :
    passU l (iterU l N σ) = iterU l N σ := by
  have hs := all_settled A hl σ
  generalize iterU l N σ = τ at hs
  have : ∀ (m : List (CombUnit V)), (∀ v ∈ m, v ∈ us) → passU m τ = τ := by
    intro m
    induction m with
    | nil => intro _; rfl
    | cons v m ih =>
      intro hm
      show passU m (v.run τ) = τ
      rw [settled_run_eq (hs v (hm v (List.mem_cons_self ..)))]
      exact ih (fun w hw => hm w (List.mem_cons_of_mem _ hw))
  exact this l (fun v hv => (hl v).mp hv)

end

end VerylModel.Sim
