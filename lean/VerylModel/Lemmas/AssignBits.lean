import VerylModel.Lemmas.AssignMulti
/-! Bit-level reading of the per-declaration write summaries (used by the statements of C15). -/
namespace VerylModel.AssignTable

/-- Declaration `p` writes bit `i` of `v` at a constant position / inside a dynamically indexed
region / at all. -/
def constBit (v : Nat) (p : Proc) (i : Nat) : Prop := ∃ w ∈ procWrites v p, w.2 = false ∧ w.1.testBit i = true
def dynBit (v : Nat) (p : Proc) (i : Nat) : Prop := ∃ w ∈ procWrites v p, w.2 = true ∧ w.1.testBit i = true
def anyBit (v : Nat) (p : Proc) (i : Nat) : Prop := ∃ w ∈ procWrites v p, w.1.testBit i = true

theorem defMask_bit (ws : List (Nat × Bool)) (i : Nat) :
    (defMask ws).testBit i = true ↔ ∃ w ∈ ws, w.2 = false ∧ w.1.testBit i = true := by
  simp only [defMask, foldOr_testBit, List.mem_map, List.mem_filter]
  constructor
  · rintro ⟨m, ⟨w, ⟨hw, hd⟩, rfl⟩, hm⟩
    exact ⟨w, hw, by simpa using hd, hm⟩
  · rintro ⟨w, hw, hd, hm⟩
    exact ⟨w.1, ⟨w, ⟨hw, by simp [hd]⟩, rfl⟩, hm⟩

theorem dynMask_bit (ws : List (Nat × Bool)) (i : Nat) :
    (dynMask ws).testBit i = true ↔ ∃ w ∈ ws, w.2 = true ∧ w.1.testBit i = true := by
  simp only [dynMask, foldOr_testBit, List.mem_map, List.mem_filter]
  constructor
  · rintro ⟨m, ⟨w, ⟨hw, hd⟩, rfl⟩, hm⟩
    exact ⟨w, hw, hd, hm⟩
  · rintro ⟨w, hw, hd, hm⟩
    exact ⟨w.1, ⟨w, ⟨hw, hd⟩, rfl⟩, hm⟩

theorem mayMask_bit (ws : List (Nat × Bool)) (i : Nat) :
    (mayMask ws).testBit i = true ↔ ∃ w ∈ ws, w.1.testBit i = true := by
  simp only [mayMask, foldOr_testBit, List.mem_map]
  constructor
  · rintro ⟨m, ⟨w, hw, rfl⟩, hm⟩; exact ⟨w, hw, hm⟩
  · rintro ⟨w, hw, hm⟩; exact ⟨w.1, ⟨w, hw, rfl⟩, hm⟩

theorem procConflict_iff (v : Nat) (p q : Proc) :
    procConflict (procWrites v p) (procWrites v q) = true ↔
      ∃ i, (constBit v p i ∧ constBit v q i) ∨ (dynBit v p i ∧ anyBit v q i) ∨ (dynBit v q i ∧ anyBit v p i) := by
  unfold procConflict
  simp only [Bool.or_eq_true, decide_eq_true_eq, and_ne_zero_iff, defMask_bit, dynMask_bit, mayMask_bit,
    constBit, dynBit, anyBit]
  constructor
  · rintro ((⟨i, h1, h2⟩ | ⟨i, h1, h2⟩) | ⟨i, h1, h2⟩)
    · exact ⟨i, Or.inl ⟨h1, h2⟩⟩
    · exact ⟨i, Or.inr (Or.inl ⟨h1, h2⟩)⟩
    · exact ⟨i, Or.inr (Or.inr ⟨h1, h2⟩)⟩
  · rintro ⟨i, (⟨h1, h2⟩ | ⟨h1, h2⟩ | ⟨h1, h2⟩)⟩
    · exact Or.inl (Or.inl ⟨i, h1, h2⟩)
    · exact Or.inl (Or.inr ⟨i, h1, h2⟩)
    · exact Or.inr ⟨i, h1, h2⟩

theorem refMulti_iff (v : Nat) : ∀ procs : List Proc, refMulti v procs = true ↔
    ∃ l₁ p l₂ q l₃, procs = l₁ ++ p :: (l₂ ++ q :: l₃) ∧
      procConflict (procWrites v p) (procWrites v q) = true
  | [] => by simp [refMulti]
  | a :: rest => by
    simp only [refMulti, Bool.or_eq_true, List.any_eq_true, refMulti_iff v rest]
    constructor
    · rintro (⟨q, hq, hc⟩ | ⟨l₁, p, l₂, q, l₃, rfl, hc⟩)
      · obtain ⟨l₂, l₃, rfl⟩ := List.append_of_mem hq
        exact ⟨[], a, l₂, q, l₃, rfl, hc⟩
      · exact ⟨a :: l₁, p, l₂, q, l₃, rfl, hc⟩
    · rintro ⟨l₁, p, l₂, q, l₃, heq, hc⟩
      cases l₁ with
      | nil =>
        simp only [List.nil_append, List.cons.injEq] at heq
        obtain ⟨rfl, rfl⟩ := heq
        exact Or.inl ⟨q, by simp, hc⟩
      | cons x l₁ =>
        simp only [List.cons_append, List.cons.injEq] at heq
        obtain ⟨rfl, rfl⟩ := heq
        exact Or.inr ⟨l₁, p, l₂, q, l₃, rfl, hc⟩

theorem assignedBy_bit (v : Nat) (procs : List Proc) (i : Nat) :
    (assignedBy v procs).testBit i = true ↔ ∃ p ∈ procs, anyBit v p i := by
  simp only [assignedBy, foldOr_testBit, List.mem_map, anyBit]
  constructor
  · rintro ⟨m, ⟨p, hp, rfl⟩, hm⟩; exact ⟨p, hp, (mayMask_bit _ i).mp hm⟩
  · rintro ⟨p, hp, h⟩; exact ⟨_, ⟨p, hp, rfl⟩, (mayMask_bit _ i).mpr h⟩


end VerylModel.AssignTable
