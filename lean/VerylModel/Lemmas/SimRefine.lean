import VerylModel.Core.Sim
/-!
C02, T3 at the expression level: on known operands the 4-state evaluator computes the embedding
of the 2-state value — `eval env e w s = some v → eval4 (liftEnv env) e w s = (v, 0)`
(`some` = no divisor was zero, i.e. no operator manufactures X).
-/
namespace VerylModel.Sim
open VerylModel.ExprRef

/-! ### `eval` in terms of the per-class helper functions -/

theorem eval_arith (env : Env) (op : BinOp) (a b : Expr) (w : Nat) (s : Bool) (h : op.isArith = true) :
    eval env (.bin op a b) w s =
      (match eval env a w s, eval env b w s with
       | some x, some y => arith2 op w s x y
       | _, _ => none) := by
  cases op <;> simp only [BinOp.isArith, Bool.false_eq_true] at h <;>
    (simp only [eval, BinOp.isArith, if_true, arith2]; cases eval env a w s <;> cases eval env b w s <;> rfl)

theorem eval_shift (env : Env) (op : BinOp) (a b : Expr) (w : Nat) (s : Bool) (h : op.isShift = true) :
    eval env (.bin op a b) w s =
      (match eval env a w s, eval env b (size env b) (sgn env b) with
       | some x, some k => some (shift2 op w s x k)
       | _, _ => none) := by
  cases op <;> simp only [BinOp.isShift, Bool.false_eq_true] at h <;>
    (simp only [eval, BinOp.isArith, BinOp.isShift, if_true, if_false, Bool.false_eq_true, shift2];
     cases eval env a w s <;> cases eval env b (size env b) (sgn env b) <;> first | rfl | (cases s <;> rfl))

theorem eval_cmp (env : Env) (op : BinOp) (a b : Expr) (w : Nat) (s : Bool) (h : op.isCmp = true) :
    eval env (.bin op a b) w s =
      (match eval env a (max (size env a) (size env b)) (sgn env a && sgn env b),
             eval env b (max (size env a) (size env b)) (sgn env a && sgn env b) with
       | some x, some y => some (ext (cmp2 op (max (size env a) (size env b)) (sgn env a && sgn env b) x y) 1 w false)
       | _, _ => none) := by
  cases op <;> simp only [BinOp.isCmp, Bool.false_eq_true] at h <;>
    (simp only [eval, BinOp.isArith, BinOp.isShift, BinOp.isCmp, if_true, if_false, Bool.false_eq_true, cmp2];
     cases eval env a (max (size env a) (size env b)) (sgn env a && sgn env b) <;>
       cases eval env b (max (size env a) (size env b)) (sgn env a && sgn env b) <;> rfl)

def logic2 (op : BinOp) (x y : Nat) : Nat :=
  match op with
  | .land => b2n (x ≠ 0 && y ≠ 0)
  | _ => b2n (x ≠ 0 || y ≠ 0)

theorem eval_logic (env : Env) (op : BinOp) (a b : Expr) (w : Nat) (s : Bool) (h1 : op.isArith = false)
    (h2 : op.isShift = false) (h3 : op.isCmp = false) :
    eval env (.bin op a b) w s =
      (match eval env a (size env a) (sgn env a), eval env b (size env b) (sgn env b) with
       | some x, some y => some (ext (logic2 op x y) 1 w false)
       | _, _ => none) := by
  cases op <;> simp only [BinOp.isArith, BinOp.isShift, BinOp.isCmp, Bool.true_eq_false] at h1 h2 h3 <;>
    (simp only [eval, BinOp.isArith, BinOp.isShift, BinOp.isCmp, if_false, Bool.false_eq_true, logic2];
     cases eval env a (size env a) (sgn env a) <;> cases eval env b (size env b) (sgn env b) <;> rfl)

def isRed : UnOp → Bool
  | .plus | .neg | .bnot => false
  | _ => true

theorem eval_red (env : Env) (op : UnOp) (a : Expr) (w : Nat) (s : Bool) (h : isRed op = true) :
    eval env (.un op a) w s =
      (eval env a (size env a) (sgn env a)).map (fun v => ext (red2 op (size env a) v) 1 w false) := by
  cases op <;> simp only [isRed, Bool.false_eq_true] at h <;> simp only [eval, red2]

/-! ### lifting -/

def liftPort (p : Port) : Port4 := { width := p.width, signed := p.signed, value := p.value, mask := 0 }

def liftEnv (env : Env) : Env4 := env.map liftPort

theorem erase_liftEnv (env : Env) : erase (liftEnv env) = env := by
  induction env with
  | nil => rfl
  | cons p env ih =>
    simp only [liftEnv, List.map_cons, erase] at ih ⊢
    rw [ih]
    rfl

theorem portOf4_lift (env : Env) (i : Nat) : portOf4 (liftEnv env) i = liftPort (portOf env i) := by
  simp only [portOf4, portOf, liftEnv, List.getD_eq_getElem?_getD, List.getElem?_map]
  cases env[i]? <;> rfl

theorem ext_zero (fw w : Nat) (s : Bool) : ext 0 fw w s = 0 := by
  unfold ext
  split
  · exact Nat.zero_mod _
  · split
    · rename_i h
      simp at h
    · exact Nat.zero_mod _

/-- T3 (expressions): known operands and no zero divisor ⇒ the 4-state value is the known 2-state value -/
theorem eval4_lift (env : Env) (e : Expr) : ∀ (w : Nat) (s : Bool) (v : Nat), eval env e w s = some v →
    eval4 (liftEnv env) e w s = (v, 0) := by
  induction e with
  | port i =>
    intro w s v h
    simp only [eval, Option.some.injEq] at h
    simp only [eval4, portOf4_lift, liftPort, ext_zero, h]
  | lit lw ls lv =>
    intro w s v h
    simp only [eval, Option.some.injEq] at h
    simp only [eval4, h]
  | un op a ih =>
    intro w s v h
    cases op
    case plus => exact ih _ _ _ (by simpa only [eval] using h)
    case neg =>
      simp only [eval, Option.map_eq_some_iff] at h
      obtain ⟨x, hx, rfl⟩ := h
      simp only [eval4, ih _ _ _ hx, if_true]
    case bnot =>
      simp only [eval, Option.map_eq_some_iff] at h
      obtain ⟨x, hx, rfl⟩ := h
      simp only [eval4, ih _ _ _ hx, if_true]
    all_goals
      rw [eval_red env _ a w s rfl] at h
      simp only [Option.map_eq_some_iff] at h
      obtain ⟨x, hx, rfl⟩ := h
      simp only [eval4, erase_liftEnv, ih _ _ _ hx, ext_zero, if_true]
  | bin op a b iha ihb =>
    intro w s v h
    cases h1 : op.isArith with
    | true =>
      rw [eval_arith env op a b w s h1] at h
      split at h
      · rename_i x y hx hy
        simp only [eval4, h1, if_true, iha _ _ _ hx, ihb _ _ _ hy, and_self, h]
      · cases h
    | false =>
      cases h2 : op.isShift with
      | true =>
        rw [eval_shift env op a b w s h2] at h
        split at h
        · rename_i x k hx hk
          simp only [Option.some.injEq] at h
          simp only [eval4, h1, h2, if_true, if_false, Bool.false_eq_true, erase_liftEnv, iha _ _ _ hx, ihb _ _ _ hk,
            ne_eq, not_true_eq_false, h]
        · cases h
      | false =>
        cases h3 : op.isCmp with
        | true =>
          rw [eval_cmp env op a b w s h3] at h
          split at h
          · rename_i x y hx hy
            simp only [Option.some.injEq] at h
            simp only [eval4, h1, h2, h3, if_true, if_false, Bool.false_eq_true, erase_liftEnv, iha _ _ _ hx, ihb _ _ _ hy,
              and_self, ext_zero, h]
          · cases h
        | false =>
          rw [eval_logic env op a b w s h1 h2 h3] at h
          split at h
          · rename_i x y hx hy
            simp only [Option.some.injEq] at h
            subst h
            cases op <;> simp only [BinOp.isArith, BinOp.isShift, BinOp.isCmp, Bool.true_eq_false] at h1 h2 h3 <;>
              simp only [eval4, BinOp.isArith, BinOp.isShift, BinOp.isCmp, if_true, if_false, Bool.false_eq_true, erase_liftEnv,
                iha _ _ _ hx, ihb _ _ _ hy, and_self, ext_zero, logic2]
          · cases h
  | ite c a b ihc iha ihb =>
    intro w s v h
    simp only [eval] at h
    split at h
    · rename_i cv x y hc hx hy
      simp only [Option.some.injEq] at h
      simp only [eval4, erase_liftEnv, ihc _ _ _ hc, iha _ _ _ hx, ihb _ _ _ hy, if_true]
      split <;> simp_all
    · cases h
  | cat a b iha ihb =>
    intro w s v h
    simp only [eval] at h
    split at h
    · rename_i x y hx hy
      simp only [Option.some.injEq] at h
      simp only [eval4, erase_liftEnv, iha _ _ _ hx, ihb _ _ _ hy, Nat.zero_mul, Nat.add_zero, ext_zero, h]
    · cases h

end VerylModel.Sim
