import VerylModel.Lemmas.AssignUncovered
/-! Lemmas for `uncovered_exact_partial`: on "no later write" blocks every `uncovered_branch`
report is witnessed by two paths that write different bits. -/
namespace VerylModel.AssignTable

theorem mayMask_testBit (ws : List (Nat × Bool)) (i : Nat) :
    (mayMask ws).testBit i = true ↔ ∃ w ∈ ws, w.1.testBit i = true := by
  simp only [mayMask, foldOr_testBit, List.mem_map]
  constructor
  · rintro ⟨m, ⟨w, hw, rfl⟩, hm⟩; exact ⟨w, hw, hm⟩
  · rintro ⟨w, hw, hm⟩; exact ⟨w.1, ⟨w, hw, rfl⟩, hm⟩

theorem mayMask_nil_of_isEmpty {ws : List (Nat × Bool)} (h : ws.isEmpty = true) : mayMask ws = 0 := by
  cases ws with
  | nil => rfl
  | cons a l => simp at h

/-! A path writes only bits the statement may write. -/
mutual
theorem path_sub_stmt (v i : Nat) : ∀ (s : Stmt) (p : Nat), p ∈ pathsStmt v s → p.testBit i = true →
    (mayMask (writesStmt v s)).testBit i = true
  | .assign reads w, p, hp, hi => by
    simp only [pathsStmt, List.mem_singleton] at hp
    subst hp
    simp only [writesStmt]
    split
    · rename_i h
      simp only [h, if_true] at hi
      simpa [mayMask, foldOr_cons, foldOr_nil] using hi
    · rename_i h
      simp [h] at hi
  | .ifs c thn els, p, hp, hi => by
    simp only [pathsStmt, List.mem_append] at hp
    simp only [writesStmt, mayMask_append, Nat.testBit_or, Bool.or_eq_true]
    rcases hp with hp | hp
    · exact Or.inl (path_sub_block v i thn p hp hi)
    · exact Or.inr (path_sub_block v i els p hp hi)
  | .case c arms dflt exh, p, hp, hi => by
    simp only [pathsStmt, List.mem_append] at hp
    simp only [writesStmt, mayMask_append, Nat.testBit_or, Bool.or_eq_true]
    rcases hp with hp | hp
    · exact Or.inl (path_sub_blocks v i arms p hp hi)
    · cases exh with
      | true => simp at hp
      | false => exact Or.inr (path_sub_block v i dflt p (by simpa using hp) hi)
theorem path_sub_block (v i : Nat) : ∀ (b : Block) (p : Nat), p ∈ pathsBlock v b → p.testBit i = true →
    (mayMask (writesBlock v b)).testBit i = true
  | .nil, p, hp, hi => by
    simp only [pathsBlock, List.mem_singleton] at hp
    subst hp; simp at hi
  | .cons s b, p, hp, hi => by
    obtain ⟨m, hm, n, hn, rfl⟩ := mem_pathsBlock_cons.mp hp
    simp only [Nat.testBit_or, Bool.or_eq_true] at hi
    simp only [writesBlock, mayMask_append, Nat.testBit_or, Bool.or_eq_true]
    rcases hi with hi | hi
    · exact Or.inl (path_sub_stmt v i s m hm hi)
    · exact Or.inr (path_sub_block v i b n hn hi)
theorem path_sub_blocks (v i : Nat) : ∀ (bs : Blocks) (p : Nat), p ∈ pathsBlocks v bs → p.testBit i = true →
    (mayMask (writesBlocks v bs)).testBit i = true
  | .nil, p, hp, _ => by simp [pathsBlocks] at hp
  | .cons b r, p, hp, hi => by
    simp only [pathsBlocks, List.mem_append] at hp
    simp only [writesBlocks, mayMask_append, Nat.testBit_or, Bool.or_eq_true]
    rcases hp with hp | hp
    · exact Or.inl (path_sub_block v i b p hp hi)
    · exact Or.inr (path_sub_blocks v i r p hp hi)
end

/-! Without exhaustive cases every statement has a path, and every write lies on one. -/
mutual
theorem paths_ne_stmt (v : Nat) : ∀ s : Stmt, nlwStmt v s = true → ∃ p, p ∈ pathsStmt v s
  | .assign reads w, _ => ⟨if w.dst = v then w.mask else 0, by simp [pathsStmt]⟩
  | .ifs c thn els, h => by
    simp only [nlwStmt, Bool.and_eq_true] at h
    obtain ⟨p, hp⟩ := paths_ne_block v thn h.1
    exact ⟨p, by simp [pathsStmt, hp]⟩
  | .case c arms dflt exh, h => by
    simp only [nlwStmt, Bool.and_eq_true, Bool.not_eq_true'] at h
    obtain ⟨p, hp⟩ := paths_ne_block v dflt h.2
    exact ⟨p, by simp [pathsStmt, h.1.1, hp]⟩
theorem paths_ne_block (v : Nat) : ∀ b : Block, nlwBlock v b = true → ∃ p, p ∈ pathsBlock v b
  | .nil, _ => ⟨0, by simp [pathsBlock]⟩
  | .cons s b, h => by
    simp only [nlwBlock, Bool.and_eq_true] at h
    obtain ⟨m, hm⟩ := paths_ne_stmt v s h.1.1
    obtain ⟨n, hn⟩ := paths_ne_block v b h.1.2
    exact ⟨m ||| n, mem_pathsBlock_cons.mpr ⟨m, hm, n, hn, rfl⟩⟩
end

mutual
theorem path_with_bit_stmt (v i : Nat) : ∀ s : Stmt, nlwStmt v s = true →
    (mayMask (writesStmt v s)).testBit i = true → ∃ p ∈ pathsStmt v s, p.testBit i = true
  | .assign reads w, _, hi => by
    simp only [writesStmt] at hi
    split at hi
    · rename_i h
      refine ⟨w.mask, by simp [pathsStmt, h], ?_⟩
      simpa [mayMask, foldOr_cons, foldOr_nil] using hi
    · simp [mayMask, foldOr_nil] at hi
  | .ifs c thn els, h, hi => by
    simp only [nlwStmt, Bool.and_eq_true] at h
    simp only [writesStmt, mayMask_append, Nat.testBit_or, Bool.or_eq_true] at hi
    rcases hi with hi | hi
    · obtain ⟨p, hp, hpi⟩ := path_with_bit_block v i thn h.1 hi
      exact ⟨p, by simp [pathsStmt, hp], hpi⟩
    · obtain ⟨p, hp, hpi⟩ := path_with_bit_block v i els h.2 hi
      exact ⟨p, by simp [pathsStmt, hp], hpi⟩
  | .case c arms dflt exh, h, hi => by
    simp only [nlwStmt, Bool.and_eq_true, Bool.not_eq_true'] at h
    simp only [writesStmt, mayMask_append, Nat.testBit_or, Bool.or_eq_true] at hi
    rcases hi with hi | hi
    · obtain ⟨p, hp, hpi⟩ := path_with_bit_blocks v i arms h.1.2 hi
      exact ⟨p, by simp [pathsStmt, hp], hpi⟩
    · obtain ⟨p, hp, hpi⟩ := path_with_bit_block v i dflt h.2 hi
      exact ⟨p, by simp [pathsStmt, h.1.1, hp], hpi⟩
theorem path_with_bit_block (v i : Nat) : ∀ b : Block, nlwBlock v b = true →
    (mayMask (writesBlock v b)).testBit i = true → ∃ p ∈ pathsBlock v b, p.testBit i = true
  | .nil, _, hi => by simp [writesBlock, mayMask, foldOr_nil] at hi
  | .cons s b, h, hi => by
    simp only [nlwBlock, Bool.and_eq_true] at h
    simp only [writesBlock, mayMask_append, Nat.testBit_or, Bool.or_eq_true] at hi
    rcases hi with hi | hi
    · obtain ⟨m, hm, hmi⟩ := path_with_bit_stmt v i s h.1.1 hi
      obtain ⟨n, hn⟩ := paths_ne_block v b h.1.2
      exact ⟨m ||| n, mem_pathsBlock_cons.mpr ⟨m, hm, n, hn, rfl⟩, by simp [Nat.testBit_or, hmi]⟩
    · obtain ⟨m, hm⟩ := paths_ne_stmt v s h.1.1
      obtain ⟨n, hn, hni⟩ := path_with_bit_block v i b h.1.2 hi
      exact ⟨m ||| n, mem_pathsBlock_cons.mpr ⟨m, hm, n, hn, rfl⟩, by simp [Nat.testBit_or, hni]⟩
theorem path_with_bit_blocks (v i : Nat) : ∀ bs : Blocks, nlwBlocks v bs = true →
    (mayMask (writesBlocks v bs)).testBit i = true → ∃ p ∈ pathsBlocks v bs, p.testBit i = true
  | .nil, _, hi => by simp [writesBlocks, mayMask, foldOr_nil] at hi
  | .cons b r, h, hi => by
    simp only [nlwBlocks, Bool.and_eq_true] at h
    simp only [writesBlocks, mayMask_append, Nat.testBit_or, Bool.or_eq_true] at hi
    rcases hi with hi | hi
    · obtain ⟨p, hp, hpi⟩ := path_with_bit_block v i b h.1 hi
      exact ⟨p, by simp [pathsBlocks, hp], hpi⟩
    · obtain ⟨p, hp, hpi⟩ := path_with_bit_blocks v i r h.2 hi
      exact ⟨p, by simp [pathsBlocks, hp], hpi⟩
end

/-- Two paths that differ at a bit outside `B`. -/
def Differ (ps : List Nat) (B : Nat) : Prop :=
  ∃ p ∈ ps, ∃ q ∈ ps, ∃ i, B.testBit i = false ∧ p.testBit i ≠ q.testBit i

theorem Differ.mono {ps qs : List Nat} {B B' : Nat} (h : Differ ps B') (hs : ∀ p ∈ ps, p ∈ qs)
    (hB : ∀ i, B'.testBit i = false → B.testBit i = false) : Differ qs B := by
  obtain ⟨p, hp, q, hq, i, hi, hne⟩ := h
  exact ⟨p, hs p hp, q, hs q hq, i, hB i hi, hne⟩

theorem or_bit_false {a b i : Nat} (h : (a ||| b).testBit i = false) : a.testBit i = false ∧ b.testBit i = false := by
  simpa [Nat.testBit_or] using h

/-- From a bit written by branch `X` (somewhere) and by branch `Y` nowhere: a path of each. -/
theorem differ_of_masks {psX psY : List Nat} {x y B i : Nat} (hB : B.testBit i = false)
    (hx : x.testBit i = true) (hy : y.testBit i = false)
    (hpx : x.testBit i = true → ∃ p ∈ psX, p.testBit i = true)
    (hpy : ∃ q, q ∈ psY) (hsub : ∀ q ∈ psY, q.testBit i = true → y.testBit i = true) :
    ∃ p ∈ psX, ∃ q ∈ psY, B.testBit i = false ∧ p.testBit i ≠ q.testBit i := by
  obtain ⟨p, hp, hpi⟩ := hpx hx
  obtain ⟨q, hq⟩ := hpy
  refine ⟨p, hp, q, hq, hB, ?_⟩
  have hqi : q.testBit i = false := by
    cases h : q.testBit i
    · rfl
    · have := hsub q hq h; rw [hy] at this; cases this
  rw [hpi, hqi]; simp

/-- The branches of a `case` (arms, then default), as (may-mask, paths). -/
def branchPaths (v : Nat) : Blocks → List (Nat × List Nat)
  | Blocks.nil => []
  | Blocks.cons b r => (mayMask (writesBlock v b), pathsBlock v b) :: branchPaths v r

theorem branchPaths_fst (v : Nat) : ∀ bs : Blocks, (branchPaths v bs).map (·.1) = mayList v bs
  | .nil => rfl
  | .cons b r => by simp [branchPaths, mayList, branchPaths_fst v r]

theorem branchPaths_sub (v : Nat) : ∀ (bs : Blocks) (x : Nat × List Nat), x ∈ branchPaths v bs →
    ∀ p ∈ x.2, p ∈ pathsBlocks v bs
  | .nil, x, hx => by simp [branchPaths] at hx
  | .cons b r, x, hx => by
    simp only [branchPaths, List.mem_cons] at hx
    intro p hp
    simp only [pathsBlocks, List.mem_append]
    rcases hx with rfl | hx
    · exact Or.inl hp
    · exact Or.inr (branchPaths_sub v r x hx p hp)

theorem branchPaths_spec (v : Nat) : ∀ (bs : Blocks), nlwBlocks v bs = true →
    ∀ x ∈ branchPaths v bs, (∃ q, q ∈ x.2) ∧
      (∀ i, x.1.testBit i = true → ∃ p ∈ x.2, p.testBit i = true) ∧
      (∀ i, ∀ q ∈ x.2, q.testBit i = true → x.1.testBit i = true)
  | .nil, _, x, hx => by simp [branchPaths] at hx
  | .cons b r, h, x, hx => by
    simp only [nlwBlocks, Bool.and_eq_true] at h
    simp only [branchPaths, List.mem_cons] at hx
    rcases hx with rfl | hx
    · exact ⟨paths_ne_block v b h.1, fun i hi => path_with_bit_block v i b h.1 hi,
        fun i q hq hqi => path_sub_block v i b q hq hqi⟩
    · exact branchPaths_spec v r h.2 x hx

mutual
theorem part_stmt (cx : Cx) (v base : Nat) : ∀ (s : Stmt) (st : St), nlwStmt v s = true →
    (evalStmt cx v base st s).unc = true →
    st.unc = true ∨ Differ (pathsStmt v s) (base ||| st.e.mask)
  | .assign reads w, st, _, h => by
    left
    simp only [evalStmt] at h
    split at h <;> simpa using h
  | .ifs c thn els, st, hn, h => by
    simp only [nlwStmt, Bool.and_eq_true] at hn
    simp only [evalStmt, Bool.or_eq_true, Bool.and_eq_true] at h
    rcases h with h | ⟨_, h⟩
    · rcases part_block cx v (base ||| st.e.mask) els _ hn.2 h with h | h
      · rcases part_block cx v (base ||| st.e.mask) thn _ hn.1 h with h | h
        · exact Or.inl h
        · right
          exact h.mono (fun p hp => by simp [pathsStmt, hp]) (fun i hi => by simpa using hi)
      · right
        exact h.mono (fun p hp => by simp [pathsStmt, hp]) (fun i hi => by simpa using hi)
    · right
      rw [mask_block, mask_block, uncovered2_iff] at h
      simp only [Nat.zero_or] at h
      obtain ⟨i, hB, hne⟩ := h
      cases hT : (mayMask (writesBlock v thn)).testBit i
      · have hF : (mayMask (writesBlock v els)).testBit i = true := by
          cases hF : (mayMask (writesBlock v els)).testBit i
          · rw [hT, hF] at hne; exact absurd rfl hne
          · rfl
        obtain ⟨p, hp, q, hq, hB', hd⟩ := differ_of_masks (psX := pathsBlock v els) (psY := pathsBlock v thn) hB hF hT
          (fun hx => path_with_bit_block v i els hn.2 hx) (paths_ne_block v thn hn.1)
          (fun q hq hqi => path_sub_block v i thn q hq hqi)
        exact ⟨p, by simp [pathsStmt, hp], q, by simp [pathsStmt, hq], i, hB', hd⟩
      · have hF : (mayMask (writesBlock v els)).testBit i = false := by
          cases hF : (mayMask (writesBlock v els)).testBit i
          · rfl
          · rw [hT, hF] at hne; exact absurd rfl hne
        obtain ⟨p, hp, q, hq, hB', hd⟩ := differ_of_masks (psX := pathsBlock v thn) (psY := pathsBlock v els) hB hT hF
          (fun hx => path_with_bit_block v i thn hn.1 hx) (paths_ne_block v els hn.2)
          (fun q hq hqi => path_sub_block v i els q hq hqi)
        exact ⟨p, by simp [pathsStmt, hp], q, by simp [pathsStmt, hq], i, hB', hd⟩
  | .case c arms dflt exh, st, hn, h => by
    simp only [nlwStmt, Bool.and_eq_true, Bool.not_eq_true'] at hn
    obtain ⟨⟨hexh, hna⟩, hnd⟩ := hn
    subst hexh
    simp only [evalStmt, Bool.or_eq_true, Bool.and_eq_true] at h
    rcases h with h | ⟨_, h⟩
    · rcases part_block cx v (base ||| st.e.mask) dflt _ hnd h with h | h
      · rcases part_arms cx v (base ||| st.e.mask) arms st hna h with h | h
        · exact Or.inl h
        · right
          exact h.mono (fun p hp => by simp [pathsStmt, hp]) (fun i hi => hi)
      · right
        exact h.mono (fun p hp => by simp [pathsStmt, hp]) (fun i hi => by simpa using hi)
    · right
      rw [List.map_append, arms_masks, List.map_cons, List.map_nil, mask_block] at h
      simp only [Nat.zero_or] at h
      obtain ⟨_, i, hB, x, hx, y, hy, hne⟩ := uncoveredN_iff.mp h
      -- all branches with their paths
      let all := branchPaths v arms ++ [(mayMask (writesBlock v dflt), pathsBlock v dflt)]
      have hall : ∀ z ∈ all, (∃ q, q ∈ z.2) ∧
          (∀ i, z.1.testBit i = true → ∃ p ∈ z.2, p.testBit i = true) ∧
          (∀ i, ∀ q ∈ z.2, q.testBit i = true → z.1.testBit i = true) ∧
          (∀ p ∈ z.2, p ∈ pathsStmt v (.case c arms dflt false)) := by
        intro z hz
        rcases List.mem_append.mp hz with hz | hz
        · have := branchPaths_spec v arms hna z hz
          exact ⟨this.1, this.2.1, this.2.2, fun p hp => by
            simp only [pathsStmt, List.mem_append]
            exact Or.inl (branchPaths_sub v arms z hz p hp)⟩
        · simp only [List.mem_singleton] at hz
          subst hz
          exact ⟨paths_ne_block v dflt hnd, fun i hi => path_with_bit_block v i dflt hnd hi,
            fun i q hq hqi => path_sub_block v i dflt q hq hqi, fun p hp => by simp [pathsStmt, hp]⟩
      have hmasks : all.map (·.1) = mayList v arms ++ [mayMask (writesBlock v dflt)] := by
        simp [all, branchPaths_fst]
      rw [← hmasks] at hx hy
      obtain ⟨zx, hzx, rfl⟩ := List.mem_map.mp hx
      obtain ⟨zy, hzy, rfl⟩ := List.mem_map.mp hy
      have sx := hall zx hzx
      have sy := hall zy hzy
      cases hX : zx.1.testBit i
      · have hY : zy.1.testBit i = true := by
          cases hY : zy.1.testBit i
          · rw [hX, hY] at hne; exact absurd rfl hne
          · rfl
        obtain ⟨p, hp, q, hq, hB', hd⟩ := differ_of_masks (psX := zy.2) (psY := zx.2) hB hY hX
          (sy.2.1 i) sx.1 (sx.2.2.1 i)
        exact ⟨p, sy.2.2.2 p hp, q, sx.2.2.2 q hq, i, hB', hd⟩
      · have hY : zy.1.testBit i = false := by
          cases hY : zy.1.testBit i
          · rfl
          · rw [hX, hY] at hne; exact absurd rfl hne
        obtain ⟨p, hp, q, hq, hB', hd⟩ := differ_of_masks (psX := zx.2) (psY := zy.2) hB hX hY
          (sx.2.1 i) sy.1 (sy.2.2.1 i)
        exact ⟨p, sx.2.2.2 p hp, q, sy.2.2.2 q hq, i, hB', hd⟩
theorem part_block (cx : Cx) (v base : Nat) : ∀ (b : Block) (st : St), nlwBlock v b = true →
    (evalBlock cx v base st b).unc = true →
    st.unc = true ∨ Differ (pathsBlock v b) (base ||| st.e.mask)
  | .nil, st, _, h => by left; simpa [evalBlock] using h
  | .cons s b, st, hn, h => by
    simp only [nlwBlock, Bool.and_eq_true] at hn
    obtain ⟨⟨hns, hnb⟩, hlater⟩ := hn
    simp only [evalBlock] at h
    rcases part_block cx v base b _ hnb h with h | h
    · rcases part_stmt cx v base s st hns h with h | h
      · exact Or.inl h
      · right
        -- two paths of `s` differ at bit i; nothing after `s` writes `v`
        obtain ⟨p, hp, q, hq, i, hB, hne⟩ := h
        have hw : (mayMask (writesStmt v s)).testBit i = true := by
          cases hpi : p.testBit i
          · have hqi : q.testBit i = true := by
              cases hqi : q.testBit i
              · rw [hpi, hqi] at hne; exact absurd rfl hne
              · rfl
            exact path_sub_stmt v i s q hq hqi
          · exact path_sub_stmt v i s p hp hpi
        have hb0 : mayMask (writesBlock v b) = 0 := by
          cases s with
          | assign reads w =>
            simp only [pathsStmt, List.mem_singleton] at hp hq
            rw [hp, hq] at hne; exact absurd rfl hne
          | ifs c t e =>
            simp only [Bool.or_eq_true] at hlater
            rcases hlater with hl | hl
            · rw [mayMask_nil_of_isEmpty hl] at hw; simp at hw
            · exact mayMask_nil_of_isEmpty hl
          | case c a d x =>
            simp only [Bool.or_eq_true] at hlater
            rcases hlater with hl | hl
            · rw [mayMask_nil_of_isEmpty hl] at hw; simp at hw
            · exact mayMask_nil_of_isEmpty hl
        obtain ⟨n, hn⟩ := paths_ne_block v b hnb
        have hni : n.testBit i = false := by
          cases hni : n.testBit i
          · rfl
          · have := path_sub_block v i b n hn hni
            rw [hb0] at this; simp at this
        exact ⟨p ||| n, mem_pathsBlock_cons.mpr ⟨p, hp, n, hn, rfl⟩,
          q ||| n, mem_pathsBlock_cons.mpr ⟨q, hq, n, hn, rfl⟩, i, hB, by
            simpa [Nat.testBit_or, hni] using hne⟩
    · right
      obtain ⟨p, hp, q, hq, i, hB, hne⟩ := h
      rw [mask_stmt] at hB
      have hB1 := or_bit_false hB
      have hB2 := or_bit_false hB1.2
      obtain ⟨m, hm⟩ := paths_ne_stmt v s hns
      have hmi : m.testBit i = false := by
        cases hmi : m.testBit i
        · rfl
        · have := path_sub_stmt v i s m hm hmi
          rw [hB2.2] at this; cases this
      refine ⟨m ||| p, mem_pathsBlock_cons.mpr ⟨m, hm, p, hp, rfl⟩,
        m ||| q, mem_pathsBlock_cons.mpr ⟨m, hm, q, hq, rfl⟩, i, ?_, by
          simpa [Nat.testBit_or, hmi] using hne⟩
      simp [Nat.testBit_or, hB1.1, hB2.1]
theorem part_arms (cx : Cx) (v base : Nat) : ∀ (bs : Blocks) (st : St), nlwBlocks v bs = true →
    (evalArms cx v base st bs).1.unc = true →
    st.unc = true ∨ Differ (pathsBlocks v bs) base
  | .nil, st, _, h => by left; simpa [evalArms] using h
  | .cons b r, st, hn, h => by
    simp only [nlwBlocks, Bool.and_eq_true] at hn
    simp only [evalArms] at h
    rcases part_arms cx v base r _ hn.2 h with h | h
    · rcases part_block cx v base b _ hn.1 h with h | h
      · exact Or.inl h
      · right
        exact h.mono (fun p hp => by simp [pathsBlocks, hp]) (fun i hi => by simpa using hi)
    · right
      exact h.mono (fun p hp => by simp [pathsBlocks, hp]) (fun i hi => hi)
end

end VerylModel.AssignTable
