import VerylModel.Core.Words
import VerylModel.Core.CompTiming
/-! Helper lemmas for C35: word lists as positional numerals, `mask_top_word` as `% 2^width`,
little-endian byte codec, linear-memory read-after-write. Core Lean only. -/
namespace VerylModel.Words
open VerylModel.Svlv

theorem two64_eq : two64 = 2 ^ 64 := by decide

/-- A port-sized word list: `n` words, each a `u64`. -/
def Good (ws : List Nat) (n : Nat) : Prop := ws.length = n ∧ ∀ w ∈ ws, w < two64

theorem wordsFor_pos (w : Nat) : 1 ≤ wordsFor w := by unfold wordsFor; omega
theorem wordsFor_small (w : Nat) (h : w ≤ 64) : wordsFor w = 1 := by unfold wordsFor; omega
theorem wordsFor_ge (w : Nat) : w ≤ 64 * wordsFor w := by unfold wordsFor; omega
theorem wordsFor_tight (w : Nat) (h : 0 < w) : 64 * (wordsFor w - 1) < w := by unfold wordsFor; omega

theorem resize_length (ws : List Nat) (n : Nat) : (resize ws n).length = n := by
  unfold resize; simp; omega

theorem resize_self (ws : List Nat) : resize ws ws.length = ws := by
  unfold resize; simp

theorem resize_nil (n : Nat) : resize [] n = List.replicate n 0 := by
  unfold resize; simp

theorem resize_cons (w : Nat) (ws : List Nat) (n : Nat) : resize (w :: ws) (n + 1) = w :: resize ws n := by
  unfold resize; simp

theorem wordsValue_replicate (n : Nat) : wordsValue (List.replicate n 0) = 0 := by
  induction n with
  | zero => rfl
  | succ n ih => simp [List.replicate, wordsValue, ih]

theorem wordsValue_lt : ∀ ws : List Nat, (∀ w ∈ ws, w < two64) → wordsValue ws < 2 ^ (64 * ws.length) := by
  intro ws
  induction ws with
  | nil => intro _; simp [wordsValue]
  | cons w ws ih =>
    intro h
    have hw := h w (by simp)
    have ih' := ih (fun x hx => h x (by simp [hx]))
    have e : 64 * (w :: ws).length = 64 + 64 * ws.length := by simp; omega
    rw [e, Nat.pow_add, ← two64_eq]
    simp only [wordsValue]
    have : two64 * (wordsValue ws + 1) ≤ two64 * 2 ^ (64 * ws.length) := Nat.mul_le_mul_left _ ih'
    rw [Nat.mul_add] at this
    omega

/-- The digits of `p`, cut or padded to `n` words, denote `p % 2^(64 n)`. -/
theorem wordsValue_resize_digits : ∀ n p, wordsValue (resize (u64Digits p) n) = p % 2 ^ (64 * n) := by
  intro n
  induction n with
  | zero => intro p; simp [resize, wordsValue, Nat.mod_one]
  | succ n ih =>
    intro p
    rw [u64Digits]
    split
    · subst_vars; rw [resize_nil, wordsValue_replicate]; simp
    · rw [resize_cons]
      simp only [wordsValue, ih]
      have e : 64 * (n + 1) = 64 + 64 * n := by omega
      rw [e, Nat.pow_add, Nat.mod_mul, ← two64_eq]

theorem u64Digits_lt : ∀ p, ∀ w ∈ u64Digits p, w < two64 := by
  intro p
  induction p using Nat.strongRecOn with
  | _ p ih =>
    intro w hw
    rw [u64Digits] at hw
    split at hw
    · simp at hw
    · rename_i hne
      simp only [List.mem_cons] at hw
      rcases hw with rfl | hw
      · exact Nat.mod_lt _ (by decide)
      · exact ih (p / two64) (Nat.div_lt_self (Nat.pos_of_ne_zero hne) (by decide)) w hw

theorem resize_good (ws : List Nat) (n : Nat) (h : ∀ w ∈ ws, w < two64) : Good (resize ws n) n := by
  refine ⟨resize_length _ _, ?_⟩
  intro w hw
  unfold resize at hw
  simp only [List.mem_append, List.mem_replicate] at hw
  rcases hw with hw | ⟨_, rfl⟩
  · exact h w (List.mem_of_mem_take hw)
  · decide

theorem headD_eq_wordsValue (ws : List Nat) (h : ws.length = 1) : ws.headD 0 = wordsValue ws := by
  match ws, h with
  | [w], _ => simp [wordsValue]

/-- `value_to_words` on a value whose payload fits its arm. -/
theorem valueToWords_good (v : Val) (n : Nat) (hp : v.repr = .u64 → v.payload < two64) :
    Good (valueToWords v n) n := by
  unfold valueToWords
  cases hr : v.repr with
  | u64 =>
    apply resize_good
    intro w hw; simp at hw; subst hw; exact hp hr
  | big => exact resize_good _ _ (u64Digits_lt _)

theorem valueToWords_value (v : Val) (n : Nat) (hn : 1 ≤ n) (hc : v.payload < 2 ^ (64 * n)) :
    wordsValue (valueToWords v n) = v.payload := by
  unfold valueToWords
  cases v.repr with
  | u64 =>
    obtain ⟨k, rfl⟩ : ∃ k, n = k + 1 := ⟨n - 1, by omega⟩
    rw [resize_cons, resize_nil]
    simp [wordsValue, wordsValue_replicate]
  | big => rw [wordsValue_resize_digits, Nat.mod_eq_of_lt hc]

theorem valueToMaskWords_good (v : Val) (n : Nat) (hp : v.repr = .u64 → v.mask < two64) :
    Good (valueToMaskWords v n) n := by
  unfold valueToMaskWords
  cases hr : v.repr with
  | u64 =>
    apply resize_good
    intro w hw; simp at hw; subst hw; exact hp hr
  | big => exact resize_good _ _ (u64Digits_lt _)

theorem valueToMaskWords_value (v : Val) (n : Nat) (hn : 1 ≤ n) (hc : v.mask < 2 ^ (64 * n)) :
    wordsValue (valueToMaskWords v n) = v.mask := by
  unfold valueToMaskWords
  cases v.repr with
  | u64 =>
    obtain ⟨k, rfl⟩ : ∃ k, n = k + 1 := ⟨n - 1, by omega⟩
    rw [resize_cons, resize_nil]
    simp [wordsValue, wordsValue_replicate]
  | big => rw [wordsValue_resize_digits, Nat.mod_eq_of_lt hc]

/-! #### `mask_top_word` -/

theorem modifyLast_length (f : Nat → Nat) : ∀ ws : List Nat, (modifyLast f ws).length = ws.length
  | [] => rfl
  | [_] => rfl
  | w :: w' :: ws => by simp [modifyLast, modifyLast_length f (w' :: ws)]

theorem modifyLast_lt (f : Nat → Nat) (hf : ∀ x, x < two64 → f x < two64) :
    ∀ ws : List Nat, (∀ w ∈ ws, w < two64) → ∀ w ∈ modifyLast f ws, w < two64
  | [], _ => by intro w hw; simp [modifyLast] at hw
  | [a], h => by
    intro w hw; simp [modifyLast] at hw; subst hw; exact hf a (h a (by simp))
  | a :: b :: ws, h => by
    intro w hw
    simp only [modifyLast, List.mem_cons] at hw
    rcases hw with rfl | hw
    · exact h _ (by simp)
    · exact modifyLast_lt f hf (b :: ws) (fun x hx => h x (by simp [List.mem_cons] at hx ⊢; right; exact hx)) w
        (by simpa [List.mem_cons] using hw)

/-- The value of a list whose last word is replaced. -/
theorem wordsValue_modifyLast (f : Nat → Nat) : ∀ (ws : List Nat) (l : Nat),
    wordsValue (modifyLast f (ws ++ [l])) = wordsValue ws + 2 ^ (64 * ws.length) * f l
  | [], l => by simp [modifyLast, wordsValue]
  | [a], l => by
    simp only [List.cons_append, List.nil_append, modifyLast, wordsValue, List.length_cons, List.length_nil]
    rw [two64_eq]; simp
  | a :: b :: ws, l => by
    have ih := wordsValue_modifyLast f (b :: ws) l
    simp only [List.cons_append] at ih ⊢
    simp only [modifyLast, wordsValue] at ih ⊢
    rw [ih]
    simp only [wordsValue, List.length_cons]
    have e : 64 * (ws.length + 1 + 1) = 64 + 64 * (ws.length + 1) := by omega
    rw [e, Nat.pow_add, ← two64_eq, Nat.mul_add, Nat.mul_add, Nat.mul_assoc]
    omega

theorem wordsValue_snoc (ws : List Nat) (l : Nat) :
    wordsValue (ws ++ [l]) = wordsValue ws + 2 ^ (64 * ws.length) * l := by
  have := wordsValue_modifyLast id ws l
  have e : modifyLast id (ws ++ [l]) = ws ++ [l] := by
    clear this
    induction ws with
    | nil => rfl
    | cons a ws ih =>
      cases ws with
      | nil => rfl
      | cons b ws => simp only [List.cons_append] at ih ⊢; simp only [modifyLast, ih]
  rw [e] at this
  simpa using this

theorem shift_mask (rem : Nat) (h0 : 0 < rem) (h : rem < 64) : (two64 - 1) >>> (64 - rem) = 2 ^ rem - 1 := by
  rw [Nat.shiftRight_eq_div_pow]
  have hQ : 0 < 2 ^ (64 - rem) := Nat.two_pow_pos _
  have hPQ : 2 ^ rem * 2 ^ (64 - rem) = two64 := by
    rw [← Nat.pow_add, two64_eq]; congr 1; omega
  have hP : 0 < 2 ^ rem := Nat.two_pow_pos _
  generalize 2 ^ rem = P at *
  generalize 2 ^ (64 - rem) = Q at *
  have e : two64 - 1 = Q * (P - 1) + (Q - 1) := by
    rw [Nat.mul_sub_one, Nat.mul_comm Q P, hPQ]
    have : Q ≤ P * Q := Nat.le_mul_of_pos_left Q hP
    omega
  rw [e, Nat.mul_add_div hQ, Nat.div_eq_of_lt (by omega)]
  omega

/-- `mask_top_word` keeps exactly the low `width` bits of a port-sized word list. -/
theorem maskTopWord_spec (ws : List Nat) (width : Nat) (hg : Good ws (wordsFor width)) :
    Good (maskTopWord ws width) (wordsFor width) ∧
    wordsValue (maskTopWord ws width) = wordsValue ws % 2 ^ width := by
  obtain ⟨hl, hlt⟩ := hg
  have hn := wordsFor_pos width
  -- split off the last word
  obtain ⟨init, l, rfl⟩ : ∃ init l, ws = init ++ [l] := by
    have hne : ws ≠ [] := by intro h; rw [h] at hl; simp at hl; omega
    exact ⟨ws.dropLast, ws.getLast hne, (List.dropLast_concat_getLast hne).symm⟩
  have hil : init.length + 1 = wordsFor width := by simpa using hl
  have hinit : ∀ w ∈ init, w < two64 := fun w hw => hlt w (by simp [hw])
  have hlast : l < two64 := hlt l (by simp)
  have hiv := wordsValue_lt init hinit
  unfold maskTopWord
  by_cases h0 : width = 0
  · subst h0
    have : init.length = 0 := by have := wordsFor_small 0 (by decide); omega
    have hi : init = [] := List.length_eq_zero_iff.mp this
    subst hi
    simp [modifyLast, wordsValue, Good, wordsFor, Nat.mod_one]
    decide
  · simp only [h0, if_false]
    by_cases hrem : width % 64 ≠ 0
    · simp only [hrem, ne_eq, not_false_eq_true, if_true]
      have hr0 : 0 < width % 64 := Nat.pos_of_ne_zero hrem
      have hr64 : width % 64 < 64 := Nat.mod_lt _ (by decide)
      have hf : ∀ x, x &&& ((two64 - 1) >>> (64 - width % 64)) = x % 2 ^ (width % 64) := by
        intro x; rw [shift_mask _ hr0 hr64, Nat.and_two_pow_sub_one_eq_mod]
      refine ⟨⟨by rw [modifyLast_length]; exact hl, ?_⟩, ?_⟩
      · apply modifyLast_lt _ _ _ hlt
        intro x hx; rw [hf]; exact Nat.lt_of_le_of_lt (Nat.mod_le _ _) hx
      · rw [wordsValue_modifyLast, wordsValue_snoc, hf]
        -- width = 64 * init.length + rem
        have hw : width = 64 * init.length + width % 64 := by
          have h1 := wordsFor_ge width
          have h2 := wordsFor_tight width (Nat.pos_of_ne_zero h0)
          have h3 := Nat.div_add_mod width 64
          omega
        generalize width % 64 = r at *
        rw [hw, Nat.pow_add, Nat.mod_mul]
        have e1 : (wordsValue init + 2 ^ (64 * init.length) * l) % 2 ^ (64 * init.length) = wordsValue init := by
          rw [Nat.add_mul_mod_self_left, Nat.mod_eq_of_lt hiv]
        have e2 : (wordsValue init + 2 ^ (64 * init.length) * l) / 2 ^ (64 * init.length) = l := by
          rw [Nat.add_mul_div_left _ _ (Nat.two_pow_pos _), Nat.div_eq_of_lt hiv]; simp
        rw [e1, e2]
    · have hrem' : width % 64 = 0 := by omega
      simp only [hrem', ne_eq, not_true_eq_false, if_false]
      refine ⟨⟨hl, hlt⟩, ?_⟩
      have hw : width = 64 * (init ++ [l]).length := by
        have h1 := wordsFor_ge width
        have h2 := wordsFor_tight width (Nat.pos_of_ne_zero h0)
        rw [hl]; omega
      have := wordsValue_lt (init ++ [l]) hlt
      rw [← hw] at this
      exact (Nat.mod_eq_of_lt this).symm

theorem modifyLast_id : ∀ ws : List Nat, modifyLast id ws = ws
  | [] => rfl
  | [_] => rfl
  | a :: b :: ws => by simp only [modifyLast, modifyLast_id (b :: ws)]

theorem modifyLast_congr (f g : Nat → Nat) : ∀ ws : List Nat, (∀ w ∈ ws, f w = g w) →
    modifyLast f ws = modifyLast g ws
  | [], _ => rfl
  | [a], h => by simp [modifyLast, h a (by simp)]
  | a :: b :: ws, h => by
    simp only [modifyLast]
    rw [modifyLast_congr f g (b :: ws) (fun w hw => h w (by simp [List.mem_cons] at hw ⊢; right; exact hw))]

/-- `write_words` masks exactly like `mask_top_word`: on a port-sized `u64` buffer the two coincide
(in particular when `width` is a multiple of 64 the top word is kept whole). -/
theorem writeWordsBuf_eq_maskTopWord (ws : List Nat) (width : Nat) (hg : Good ws (wordsFor width)) :
    writeWordsBuf ws width = maskTopWord ws width := by
  obtain ⟨hl, hlt⟩ := hg
  unfold writeWordsBuf maskTopWord
  dsimp only
  rw [List.take_of_length_le (Nat.le_of_eq hl)]
  by_cases h0 : width = 0
  · subst h0
    simp only [if_true]
    apply modifyLast_congr
    intro w _
    simp [wordsFor]
  · simp only [h0, if_false]
    have h1 := wordsFor_ge width
    have h2 := wordsFor_tight width (Nat.pos_of_ne_zero h0)
    by_cases hrem : width % 64 ≠ 0
    · simp only [hrem, ne_eq, not_false_eq_true, if_true]
      have hr64 : width % 64 < 64 := Nat.mod_lt _ (by decide)
      have htb : width - 64 * (wordsFor width - 1) = width % 64 := by
        have := Nat.div_add_mod width 64; omega
      rw [htb, if_neg (by omega), shift_mask _ (Nat.pos_of_ne_zero hrem) hr64, Nat.one_shiftLeft]
    · have hrem' : width % 64 = 0 := by omega
      simp only [hrem', ne_eq, not_true_eq_false, if_false]
      have htb : width - 64 * (wordsFor width - 1) = 64 := by
        have := Nat.div_add_mod width 64; omega
      rw [htb, if_pos (Nat.le_refl 64)]
      -- `last & u64::MAX = last`
      have hid : modifyLast (fun last => last &&& (two64 - 1)) ws = modifyLast id ws := by
        apply modifyLast_congr
        intro w hw
        have : two64 - 1 = 2 ^ 64 - 1 := by decide
        rw [this, Nat.and_two_pow_sub_one_eq_mod, ← two64_eq]
        exact Nat.mod_eq_of_lt (hlt w hw)
      rw [hid, modifyLast_id]

theorem and_widthMask (x w : Nat) (hw : w ≤ 64) : x &&& widthMask w = x % 2 ^ w := by
  unfold widthMask
  split
  · have : w = 64 := by omega
    subst this
    have : two64 - 1 = 2 ^ 64 - 1 := by decide
    rw [this, Nat.and_two_pow_sub_one_eq_mod]
  · rw [Nat.one_shiftLeft, Nat.and_two_pow_sub_one_eq_mod]

/-! #### little-endian bytes and linear memory -/

theorem leBytes8_length (x : Nat) : (leBytes8 x).length = 8 := by simp [leBytes8]

theorem leWord_leBytes8 (x : Nat) (h : x < two64) : leWord (leBytes8 x) = x := by
  simp only [leBytes8, List.range, List.range.loop, List.map, leWord, Nat.shiftRight_eq_div_pow]
  simp only [two64] at h
  omega

theorem bytesToWords_append (x : Nat) (rest : List Nat) (h : x < two64) :
    bytesToWords (leBytes8 x ++ rest) = x :: bytesToWords rest := by
  rw [bytesToWords]
  have hne : leBytes8 x ++ rest ≠ [] := by
    intro hh
    have := congrArg List.length hh
    simp [leBytes8_length] at this
  simp only [hne, dite_false]
  rw [List.take_left' (leBytes8_length x), List.drop_left' (leBytes8_length x), leWord_leBytes8 x h]

theorem bytesToWords_nil : bytesToWords [] = [] := by rw [bytesToWords]; simp

theorem bytes_roundtrip : ∀ ws : List Nat, (∀ w ∈ ws, w < two64) → bytesToWords (wordsToBytes ws) = ws := by
  intro ws
  induction ws with
  | nil => intro _; simp [wordsToBytes, bytesToWords_nil]
  | cons w ws ih =>
    intro h
    have := ih (fun x hx => h x (by simp [hx]))
    simp only [wordsToBytes, List.flatMap_cons] at this ⊢
    rw [bytesToWords_append w _ (h w (by simp)), this]

theorem wordsToBytes_length (ws : List Nat) : (wordsToBytes ws).length = ws.length * 8 := by
  induction ws with
  | nil => rfl
  | cons w ws ih =>
    simp only [wordsToBytes, List.flatMap_cons, List.length_append, leBytes8_length, List.length_cons] at ih ⊢
    omega

theorem mem_read_after_write (mem : List Nat) (ptr : Nat) (bytes mem' : List Nat)
    (h : memWrite mem ptr bytes = some mem') :
    mem'.length = mem.length ∧ memRead mem' ptr bytes.length = some bytes := by
  unfold memWrite at h
  split at h
  · rename_i hle
    simp only [Option.some.injEq] at h
    subst h
    have hlen : (mem.take ptr ++ bytes ++ mem.drop (ptr + bytes.length)).length = mem.length := by
      simp only [List.length_append, List.length_take, List.length_drop]; omega
    refine ⟨hlen, ?_⟩
    unfold memRead
    rw [hlen, if_pos hle]
    have hp : (mem.take ptr).length = ptr := by simp; omega
    rw [List.append_assoc, List.drop_left' hp, List.take_left' rfl]
  · simp at h

/-- A later write outside a range leaves it intact. -/
theorem mem_read_other (mem : List Nat) (ptr : Nat) (bytes mem' : List Nat) (q len : Nat)
    (h : memWrite mem ptr bytes = some mem') (hd : q + len ≤ ptr ∨ ptr + bytes.length ≤ q) :
    memRead mem' q len = memRead mem q len := by
  unfold memWrite at h
  split at h
  · rename_i hle
    simp only [Option.some.injEq] at h
    subst h
    have hlen : (mem.take ptr ++ bytes ++ mem.drop (ptr + bytes.length)).length = mem.length := by
      simp only [List.length_append, List.length_take, List.length_drop]; omega
    unfold memRead
    rw [hlen]
    split
    · rename_i hin
      congr 1
      apply List.ext_getElem
      · simp only [List.length_take, List.length_drop, List.length_append]; omega
      · intro i h1 h2
        simp only [List.length_take, List.length_drop, List.length_append] at h1 h2
        simp only [List.getElem_take, List.getElem_drop]
        rcases hd with hd | hd
        · rw [List.getElem_append_left (by simp only [List.length_take, List.length_append]; omega),
            List.getElem_append_left (by simp only [List.length_take]; omega)]
          simp
        · rw [List.getElem_append_right (by simp only [List.length_take, List.length_append]; omega)]
          simp only [List.getElem_drop, List.length_append, List.length_take]
          congr 1
          omega
    · rfl
  · simp at h

theorem pow_width_le (w : Nat) : 2 ^ w ≤ 2 ^ (64 * wordsFor w) :=
  Nat.pow_le_pow_right (by decide) (wordsFor_ge w)


theorem wordsValue_zero : ∀ ws : List Nat, wordsValue ws = 0 → ws = List.replicate ws.length 0 := by
  intro ws
  induction ws with
  | nil => intro _; rfl
  | cons w ws ih =>
    intro h
    simp only [wordsValue] at h
    have hw : w = 0 := by omega
    have hv : wordsValue ws = 0 := by
      have : two64 * wordsValue ws = 0 := by omega
      rcases Nat.mul_eq_zero.mp this with h' | h'
      · exact absurd h' (by decide)
      · exact h'
    rw [hw, List.length_cons, List.replicate_succ, ← ih hv]

theorem resize_digits_wordsValue : ∀ ws : List Nat, (∀ w ∈ ws, w < two64) →
    resize (u64Digits (wordsValue ws)) ws.length = ws := by
  intro ws
  induction ws with
  | nil => intro _; simp [resize]
  | cons w ws ih =>
    intro h
    have hw := h w (by simp)
    have ih' := ih (fun x hx => h x (by simp [hx]))
    rw [u64Digits]
    split
    · rename_i hz
      rw [resize_nil]
      exact (wordsValue_zero _ hz).symm
    · simp only [wordsValue, List.length_cons]
      rw [resize_cons]
      have e1 : (w + two64 * wordsValue ws) % two64 = w := by
        rw [Nat.add_mul_mod_self_left]; exact Nat.mod_eq_of_lt hw
      have e2 : (w + two64 * wordsValue ws) / two64 = wordsValue ws := by
        rw [Nat.add_mul_div_left _ _ (by decide), Nat.div_eq_of_lt hw]; simp
      rw [e1, e2, ih']


end VerylModel.Words
