/-
C21 — soundness of the whole `rewrite` pass (`Core/AigRewrite.lean`): `add_input`, coverage of the
enumerated cuts (`merge_cuts` computes the union of two leaf sets; sorting, de-duplication and
truncation only select), the main loop (`EdgeInv`), liveness and `compact`.
-/
import VerylModel.Core.AigRewrite
import VerylModel.Lemmas.Aig

namespace VerylModel.Lemmas.AigRewrite
open VerylModel.Gen.Npn VerylModel.Core.Npn VerylModel.Core.Aig VerylModel.Core.AigRewrite
open VerylModel.Lemmas.Npn VerylModel.Lemmas.Aig

/-! ### `add_input` -/

theorem isInput_iff (o : Nat) (n : Node) : isInput o n = true ↔ n = Node.input o := by
  cases n <;> simp [isInput]

theorem addInput_has {g : Aig} (hg : Good g) (o : Nat) :
    Extends g (addInput g o).1 ∧ Has (addInput g o).1 (addInput g o).2 (fun env => env o) := by
  unfold addInput
  cases hf : g.nodes.findIdx? (isInput o) with
  | some idx =>
    simp only []
    obtain ⟨hlt, hp, _⟩ := List.findIdx?_eq_some_iff_getElem.mp hf
    have hnode : g.nodes[idx]? = some (Node.input o) := by
      rw [List.getElem?_eq_getElem hlt, (isInput_iff o _).mp hp]
    refine ⟨Extends.refl hg, by rw [eNode_eNew]; exact hlt, ?_⟩
    intro env
    unfold edgeVal
    rw [eNode_eNew, eNeg_eNew, val_input env hnode]; simp
  | none =>
    simp only []
    have hgood : Good { g with nodes := g.nodes ++ [Node.input o] } := by
      refine ⟨?_, topo_snoc_input hg.2 o⟩
      show (g.nodes ++ [Node.input o])[0]? = _
      rw [List.getElem?_append_left (good_pos hg)]; exact hg.1
    refine ⟨⟨⟨[Node.input o], rfl⟩, hgood, rfl⟩, ?_, ?_⟩
    · rw [eNode_eNew]; simp
    · intro env
      show edgeVal (evalNodes env (g.nodes ++ [Node.input o])) _ = _
      rw [evalNodes_snoc]
      unfold edgeVal
      rw [eNode_eNew, eNeg_eNew, List.getD_eq_getElem?_getD,
        List.getElem?_append_right (by rw [evalNodes_length]; exact Nat.le_refl _), evalNodes_length]
      simp [nodeVal]

/-! ### Coverage -/

/-- `leaves` is a cut of node `i`: every path from `i` towards the inputs meets a leaf or the constant. -/
def Covers (nodes : List Node) (leaves : List Nat) (i : Nat) : Prop :=
  (coveredVals leaves nodes).getD i false = true

theorem coveredVals_prefix (leaves : List Nat) (ns ms : List Node) {i : Nat} (hi : i < ns.length) :
    (coveredVals leaves (ns ++ ms)).getD i false = (coveredVals leaves ns).getD i false := by
  induction ms using snoc_induction with
  | hnil => simp
  | hsnoc l a ih =>
    rw [← List.append_assoc, coveredVals_snoc, getD_append_left' _ _ _ (by rw [coveredVals_length, List.length_append]; omega), ih]

theorem covers_append {nodes : List Node} (ms : List Node) {leaves : List Nat} {i : Nat} (hi : i < nodes.length) :
    Covers (nodes ++ ms) leaves i ↔ Covers nodes leaves i := by
  unfold Covers; rw [coveredVals_prefix leaves nodes ms hi]

/-- Unfolding of the forward pass at one node. -/
theorem coveredVals_at (leaves : List Nat) {nodes : List Node} {i : Nat} {n : Node} (h : nodes[i]? = some n) :
    (coveredVals leaves nodes).getD i false = coveredNode leaves (coveredVals leaves (nodes.take i)) i n := by
  obtain ⟨h1, h2⟩ := split_at h
  have e : nodes = (nodes.take i ++ [n]) ++ nodes.drop (i + 1) := by rw [List.append_assoc]; exact h1
  have hi : i < (nodes.take i ++ [n]).length := by rw [List.length_append, h2]; simp
  rw [e, coveredVals_prefix leaves _ _ hi, coveredVals_snoc, getD_snoc, coveredVals_length, h2]
  simp only [Nat.lt_irrefl, if_false, if_true]
  rw [← e]

theorem covers_leaf {nodes : List Node} {leaves : List Nat} {i : Nat} (hi : i < nodes.length) (hm : i ∈ leaves) :
    Covers nodes leaves i := by
  unfold Covers
  have h : nodes[i]? = some nodes[i] := List.getElem?_eq_getElem hi
  rw [coveredVals_at leaves h]
  unfold coveredNode
  rw [List.contains_iff_mem.mpr hm]; rfl

theorem covers_and {nodes : List Node} (ht : Topo nodes) {leaves : List Nat} {i a b : Nat}
    (h : nodes[i]? = some (Node.and a b)) (ha : Covers nodes leaves (eNode a)) (hb : Covers nodes leaves (eNode b)) :
    Covers nodes leaves i := by
  obtain ⟨hai, hbi⟩ := ht i a b h
  obtain ⟨h1, h2⟩ := split_at h
  unfold Covers at *
  rw [coveredVals_at leaves h]
  unfold coveredNode
  have e : nodes = nodes.take i ++ (Node.and a b :: nodes.drop (i + 1)) := h1
  rw [e, coveredVals_prefix leaves _ _ (by omega)] at ha hb
  simp only [ha, hb]; simp

theorem covers_mono {leaves leaves' : List Nat} (hsub : ∀ x ∈ leaves, x ∈ leaves') :
    ∀ (nodes : List Node) (i : Nat), Covers nodes leaves i → Covers nodes leaves' i := by
  intro nodes
  induction nodes using snoc_induction with
  | hnil => intro i h; simp [Covers, coveredVals] at h
  | hsnoc ns n ih =>
    intro i h
    unfold Covers at h ⊢
    by_cases hi : i < ns.length
    · rw [coveredVals_prefix _ _ _ hi] at h ⊢
      exact ih i h
    · rw [coveredVals_snoc, getD_snoc, coveredVals_length] at h ⊢
      rw [if_neg hi] at h ⊢
      by_cases hi2 : i = ns.length
      · rw [if_pos hi2] at h ⊢
        unfold coveredNode at h ⊢
        simp only [Bool.or_eq_true] at h ⊢
        rcases h with h | h
        · left
          rw [List.contains_iff_mem] at h ⊢
          exact hsub _ h
        · right
          cases n with
          | const => rfl
          | input o => simp at h
          | and a b =>
            simp only [Bool.and_eq_true] at h ⊢
            have ha : Covers ns leaves' (eNode a) := ih _ h.1
            have hb : Covers ns leaves' (eNode b) := ih _ h.2
            exact ⟨ha, hb⟩
      · rw [if_neg hi2] at h; simp at h

/-! ### `merge_cuts`, `enumerate_cuts` produce cuts -/

theorem mergeLoop_mem (l1 l2 out : List Nat) :
    ∀ r, mergeLoop l1 l2 out = some r → ∀ x, x ∈ r ↔ (x ∈ out ∨ x ∈ l1 ∨ x ∈ l2) := by
  fun_induction mergeLoop l1 l2 out with
  | case1 out => intro r h x; simp only [Option.some.injEq] at h; subst h; simp
  | case2 a as out hc => intro r h; simp at h
  | case3 a as out hc ih =>
    intro r h x
    rw [ih r h x]; simp only [List.mem_append, List.mem_cons, List.not_mem_nil]; grind
  | case4 b bs out hc => intro r h; simp at h
  | case5 b bs out hc ih =>
    intro r h x
    rw [ih r h x]; simp only [List.mem_append, List.mem_cons, List.not_mem_nil]; grind
  | case6 a as b bs out hc => intro r h; simp at h
  | case7 a as b bs out hc hlt ih =>
    intro r h x
    rw [ih r h x]; simp only [List.mem_append, List.mem_cons, List.not_mem_nil]; grind
  | case8 a as b bs out hc hlt hgt ih =>
    intro r h x
    rw [ih r h x]; simp only [List.mem_append, List.mem_cons, List.not_mem_nil]; grind
  | case9 a as b bs out hc hlt hgt ih =>
    intro r h x
    have hab : a = b := by omega
    subst hab
    rw [ih r h x]; simp only [List.mem_append, List.mem_cons, List.not_mem_nil]; grind

/-- What `enumerate_cuts` guarantees about a cut `c` listed for node `i`. -/
def CutOk (nodes : List Node) (i : Nat) (c : Cut) : Prop :=
  c.leaves = [i] ∨ ((∀ l ∈ c.leaves, l < i) ∧ Covers nodes c.leaves i)

theorem dedupLeaves_mem (l : List Cut) : ∀ c ∈ dedupLeaves l, c ∈ l := by
  unfold dedupLeaves
  have : ∀ (init : List Cut), (∀ c ∈ init, c ∈ init ∨ c ∈ l) →
      ∀ c ∈ l.foldl (fun out c => match out.getLast? with
        | some p => if c.leaves == p.leaves then out else out ++ [c]
        | none => [c]) init, c ∈ init ∨ c ∈ l := by
    induction l with
    | nil => intro init _ c hc; exact Or.inl hc
    | cons a rest ih =>
      intro init _ c hc
      simp only [List.foldl_cons] at hc
      have := ih _ (fun c hc => Or.inl hc) c hc
      rcases this with h | h
      · cases hl : init.getLast? with
        | none => rw [hl] at h; simp at h; right; simp [h]
        | some p =>
          rw [hl] at h
          simp only [] at h
          split at h
          · exact Or.inl h
          · rcases List.mem_append.mp h with h | h
            · exact Or.inl h
            · right; simp at h; simp [h]
      · right; exact List.mem_cons_of_mem _ h
  intro c hc
  rcases this [] (fun c hc => Or.inl hc) c hc with h | h
  · simp at h
  · exact h

theorem andCuts_mem {i : Nat} {ca cb : List Cut} {c : Cut} (h : c ∈ andCuts i ca cb) :
    c = ⟨[i], 0⟩ ∨ ∃ x ∈ ca, ∃ y ∈ cb, mergeCuts x y = some c := by
  unfold andCuts at h
  simp only [] at h
  have h1 := List.mem_of_mem_take h
  rw [List.mem_mergeSort] at h1
  have h2 := dedupLeaves_mem _ c h1
  rw [List.mem_mergeSort, List.mem_append] at h2
  rcases h2 with h2 | h2
  · right
    rw [List.mem_flatMap] at h2
    obtain ⟨x, hx, h3⟩ := h2
    rw [List.mem_filterMap] at h3
    obtain ⟨y, hy, h4⟩ := h3
    exact ⟨x, hx, y, hy, h4⟩
  · left; simpa using h2

theorem enumerateCuts_snoc (ns : List Node) (n : Node) :
    enumerateCuts (ns ++ [n]) = enumerateCuts ns ++
      [match n with
       | .and f0 f1 => andCuts (enumerateCuts ns).length ((enumerateCuts ns).getD (eNode f0) []) ((enumerateCuts ns).getD (eNode f1) [])
       | _ => [⟨[(enumerateCuts ns).length], 0⟩]] := by
  unfold enumerateCuts
  rw [List.foldl_append]
  simp only [List.foldl_cons, List.foldl_nil]
  cases n <;> rfl

theorem enumerateCuts_length (ns : List Node) : (enumerateCuts ns).length = ns.length := by
  induction ns using snoc_induction with
  | hnil => rfl
  | hsnoc l a ih => rw [enumerateCuts_snoc, List.length_append, ih]; simp

theorem cutOk_append {nodes : List Node} (ms : List Node) {i : Nat} {c : Cut} (hi : i < nodes.length)
    (h : CutOk nodes i c) : CutOk (nodes ++ ms) i c := by
  rcases h with h | ⟨h1, h2⟩
  · exact Or.inl h
  · exact Or.inr ⟨h1, (covers_append ms hi).mpr h2⟩

/-- Every cut `enumerate_cuts` lists is a cut: the trivial one, or leaves strictly below the node that
cover it. (Sorting, de-duplication and truncation only select among the candidates.) -/
theorem enumerateCuts_ok : ∀ (nodes : List Node), Topo nodes →
    ∀ i, ∀ c ∈ (enumerateCuts nodes).getD i [], CutOk nodes i c := by
  intro nodes
  induction nodes using snoc_induction with
  | hnil => intro _ i c hc; simp [enumerateCuts] at hc
  | hsnoc ns n ih =>
    intro ht i c hc
    have htp := topo_prefix ht
    rw [enumerateCuts_snoc, getD_snoc, enumerateCuts_length] at hc
    by_cases hi : i < ns.length
    · rw [if_pos hi] at hc
      exact cutOk_append [n] hi (ih htp i c hc)
    · rw [if_neg hi] at hc
      by_cases hi2 : i = ns.length
      · subst hi2
        rw [if_pos rfl] at hc
        cases n with
        | const => simp at hc; left; rw [hc]
        | input o => simp at hc; left; rw [hc]
        | and f0 f1 =>
          simp only [] at hc
          obtain ⟨ha, hb⟩ := ht ns.length f0 f1 (by simp)
          rcases andCuts_mem hc with h | ⟨x, hx, y, hy, hm⟩
          · left; rw [h]
          · right
            have okx := ih htp (eNode f0) x hx
            have oky := ih htp (eNode f1) y hy
            unfold mergeCuts at hm
            cases hml : mergeLoop x.leaves y.leaves [] with
            | none => rw [hml] at hm; simp at hm
            | some r =>
              rw [hml] at hm
              simp only [Option.map_some, Option.some.injEq] at hm
              have hmem := mergeLoop_mem _ _ _ r hml
              have hcl : c.leaves = r := by rw [← hm]
              have hsubx : ∀ l ∈ x.leaves, l ∈ c.leaves := fun l hl => by rw [hcl, hmem]; exact Or.inr (Or.inl hl)
              have hsuby : ∀ l ∈ y.leaves, l ∈ c.leaves := fun l hl => by rw [hcl, hmem]; exact Or.inr (Or.inr hl)
              have side : ∀ (f z : Nat) (zc : Cut), z = eNode f → z < ns.length → CutOk ns z zc →
                  (∀ l ∈ zc.leaves, l ∈ c.leaves) →
                  (∀ l ∈ zc.leaves, l < ns.length) ∧ Covers (ns ++ [Node.and f0 f1]) c.leaves z := by
                intro f z zc _ hz ok hsub
                rcases ok with h | ⟨h1, h2⟩
                · refine ⟨fun l hl => by rw [h] at hl; simp at hl; omega, ?_⟩
                  exact covers_leaf (by rw [List.length_append]; omega) (hsub z (by rw [h]; simp))
                · refine ⟨fun l hl => Nat.lt_trans (h1 l hl) hz, ?_⟩
                  exact (covers_append _ hz).mpr (covers_mono hsub ns z h2)
              obtain ⟨lx, cx⟩ := side f0 _ x rfl ha okx hsubx
              obtain ⟨ly, cy⟩ := side f1 _ y rfl hb oky hsuby
              refine ⟨?_, covers_and ht (by simp) cx cy⟩
              intro l hl
              rw [hcl, hmem] at hl
              rcases hl with hl | hl | hl
              · simp at hl
              · exact lx l hl
              · exact ly l hl
      · rw [if_neg hi2] at hc; simp at hc

/-! ### The main loop of `rewrite` -/

/-- `new_edge[i]` computes, in the new graph, the function of old node `i` (for every node emitted so far). -/
def EdgeInv (old : List Node) (g : Aig) (ne : List Nat) : Prop :=
  ∀ i, i < ne.length → Has g (ne.getD i const0) (fun env => (evalNodes env old).getD i false)

theorem EdgeInv.mono {old : List Node} {g g' : Aig} {ne : List Nat} (h : EdgeInv old g ne) (hx : Extends g g') :
    EdgeInv old g' ne := fun i hi => (h i hi).mono hx

theorem EdgeInv.snoc {old : List Node} {g : Aig} {ne : List Nat} (h : EdgeInv old g ne) {e : Nat}
    (he : Has g e (fun env => (evalNodes env old).getD ne.length false)) : EdgeInv old g (ne ++ [e]) := by
  intro i hi
  rw [getD_snoc]
  by_cases h1 : i < ne.length
  · rw [if_pos h1]; exact h i h1
  · have : i = ne.length := by rw [List.length_append] at hi; simp at hi; omega
    rw [if_neg h1, if_pos this, this]; exact he

/-- The library maps a key to a pattern computing that key (checked entry by entry by `hxaig lib`). -/
def LibOk (lib : Nat → Option Pattern) : Prop := ∀ k p, lib k = some p → p.tt = k

theorem varTt_getD_lt (pos : Nat) : varTt.getD pos 0 < 65536 := by
  match pos with
  | 0 => decide
  | 1 => decide
  | 2 => decide
  | 3 => decide
  | k + 4 => simp [varTt]

theorem cutTtVals_lt (leaves : List Nat) (nodes : List Node) : ∀ v ∈ cutTtVals leaves nodes, v < 65536 := by
  induction nodes using snoc_induction with
  | hnil => intro v hv; simp [cutTtVals] at hv
  | hsnoc ns n ih =>
    intro v hv
    rw [cutTtVals_snoc, List.mem_append] at hv
    rcases hv with hv | hv
    · exact ih v hv
    · simp only [List.mem_singleton] at hv
      subst hv
      have hg : ∀ i, (cutTtVals leaves ns).getD i 0 < 65536 := by
        intro i
        rw [List.getD_eq_getElem?_getD]
        cases hi : (cutTtVals leaves ns)[i]? with
        | none => simp
        | some x => simpa using ih x (List.mem_of_getElem? hi)
      unfold cutTtNode
      split
      · exact varTt_getD_lt _
      · cases n with
        | const => simp
        | input o => simp
        | and a b =>
          simp only []
          apply Nat.lt_of_le_of_lt Nat.and_le_left
          split
          · exact not16_lt (hg _)
          · exact hg _

theorem cutTt_lt {nodes : List Node} {root : Nat} {leaves : List Nat} {f : Nat}
    (h : cutTt nodes root leaves = some f) : f < 65536 := by
  unfold cutTt at h
  split at h
  · simp at h
  split at h
  · simp at h
  simp only [Option.some.injEq] at h
  subst h
  rw [List.getD_eq_getElem?_getD]
  cases hi : (cutTtVals leaves (nodes.take (root + 1)))[root]? with
  | none => simp
  | some x => simpa using cutTtVals_lt _ _ x (List.mem_of_getElem? hi)

/-- Invariant of the loop of `try_library_rewrite`: only appends nodes; `best`, if set, computes the root. -/
def BestOk (old : List Node) (root : Nat) (g0 : Aig) (st : Aig × Option (Nat × Nat)) : Prop :=
  Extends g0 st.1 ∧ ∀ bs e, st.2 = some (bs, e) → Has st.1 e (fun env => (evalNodes env old).getD root false)

theorem tryCut_ok (lib : Nat → Option Pattern) (hlib : LibOk lib) (old : List Node) (hto : Topo old)
    (root : Nat) (hroot : root < old.length) (ne : List Nat) (hne : ne.length = root)
    (g0 : Aig) (hinv : EdgeInv old g0 ne) (st : Aig × Option (Nat × Nat)) (hst : BestOk old root g0 st)
    (cut : Cut) (hcut : CutOk old root cut) :
    BestOk old root g0 (tryCut lib old root ne st cut) := by
  unfold tryCut
  split
  · exact hst
  rename_i hlen
  simp only [Bool.or_eq_true, decide_eq_true_eq, not_or, Nat.not_lt] at hlen
  cases hf : cutTt old root cut.leaves with
  | none => exact hst
  | some tt =>
    simp only []
    cases hl : lib (npnCanonical tt).1 with
    | none => exact hst
    | some pat =>
      simp only []
      split
      · exact hst
      -- the cut is not the trivial one (it has ≥ 2 leaves)
      rcases hcut with htriv | ⟨hlt, hcov⟩
      · rw [htriv] at hlen; simp at hlen
      have hg := hst.1.good
      have hinv' := hinv.mono hst.1
      obtain ⟨s1, s2, _⟩ := npnCanonical_spec tt (cutTt_lt hf)
      have hcov' : (coveredVals cut.leaves (old.take (root + 1))).getD root false = true := by
        have e : old = old.take (root + 1) ++ old.drop (root + 1) := (List.take_append_drop _ _).symm
        have := hcov
        unfold Covers at this
        rw [e, coveredVals_prefix _ _ _ (by rw [List.length_take]; omega)] at this
        exact this
      have key := cut_replace old hto root hroot cut.leaves hlen.2 hcov' tt hf pat (npnCanonical tt).2
        ((mem_all768 _).mp s2).1 (by rw [hlib _ _ hl, s1]) st.1 hg
        (cut.leaves.map fun leaf => ne.getD leaf const0) (by simp) (by
          intro i hi
          have hli : cut.leaves.getD i 0 < ne.length := by
            rw [hne]; apply hlt
            rw [List.getD_eq_getElem?_getD, List.getElem?_eq_getElem hi]; simp
          have := hinv' _ hli
          have e1 : (cut.leaves.map fun leaf => ne.getD leaf const0).getD i const0
              = ne.getD (cut.leaves.getD i 0) const0 := by
            rw [List.getD_eq_getElem?_getD, List.getElem?_map, List.getElem?_eq_getElem hi,
              List.getD_eq_getElem?_getD (l := cut.leaves), List.getElem?_eq_getElem hi]
            rfl
          rw [e1]
          exact this)
      obtain ⟨x1, h1⟩ := key
      cases hb : st.2 with
      | none =>
        simp only []
        refine ⟨hst.1.trans x1, ?_⟩
        intro bs e he
        simp only [Option.some.injEq, Prod.mk.injEq] at he
        rw [← he.2]; exact h1
      | some be =>
        obtain ⟨bs0, e0⟩ := be
        simp only []
        split
        · refine ⟨hst.1.trans x1, ?_⟩
          intro bs e he
          simp only [Option.some.injEq, Prod.mk.injEq] at he
          rw [← he.2]
          exact (hst.2 bs0 e0 hb).mono x1
        · refine ⟨hst.1.trans x1, ?_⟩
          intro bs e he
          simp only [Option.some.injEq, Prod.mk.injEq] at he
          rw [← he.2]; exact h1

theorem tryLibraryRewrite_ok (lib : Nat → Option Pattern) (hlib : LibOk lib) (old : List Node) (hto : Topo old)
    (root : Nat) (hroot : root < old.length) (ne : List Nat) (hne : ne.length = root)
    (g0 : Aig) (hg : Good g0) (hinv : EdgeInv old g0 ne) (cuts : List Cut) (hcuts : ∀ c ∈ cuts, CutOk old root c) :
    Extends g0 (tryLibraryRewrite lib g0 old root cuts ne).1 ∧
      ∀ e, (tryLibraryRewrite lib g0 old root cuts ne).2 = some e →
        Has (tryLibraryRewrite lib g0 old root cuts ne).1 e (fun env => (evalNodes env old).getD root false) := by
  unfold tryLibraryRewrite
  simp only []
  have : ∀ (cs : List Cut) (st : Aig × Option (Nat × Nat)), (∀ c ∈ cs, CutOk old root c) →
      BestOk old root g0 st → BestOk old root g0 (cs.foldl (tryCut lib old root ne) st) := by
    intro cs
    induction cs with
    | nil => intro st _ h; exact h
    | cons c rest ih =>
      intro st hc h
      simp only [List.foldl_cons]
      exact ih _ (fun c' hc' => hc c' (List.mem_cons_of_mem _ hc'))
        (tryCut_ok lib hlib old hto root hroot ne hne g0 hinv st h c (hc c (List.mem_cons_self ..)))
  have hb := this cuts (g0, none) hcuts ⟨Extends.refl hg, fun bs e h => by simp at h⟩
  refine ⟨hb.1, ?_⟩
  intro e he
  cases hs : (cuts.foldl (tryCut lib old root ne) (g0, none)).2 with
  | none => rw [hs] at he; simp at he
  | some be =>
    rw [hs] at he
    simp only [Option.map_some, Option.some.injEq] at he
    rw [← he]
    exact hb.2 be.1 be.2 hs

theorem rewriteStep_ok (lib : Nat → Option Pattern) (hlib : LibOk lib) (old : List Node) (hto : Topo old)
    (cuts : List (List Cut)) (hcuts : ∀ i, ∀ c ∈ cuts.getD i [], CutOk old i c)
    (g : Aig) (hg : Good g) (ne : List Nat) (hinv : EdgeInv old g ne) (node : Node)
    (hnode : old[ne.length]? = some node) :
    Extends g (rewriteStep lib old cuts (g, ne) node).1 ∧
      EdgeInv old (rewriteStep lib old cuts (g, ne) node).1 (rewriteStep lib old cuts (g, ne) node).2 ∧
      (rewriteStep lib old cuts (g, ne) node).2.length = ne.length + 1 := by
  have hroot : ne.length < old.length := (List.getElem?_eq_some_iff.mp hnode).1
  unfold rewriteStep
  cases node with
  | const =>
    simp only []
    refine ⟨Extends.refl hg, hinv.snoc ?_, by simp⟩
    exact (has_const0 hg).congr (fun env => (val_const env hnode).symm)
  | input o =>
    simp only []
    obtain ⟨x1, h1⟩ := addInput_has hg o
    refine ⟨x1, (hinv.mono x1).snoc ?_, by simp⟩
    exact h1.congr (fun env => (val_input env hnode).symm)
  | and f0 f1 =>
    simp only []
    obtain ⟨x1, h1⟩ := tryLibraryRewrite_ok lib hlib old hto ne.length hroot ne rfl g hg hinv
      (cuts.getD ne.length []) (hcuts ne.length)
    cases hr : (tryLibraryRewrite lib g old ne.length (cuts.getD ne.length []) ne).2 with
    | some e =>
      simp only []
      exact ⟨x1, (hinv.mono x1).snoc (h1 e hr), by simp⟩
    | none =>
      simp only []
      obtain ⟨ha, hb⟩ := hto ne.length f0 f1 hnode
      have hinv' := hinv.mono x1
      have e0 := (hinv' _ ha).negateIf (eNeg f0)
      have e1 := (hinv' _ hb).negateIf (eNeg f1)
      obtain ⟨x2, h2⟩ := mkAnd_has x1.good e0 e1
      refine ⟨x1.trans x2, (hinv'.mono x2).snoc ?_, by simp⟩
      refine h2.congr ?_
      intro env
      rw [val_and env hto hnode]; rfl

theorem rewriteFold_ok (lib : Nat → Option Pattern) (hlib : LibOk lib) (old : List Node) (hto : Topo old)
    (cuts : List (List Cut)) (hcuts : ∀ i, ∀ c ∈ cuts.getD i [], CutOk old i c) :
    ∀ (rest pre : List Node) (g : Aig) (ne : List Nat), old = pre ++ rest → Good g → EdgeInv old g ne →
      ne.length = pre.length →
      Extends g (rest.foldl (rewriteStep lib old cuts) (g, ne)).1 ∧
        EdgeInv old (rest.foldl (rewriteStep lib old cuts) (g, ne)).1 (rest.foldl (rewriteStep lib old cuts) (g, ne)).2 ∧
        (rest.foldl (rewriteStep lib old cuts) (g, ne)).2.length = old.length := by
  intro rest
  induction rest with
  | nil =>
    intro pre g ne ho hg hinv hlen
    simp only [List.foldl_nil]
    exact ⟨Extends.refl hg, hinv, by rw [hlen, ho]; simp⟩
  | cons n rest ih =>
    intro pre g ne ho hg hinv hlen
    simp only [List.foldl_cons]
    have hnode : old[ne.length]? = some n := by
      rw [ho, hlen, List.getElem?_append_right (Nat.le_refl _)]; simp
    obtain ⟨x1, i1, l1⟩ := rewriteStep_ok lib hlib old hto cuts hcuts g hg ne hinv n hnode
    obtain ⟨x2, i2, l2⟩ := ih (pre ++ [n]) _ _ (by rw [ho]; simp) x1.good i1 (by rw [l1, hlen]; simp)
    exact ⟨x1.trans x2, i2, l2⟩

theorem good_new : Good Aig.new := ⟨rfl, fun i a b h => by
  cases i with
  | zero => simp [Aig.new] at h
  | succ i => simp [Aig.new] at h⟩

/-- Targets and values of the sinks of a graph under a valuation. -/
def sinkVals (env : Nat → Bool) (g : Aig) : List (Nat × Bool) :=
  g.sinks.map fun s => (s.1, edgeVal (evalNodes env g.nodes) s.2)

/-- `rewrite` before its final `compact`: every sink keeps its target and its function. -/
theorem rewriteNoCompact_sound (lib : Nat → Option Pattern) (hlib : LibOk lib) (old : Aig) (hto : Topo old.nodes)
    (hs : ∀ s ∈ old.sinks, eNode s.2 < old.nodes.length) (env : Nat → Bool) :
    Good (rewriteNoCompact lib old) ∧ sinkVals env (rewriteNoCompact lib old) = sinkVals env old := by
  obtain ⟨x, hinv, hlen⟩ := rewriteFold_ok lib hlib old.nodes hto (enumerateCuts old.nodes)
    (enumerateCuts_ok old.nodes hto) old.nodes [] Aig.new [] rfl good_new (fun i hi => by simp at hi) rfl
  refine ⟨x.good, ?_⟩
  unfold sinkVals rewriteNoCompact
  simp only [List.map_map]
  apply List.map_congr_left
  intro s hsm
  simp only [Function.comp_apply, Prod.mk.injEq, true_and]
  have h := (hinv (eNode s.2) (by rw [hlen]; exact hs s hsm)).negateIf (eNeg s.2)
  rw [h.2 env]; rfl

/-! ### `compact` -/

theorem getD_set_true (l : List Bool) (k j : Nat) :
    (l.set k true).getD j false = (l.getD j false || (decide (j = k) && decide (k < l.length))) := by
  rw [List.getD_eq_getElem?_getD, List.getD_eq_getElem?_getD, List.getElem?_set]
  by_cases h : k = j
  · subst h
    by_cases h2 : k < l.length
    · simp [h2]
    · simp [h2]
  · have : ¬ j = k := fun e => h e.symm
    simp [h, this]

/-- One step of the backward liveness scan. -/
def liveStep (nodes : List Node) (live : List Bool) (i : Nat) : List Bool :=
  if live.getD i false then
    match nodes.getD i Node.const with
    | .and a b => (live.set (eNode a) true).set (eNode b) true
    | _ => live
  else live

theorem liveNodes_eq (g : Aig) :
    liveNodes g = (List.range g.nodes.length).reverse.foldl (liveStep g.nodes)
      ((List.range g.nodes.length).map fun i => g.sinks.any fun s => eNode s.2 == i) := rfl

theorem liveStep_length (nodes : List Node) (live : List Bool) (i : Nat) :
    (liveStep nodes live i).length = live.length := by
  unfold liveStep
  split
  · split <;> simp
  · rfl

theorem liveStep_mono (nodes : List Node) (live : List Bool) (i j : Nat) (h : live.getD j false = true) :
    (liveStep nodes live i).getD j false = true := by
  unfold liveStep
  split
  · split
    · rw [getD_set_true, getD_set_true, h]; simp
    · exact h
  · exact h

/-- Liveness is closed under fan-in at index `i`, and the sinks are live. -/
def LiveFrom (g : Aig) (m : Nat) (live : List Bool) : Prop :=
  live.length = g.nodes.length ∧ (∀ s ∈ g.sinks, live.getD (eNode s.2) false = true) ∧
  ∀ i a b, m ≤ i → g.nodes[i]? = some (Node.and a b) → live.getD i false = true →
    live.getD (eNode a) false = true ∧ live.getD (eNode b) false = true

theorem liveStep_from (g : Aig) (ht : Topo g.nodes) (m : Nat) (live : List Bool) (h : LiveFrom g (m + 1) live) :
    LiveFrom g m (liveStep g.nodes live m) := by
  obtain ⟨hl, hs, hc⟩ := h
  refine ⟨by rw [liveStep_length, hl], fun s hsm => liveStep_mono _ _ _ _ (hs s hsm), ?_⟩
  intro i a b hmi hnode hlive
  obtain ⟨ha, hb⟩ := ht i a b hnode
  have hil : i < g.nodes.length := (List.getElem?_eq_some_iff.mp hnode).1
  -- the step does not touch index `i ≥ m` (it only sets fan-ins of node `m`, which are below `m`)
  have hsame : (liveStep g.nodes live m).getD i false = live.getD i false := by
    unfold liveStep
    split
    · cases hn : g.nodes.getD m Node.const with
      | and x y =>
        simp only []
        have hmn : g.nodes[m]? = some (Node.and x y) := by
          rw [List.getD_eq_getElem?_getD] at hn
          cases hq : g.nodes[m]? with
          | none => rw [hq] at hn; simp at hn
          | some q => rw [hq] at hn; simp at hn; rw [hn]
        obtain ⟨hx, hy⟩ := ht m x y hmn
        rw [getD_set_true, getD_set_true]
        have n1 : ¬ i = eNode x := by omega
        have n2 : ¬ i = eNode y := by omega
        simp [n1, n2]
      | const => rfl
      | input o => rfl
    · rfl
  rw [hsame] at hlive
  by_cases him : i = m
  · subst him
    -- node `i` itself is processed now: its fan-ins get marked
    unfold liveStep
    rw [if_pos hlive]
    have hn : g.nodes.getD i Node.const = Node.and a b := by
      rw [List.getD_eq_getElem?_getD, hnode]; rfl
    rw [hn]
    simp only []
    rw [getD_set_true, getD_set_true, getD_set_true, getD_set_true]
    have la : eNode a < live.length := by rw [hl]; omega
    have lb : eNode b < live.length := by rw [hl]; omega
    simp [la, lb]
  · obtain ⟨h1, h2⟩ := hc i a b (by omega) hnode hlive
    exact ⟨liveStep_mono _ _ _ _ h1, liveStep_mono _ _ _ _ h2⟩

theorem liveFold_from (g : Aig) (ht : Topo g.nodes) :
    ∀ (m : Nat) (live : List Bool), LiveFrom g m live →
      LiveFrom g 0 ((List.range m).reverse.foldl (liveStep g.nodes) live) := by
  intro m
  induction m with
  | zero => intro live h; simpa using h
  | succ m ih =>
    intro live h
    rw [List.range_succ, List.reverse_append]
    simp only [List.reverse_cons, List.reverse_nil, List.nil_append, List.cons_append, List.foldl_cons]
    exact ih _ (liveStep_from g ht m live h)

theorem liveNodes_ok (g : Aig) (ht : Topo g.nodes) (hs : ∀ s ∈ g.sinks, eNode s.2 < g.nodes.length) :
    LiveFrom g 0 (liveNodes g) := by
  rw [liveNodes_eq]
  apply liveFold_from g ht
  refine ⟨by simp, ?_, ?_⟩
  · intro s hsm
    rw [List.getD_eq_getElem?_getD, List.getElem?_map, List.getElem?_range (hs s hsm)]
    simp only [Option.map_some, Option.getD_some, List.any_eq_true, beq_iff_eq]
    exact ⟨s, hsm, rfl⟩
  · intro i a b hmi hnode _
    have : i < g.nodes.length := (List.getElem?_eq_some_iff.mp hnode).1
    omega

/-- Invariant of the loop of `compact`: as `EdgeInv`, for live nodes only. -/
def LiveInv (old : List Node) (live : List Bool) (g : Aig) (ne : List Nat) : Prop :=
  ∀ i, i < ne.length → live.getD i false = true →
    Has g (ne.getD i const0) (fun env => (evalNodes env old).getD i false)

theorem LiveInv.mono {old : List Node} {live : List Bool} {g g' : Aig} {ne : List Nat}
    (h : LiveInv old live g ne) (hx : Extends g g') : LiveInv old live g' ne :=
  fun i hi hl => (h i hi hl).mono hx

theorem LiveInv.snoc {old : List Node} {live : List Bool} {g : Aig} {ne : List Nat} (h : LiveInv old live g ne)
    {e : Nat} (he : live.getD ne.length false = true →
      Has g e (fun env => (evalNodes env old).getD ne.length false)) : LiveInv old live g (ne ++ [e]) := by
  intro i hi hl
  rw [getD_snoc]
  by_cases h1 : i < ne.length
  · rw [if_pos h1]; exact h i h1 hl
  · have : i = ne.length := by rw [List.length_append] at hi; simp at hi; omega
    rw [if_neg h1, if_pos this]; subst this; exact he hl

theorem compactStep_ok (old : Aig) (hto : Topo old.nodes) (live : List Bool) (hlive : LiveFrom old 0 live)
    (g : Aig) (hg : Good g) (ne : List Nat) (hinv : LiveInv old.nodes live g ne) (node : Node)
    (hnode : old.nodes[ne.length]? = some node) :
    Extends g (compactStep live (g, ne) node).1 ∧
      LiveInv old.nodes live (compactStep live (g, ne) node).1 (compactStep live (g, ne) node).2 ∧
      (compactStep live (g, ne) node).2.length = ne.length + 1 := by
  unfold compactStep
  simp only []
  cases hl : live.getD ne.length false with
  | false =>
    simp only [Bool.not_false, if_true]
    exact ⟨Extends.refl hg, hinv.snoc (fun h => by rw [hl] at h; simp at h), by simp⟩
  | true =>
    simp only [Bool.not_true, Bool.false_eq_true, if_false]
    cases node with
    | const =>
      simp only []
      refine ⟨Extends.refl hg, hinv.snoc (fun _ => ?_), by simp⟩
      exact (has_const0 hg).congr (fun env => (val_const env hnode).symm)
    | input o =>
      simp only []
      obtain ⟨x1, h1⟩ := addInput_has hg o
      refine ⟨x1, (hinv.mono x1).snoc (fun _ => ?_), by simp⟩
      exact h1.congr (fun env => (val_input env hnode).symm)
    | and f0 f1 =>
      simp only []
      obtain ⟨ha, hb⟩ := hto ne.length f0 f1 hnode
      obtain ⟨la, lb⟩ := hlive.2.2 ne.length f0 f1 (Nat.zero_le _) hnode hl
      have e0 := (hinv _ ha la).negateIf (eNeg f0)
      have e1 := (hinv _ hb lb).negateIf (eNeg f1)
      obtain ⟨x2, h2⟩ := mkAnd_has hg e0 e1
      refine ⟨x2, (hinv.mono x2).snoc (fun _ => ?_), by simp⟩
      refine h2.congr ?_
      intro env
      rw [val_and env hto hnode]; rfl

theorem compactFold_ok (old : Aig) (hto : Topo old.nodes) (live : List Bool) (hlive : LiveFrom old 0 live) :
    ∀ (rest pre : List Node) (g : Aig) (ne : List Nat), old.nodes = pre ++ rest → Good g →
      LiveInv old.nodes live g ne → ne.length = pre.length →
      Extends g (rest.foldl (compactStep live) (g, ne)).1 ∧
        LiveInv old.nodes live (rest.foldl (compactStep live) (g, ne)).1 (rest.foldl (compactStep live) (g, ne)).2 ∧
        (rest.foldl (compactStep live) (g, ne)).2.length = old.nodes.length := by
  intro rest
  induction rest with
  | nil =>
    intro pre g ne ho hg hinv hlen
    simp only [List.foldl_nil]
    exact ⟨Extends.refl hg, hinv, by rw [hlen, ho]; simp⟩
  | cons n rest ih =>
    intro pre g ne ho hg hinv hlen
    simp only [List.foldl_cons]
    have hnode : old.nodes[ne.length]? = some n := by
      rw [ho, hlen, List.getElem?_append_right (Nat.le_refl _)]; simp
    obtain ⟨x1, i1, l1⟩ := compactStep_ok old hto live hlive g hg ne hinv n hnode
    obtain ⟨x2, i2, l2⟩ := ih (pre ++ [n]) _ _ (by rw [ho]; simp) x1.good i1 (by rw [l1, hlen]; simp)
    exact ⟨x1.trans x2, i2, l2⟩

/-- `compact` keeps the target and the function of every sink. -/
theorem compact_sound (old : Aig) (hto : Topo old.nodes) (hs : ∀ s ∈ old.sinks, eNode s.2 < old.nodes.length)
    (env : Nat → Bool) : Good (compact old) ∧ sinkVals env (compact old) = sinkVals env old := by
  have hlive := liveNodes_ok old hto hs
  obtain ⟨x, hinv, hlen⟩ := compactFold_ok old hto (liveNodes old) hlive old.nodes [] Aig.new [] rfl good_new
    (fun i hi => by simp at hi) rfl
  refine ⟨x.good, ?_⟩
  unfold sinkVals compact
  simp only [List.map_map]
  apply List.map_congr_left
  intro s hsm
  simp only [Function.comp_apply, Prod.mk.injEq, true_and]
  have h := (hinv (eNode s.2) (by rw [hlen]; exact hs s hsm) (hlive.2.1 s hsm)).negateIf (eNeg s.2)
  rw [h.2 env]; rfl

/-- Sinks of the intermediate graph stay in range. -/
theorem rewriteNoCompact_sinks (lib : Nat → Option Pattern) (hlib : LibOk lib) (old : Aig) (hto : Topo old.nodes)
    (hs : ∀ s ∈ old.sinks, eNode s.2 < old.nodes.length) :
    ∀ s ∈ (rewriteNoCompact lib old).sinks, eNode s.2 < (rewriteNoCompact lib old).nodes.length := by
  obtain ⟨x, hinv, hlen⟩ := rewriteFold_ok lib hlib old.nodes hto (enumerateCuts old.nodes)
    (enumerateCuts_ok old.nodes hto) old.nodes [] Aig.new [] rfl good_new (fun i hi => by simp at hi) rfl
  intro s hsm
  unfold rewriteNoCompact at hsm ⊢
  simp only [List.mem_map] at hsm
  obtain ⟨s0, hs0, rfl⟩ := hsm
  exact ((hinv (eNode s0.2) (by rw [hlen]; exact hs s0 hs0)).negateIf (eNeg s0.2)).1

/-- The whole pass `rewrite::rewrite`: for every graph in topological order whose sinks are in range,
and every library whose entries compute their keys, every sink keeps its target and its Boolean function. -/
theorem rewrite_sound_all (lib : Nat → Option Pattern) (hlib : LibOk lib) (old : Aig) (hto : Topo old.nodes)
    (hs : ∀ s ∈ old.sinks, eNode s.2 < old.nodes.length) (env : Nat → Bool) :
    sinkVals env (rewrite lib old) = sinkVals env old := by
  obtain ⟨hg, h1⟩ := rewriteNoCompact_sound lib hlib old hto hs env
  have h2 := compact_sound (rewriteNoCompact lib old) hg.2 (rewriteNoCompact_sinks lib hlib old hto hs) env
  unfold rewrite
  rw [h2.2, h1]

/-- The executable well-formedness check of the driver implies the `Topo` used by the theorems. -/
theorem wfFrom_topo : ∀ (nodes : List Node) (k : Nat), wfFrom k nodes = true →
    ∀ i a b, nodes[i]? = some (Node.and a b) → eNode a < k + i ∧ eNode b < k + i := by
  intro nodes
  induction nodes with
  | nil => intro k _ i a b h; simp at h
  | cons n rest ih =>
    intro k hw i a b h
    cases i with
    | zero =>
      simp only [List.getElem?_cons_zero, Option.some.injEq] at h
      subst h
      simp only [wfFrom, Bool.and_eq_true, decide_eq_true_eq] at hw
      exact ⟨by omega, by omega⟩
    | succ i =>
      simp only [List.getElem?_cons_succ] at h
      have hw' : wfFrom (k + 1) rest = true := by
        cases n with
        | const => simpa [wfFrom] using hw
        | input o => simpa [wfFrom] using hw
        | and x y => simp only [wfFrom, Bool.and_eq_true] at hw; exact hw.2
      have := ih (k + 1) hw' i a b h
      omega

theorem wf_topo {g : Aig} (h : g.wf = true) : Topo g.nodes := by
  unfold Aig.wf at h
  simp only [Bool.and_eq_true] at h
  intro i a b hn
  have := wfFrom_topo g.nodes 0 h.2 i a b hn
  omega

end VerylModel.Lemmas.AigRewrite
