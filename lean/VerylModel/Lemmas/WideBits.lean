import VerylModel.Lemmas.Wide
/-! Helper lemmas for C18 (part A): the bit view of a word buffer; bitwise ops and shifts. -/
namespace VerylModel.Wide

/-- bit `k` of a buffer. -/
def bitAt (a : List Nat) (k : Nat) : Bool := (rd a (k / 64)).testBit (k % 64)

theorem word_testBit_ge {x j : Nat} (hx : x < W) (hj : 64 ≤ j) : x.testBit j = false := by
  apply Nat.testBit_lt_two_pow
  have : 2 ^ 64 ≤ 2 ^ j := Nat.pow_le_pow_right (by decide) hj
  rw [W_eq] at hx
  omega

theorem testBit_toNat {a : List Nat} (h : Words a) (k : Nat) : (toNat a).testBit k = bitAt a k := by
  induction a generalizing k with
  | nil => simp [toNat, bitAt]
  | cons x a ih =>
    have hx : x < 2 ^ 64 := by have := h.head; rwa [W_eq] at this
    simp only [toNat]
    rw [Nat.add_comm, W_eq, Nat.testBit_two_pow_mul_add _ hx]
    split
    · rename_i hk
      have h1 : k / 64 = 0 := by omega
      have h2 : k % 64 = k := by omega
      simp [bitAt, h1, h2]
    · rename_i hk
      rw [ih h.tail]
      have h1 : k / 64 = (k - 64) / 64 + 1 := by omega
      have h2 : k % 64 = (k - 64) % 64 := by omega
      simp [bitAt, h1, h2]

theorem bitAt_mul_add (a : List Nat) (i j : Nat) (hj : j < 64) : bitAt a (64 * i + j) = (rd a i).testBit j := by
  have h1 : (64 * i + j) / 64 = i := by omega
  have h2 : (64 * i + j) % 64 = j := by omega
  simp [bitAt, h1, h2]

theorem rd_of_length_le {a : List Nat} {i : Nat} (h : a.length ≤ i) : rd a i = 0 := by
  simp [rd, List.getD_eq_getElem?_getD, List.getElem?_eq_none h]

theorem bitAt_of_length_le {a : List Nat} {k : Nat} (h : 64 * a.length ≤ k) : bitAt a k = false := by
  have : a.length ≤ k / 64 := by omega
  simp [bitAt, rd_of_length_le this]

/-- two buffers of words with the same bits have the same value. -/
theorem toNat_eq_of_bits {r : List Nat} {X : Nat} (hr : Words r) (h : ∀ k, bitAt r k = X.testBit k) :
    toNat r = X := by
  apply Nat.eq_of_testBit_eq
  intro k
  rw [testBit_toNat hr, h]

@[simp] theorem mapWords_length (n : Nat) (g : Nat → Nat) : (mapWords n g).length = n := by
  simp [mapWords]

theorem rd_mapWords (n : Nat) (g : Nat → Nat) (i : Nat) : rd (mapWords n g) i = if i < n then g i else 0 := by
  unfold rd mapWords
  rw [List.getD_eq_getElem?_getD]
  by_cases h : i < n
  · simp [h]
  · simp [h]

theorem mapWords_words (n : Nat) (g : Nat → Nat) (h : ∀ i, i < n → g i < W) : Words (mapWords n g) := by
  intro x hx
  simp only [mapWords, List.mem_map, List.mem_range] at hx
  obtain ⟨i, hi, rfl⟩ := hx
  exact h i hi

theorem bitAt_mapWords (n : Nat) (g : Nat → Nat) (k : Nat) :
    bitAt (mapWords n g) k = (decide (k / 64 < n) && (g (k / 64)).testBit (k % 64)) := by
  simp only [bitAt, rd_mapWords]
  by_cases h : k / 64 < n <;> simp [h]

theorem notW_lt (x : Nat) : notW x < W := by
  have := W_pos
  unfold notW; omega

theorem testBit_notW {x : Nat} (hx : x < W) (j : Nat) : (notW x).testBit j = (decide (j < 64) && !x.testBit j) := by
  have : notW x = 2 ^ 64 - (x + 1) := by rw [notW, W_eq]; omega
  rw [this, Nat.testBit_two_pow_sub_succ (by rwa [W_eq] at hx)]

theorem and_lt_W {x y : Nat} (hy : y < W) : x &&& y < W := by
  rw [W_eq] at *; exact Nat.and_lt_two_pow _ hy
theorem or_lt_W {x y : Nat} (hx : x < W) (hy : y < W) : x ||| y < W := by
  rw [W_eq] at *; exact Nat.or_lt_two_pow hx hy
theorem xor_lt_W {x y : Nat} (hx : x < W) (hy : y < W) : x ^^^ y < W := by
  rw [W_eq] at *; exact Nat.xor_lt_two_pow hx hy

-- ── bitwise helpers: words and values ───────────────────────────────────────────────────────

theorem band_words (n : Nat) (a b : List Nat) (hb : Words b) : Words (band n a b) :=
  mapWords_words _ _ fun i _ => and_lt_W (rd_lt hb i)
theorem bor_words (n : Nat) (a b : List Nat) (ha : Words a) (hb : Words b) : Words (bor n a b) :=
  mapWords_words _ _ fun i _ => or_lt_W (rd_lt ha i) (rd_lt hb i)
theorem bxor_words (n : Nat) (a b : List Nat) (ha : Words a) (hb : Words b) : Words (bxor n a b) :=
  mapWords_words _ _ fun i _ => xor_lt_W (rd_lt ha i) (rd_lt hb i)
theorem bxorNot_words (n : Nat) (a b : List Nat) : Words (bxorNot n a b) :=
  mapWords_words _ _ fun _ _ => notW_lt _
theorem bandNot_words (n : Nat) (a b : List Nat) : Words (bandNot n a b) :=
  mapWords_words _ _ fun _ _ => and_lt_W (notW_lt _)
theorem bnot_words (n : Nat) (a : List Nat) : Words (bnot n a) :=
  mapWords_words _ _ fun _ _ => notW_lt _
theorem copy_words (n : Nat) (a : List Nat) (ha : Words a) : Words (copy n a) :=
  mapWords_words _ _ fun i _ => rd_lt ha i

theorem bitAt_lt_of_true {a : List Nat} {k : Nat} (h : bitAt a k = true) : k < 64 * a.length := by
  apply Classical.byContradiction
  intro hc
  rw [bitAt_of_length_le (by omega)] at h
  cases h

theorem band_toNat (n : Nat) (a b : List Nat) (hla : a.length = n) (ha : Words a) (hb : Words b) :
    toNat (band n a b) = toNat a &&& toNat b := by
  apply toNat_eq_of_bits (band_words n a b hb)
  intro k
  rw [Nat.testBit_and, testBit_toNat ha, testBit_toNat hb, band, bitAt_mapWords, Nat.testBit_and]
  by_cases h : k / 64 < n
  · simp [h, bitAt]
  · have : bitAt a k = false := bitAt_of_length_le (by omega)
    simp [h, this]

theorem bor_toNat (n : Nat) (a b : List Nat) (hla : a.length = n) (hlb : b.length = n) (ha : Words a) (hb : Words b) :
    toNat (bor n a b) = toNat a ||| toNat b := by
  apply toNat_eq_of_bits (bor_words n a b ha hb)
  intro k
  rw [Nat.testBit_or, testBit_toNat ha, testBit_toNat hb, bor, bitAt_mapWords, Nat.testBit_or]
  by_cases h : k / 64 < n
  · simp [h, bitAt]
  · have h1 : bitAt a k = false := bitAt_of_length_le (by omega)
    have h2 : bitAt b k = false := bitAt_of_length_le (by omega)
    simp [h, h1, h2]

theorem bxor_toNat (n : Nat) (a b : List Nat) (hla : a.length = n) (hlb : b.length = n) (ha : Words a) (hb : Words b) :
    toNat (bxor n a b) = toNat a ^^^ toNat b := by
  apply toNat_eq_of_bits (bxor_words n a b ha hb)
  intro k
  rw [Nat.testBit_xor, testBit_toNat ha, testBit_toNat hb, bxor, bitAt_mapWords, Nat.testBit_xor]
  by_cases h : k / 64 < n
  · simp [h, bitAt]
  · have h1 : bitAt a k = false := bitAt_of_length_le (by omega)
    have h2 : bitAt b k = false := bitAt_of_length_le (by omega)
    simp [h, h1, h2]

/-- bits of `2^(64 n) - 1 - x`. -/
theorem testBit_compl (N x k : Nat) (hx : x < 2 ^ N) : (2 ^ N - 1 - x).testBit k = (decide (k < N) && !x.testBit k) := by
  have : 2 ^ N - 1 - x = 2 ^ N - (x + 1) := by omega
  rw [this, Nat.testBit_two_pow_sub_succ hx]

theorem W_pow (n : Nat) : W ^ n = 2 ^ (64 * n) := by rw [W_eq, ← Nat.pow_mul]

theorem toNat_lt_two_pow {a : List Nat} (h : Words a) : toNat a < 2 ^ (64 * a.length) := by
  rw [← W_pow]; exact toNat_lt h

theorem bnot_toNat (n : Nat) (a : List Nat) (hla : a.length = n) (ha : Words a) :
    toNat (bnot n a) = 2 ^ (64 * n) - 1 - toNat a := by
  apply toNat_eq_of_bits (bnot_words n a)
  intro k
  have hlt := toNat_lt_two_pow ha
  rw [hla] at hlt
  rw [testBit_compl _ _ _ hlt, testBit_toNat ha, bnot, bitAt_mapWords, testBit_notW (rd_lt ha _)]
  have : k % 64 < 64 := Nat.mod_lt _ (by decide)
  by_cases h : k / 64 < n
  · have : k < 64 * n := by omega
    simp [bitAt, *]
  · have : ¬ k < 64 * n := by omega
    simp [h, this]

theorem bxorNot_toNat (n : Nat) (a b : List Nat) (hla : a.length = n) (hlb : b.length = n) (ha : Words a) (hb : Words b) :
    toNat (bxorNot n a b) = 2 ^ (64 * n) - 1 - (toNat a ^^^ toNat b) := by
  apply toNat_eq_of_bits (bxorNot_words n a b)
  intro k
  have hlta := toNat_lt_two_pow ha
  have hltb := toNat_lt_two_pow hb
  rw [hla] at hlta
  rw [hlb] at hltb
  rw [testBit_compl _ _ _ (Nat.xor_lt_two_pow hlta hltb), Nat.testBit_xor, testBit_toNat ha, testBit_toNat hb, bxorNot,
    bitAt_mapWords, testBit_notW (xor_lt_W (rd_lt ha _) (rd_lt hb _)), Nat.testBit_xor]
  have : k % 64 < 64 := Nat.mod_lt _ (by decide)
  by_cases h : k / 64 < n
  · have : k < 64 * n := by omega
    simp [bitAt, *]
  · have : ¬ k < 64 * n := by omega
    simp [h, this]

theorem bandNot_toNat (n : Nat) (a b : List Nat) (hla : a.length = n) (hlb : b.length = n) (ha : Words a) (hb : Words b) :
    toNat (bandNot n a b) = toNat a &&& (2 ^ (64 * n) - 1 - toNat b) := by
  apply toNat_eq_of_bits (bandNot_words n a b)
  intro k
  have hltb := toNat_lt_two_pow hb
  rw [hlb] at hltb
  rw [Nat.testBit_and, testBit_compl _ _ _ hltb, testBit_toNat ha, testBit_toNat hb, bandNot,
    bitAt_mapWords, Nat.testBit_and, testBit_notW (rd_lt hb _)]
  have : k % 64 < 64 := Nat.mod_lt _ (by decide)
  by_cases h : k / 64 < n
  · have : k < 64 * n := by omega
    simp [bitAt, *]
  · have : ¬ k < 64 * n := by omega
    have h1 : bitAt a k = false := bitAt_of_length_le (by omega)
    simp [h, this, h1]

theorem copy_eq (n : Nat) (a : List Nat) (hla : a.length = n) : copy n a = a := by
  apply List.ext_getElem
  · simp [copy, hla]
  · intro i h1 h2
    simp [copy, mapWords, rd, List.getD_eq_getElem?_getD, List.getElem?_eq_getElem h2]

end VerylModel.Wide
