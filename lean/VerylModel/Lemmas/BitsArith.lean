import VerylModel.Lemmas.Bits
set_option linter.unusedSimpArgs false
set_option linter.unusedVariables false
/-! Arithmetic lemmas for M-Bits: residues modulo `2^w`, add/sub/mul arms. -/
namespace VerylModel.Bits
open Ref Impl

/-! ### modular arithmetic on Int / Nat -/

theorem toNat_emod_natCast (n M : Nat) : (((n : Int)) % (M : Int)).toNat = n % M := by
  rw [← Int.natCast_emod, Int.toNat_natCast]

/-- `ofInt` only looks at the residue. -/
theorem ofInt_congr {w : Nat} {z z' : Int}
    (h : z % ((2 ^ w : Nat) : Int) = z' % ((2 ^ w : Nat) : Int)) : ofInt w z = ofInt w z' := by
  unfold ofInt; rw [h]

theorem ofInt_natCast (w n : Nat) : ofInt w (n : Int) = ⟨w, n % 2 ^ w, 0⟩ := by
  unfold ofInt; rw [toNat_emod_natCast]

theorem emod_add_congr {a a' b b' M : Int} (ha : a % M = a' % M) (hb : b % M = b' % M) :
    (a + b) % M = (a' + b') % M := by rw [Int.add_emod, ha, hb, ← Int.add_emod]

theorem emod_sub_congr {a a' b b' M : Int} (ha : a % M = a' % M) (hb : b % M = b' % M) :
    (a - b) % M = (a' - b') % M := by rw [Int.sub_emod, ha, hb, ← Int.sub_emod]

theorem emod_mul_congr {a a' b b' M : Int} (ha : a % M = a' % M) (hb : b % M = b' % M) :
    (a * b) % M = (a' * b') % M := by rw [Int.mul_emod, ha, hb, ← Int.mul_emod]

theorem emod_neg_congr {a a' M : Int} (ha : a % M = a' % M) : (-a) % M = (-a') % M := by
  have := emod_sub_congr (a := 0) (a' := 0) (M := M) rfl ha
  simpa using this

theorem sub_self_emod (p M : Int) : (p - M) % M = p % M := by
  have : p - M = p + M * (-1) := by rw [Int.mul_neg_one, Int.sub_eq_add_neg]
  rw [this, Int.add_mul_emod_self_left]

/-- The signed and the unsigned reading of a vector are congruent modulo `2^width`. -/
theorem val_emod (a : BV) (s : Bool) :
    val a s % ((2 ^ a.width : Nat) : Int) = (a.payload : Int) % ((2 ^ a.width : Nat) : Int) := by
  unfold val BV.toInt
  cases s
  · simp
  · simp only [if_true]
    split
    · exact sub_self_emod _ _
    · rfl

end VerylModel.Bits

namespace VerylModel.Bits
open Ref Impl

theorem arithBV_xz (g : Int → Int → Int) (a b : BV) (w : Nat) (s : Bool)
    (h : a.mask ≠ 0 ∨ b.mask ≠ 0) : arithBV g a b w s = allX w := by
  unfold arithBV BV.hasXZ
  rcases h with h | h <;> simp [h]

theorem arithBV_known (g : Int → Int → Int) (a b : BV) (w : Nat) (s : Bool)
    (ha : a.mask = 0) (hb : b.mask = 0) : arithBV g a b w s = ofInt w (g (val a s) (val b s)) := by
  unfold arithBV BV.hasXZ
  simp [ha, hb]

theorem ofInt_add (a b : BV) (w : Nat) (s : Bool) (hwa : a.width = w) (hwb : b.width = w) :
    ofInt w (val a s + val b s) = ⟨w, (a.payload + b.payload) % 2 ^ w, 0⟩ := by
  rw [← ofInt_natCast, Int.natCast_add]
  apply ofInt_congr
  apply emod_add_congr
  · rw [← hwa]; exact val_emod a s
  · rw [← hwb]; exact val_emod b s

theorem ofInt_mul (a b : BV) (w : Nat) (s : Bool) (hwa : a.width = w) (hwb : b.width = w) :
    ofInt w (val a s * val b s) = ⟨w, (a.payload * b.payload) % 2 ^ w, 0⟩ := by
  rw [← ofInt_natCast, Int.natCast_mul]
  apply ofInt_congr
  apply emod_mul_congr
  · rw [← hwa]; exact val_emod a s
  · rw [← hwb]; exact val_emod b s

/-- `a - b` modulo `2^w`, written with naturals (`b ≤ 2^w`). -/
theorem ofInt_sub (a b : BV) (w : Nat) (s : Bool) (hwa : a.width = w) (hwb : b.width = w)
    (hb : b.payload < 2 ^ w) :
    ofInt w (val a s - val b s) = ⟨w, (a.payload + (2 ^ w - b.payload)) % 2 ^ w, 0⟩ := by
  rw [← ofInt_natCast]
  apply ofInt_congr
  have h1 : ((a.payload + (2 ^ w - b.payload) : Nat) : Int) =
      ((a.payload : Int) - (b.payload : Int)) + ((2 ^ w : Nat) : Int) * 1 := by
    rw [Int.natCast_add, Int.natCast_sub (Nat.le_of_lt hb)]; omega
  rw [h1, Int.add_mul_emod_self_left]
  apply emod_sub_congr
  · rw [← hwa]; exact val_emod a s
  · rw [← hwb]; exact val_emod b s

theorem xor_mask_eq_sub {b w : Nat} (hb : b < 2 ^ w) : b ^^^ (2 ^ w - 1) = 2 ^ w - 1 - b := by
  apply Nat.eq_of_testBit_eq; intro i
  have : 2 ^ w - 1 - b = 2 ^ w - (b + 1) := by omega
  rw [this, Nat.testBit_two_pow_sub_succ hb, Nat.testBit_xor, testBit_mask]
  by_cases h : i < w
  · simp [h]
  · simp [h, testBit_of_lt hb (Nat.le_of_not_lt h)]

/-- Two's complement negation as the BigUint arm writes it. -/
theorem neg_twos {b w : Nat} (hb : b < 2 ^ w) :
    ((b ^^^ (2 ^ w - 1)) + 1) &&& (2 ^ w - 1) = (2 ^ w - b) % 2 ^ w := by
  rw [xor_mask_eq_sub hb, Nat.and_two_pow_sub_one_eq_mod]
  have : 2 ^ w - 1 - b + 1 = 2 ^ w - b := by omega
  rw [this]

theorem Big.addOp_eq_ref (a b : V4) (w : Nat) (s : Bool) (hwa : a.width = w) (hwb : b.width = w) :
    (Big.addOp a b w s).toBV = arithBV (· + ·) a.toBV b.toBV w s := by
  unfold Big.addOp
  by_cases h : a.mask ≠ 0 ∨ b.mask ≠ 0
  · rw [if_pos h, arithBV_xz _ _ _ _ _ h]; rfl
  · have ha : a.mask = 0 := by omega
    have hb : b.mask = 0 := by omega
    rw [if_neg h, arithBV_known _ _ _ _ _ ha hb]
    show _ = ofInt w (val a.toBV s + val b.toBV s)
    rw [ofInt_add _ _ _ _ hwa hwb]
    simp [Big.new, V4.toBV, Big.genMask, Nat.and_two_pow_sub_one_eq_mod]

theorem Big.mulOp_eq_ref (a b : V4) (w : Nat) (s : Bool) (hwa : a.width = w) (hwb : b.width = w) :
    (Big.mulOp a b w s).toBV = arithBV (· * ·) a.toBV b.toBV w s := by
  unfold Big.mulOp
  by_cases h : a.mask ≠ 0 ∨ b.mask ≠ 0
  · rw [if_pos h, arithBV_xz _ _ _ _ _ h]; rfl
  · have ha : a.mask = 0 := by omega
    have hb : b.mask = 0 := by omega
    rw [if_neg h, arithBV_known _ _ _ _ _ ha hb]
    show _ = ofInt w (val a.toBV s * val b.toBV s)
    rw [ofInt_mul _ _ _ _ hwa hwb]
    simp [Big.new, V4.toBV, Big.genMask, Nat.and_two_pow_sub_one_eq_mod]

theorem Big.subOp_eq_ref (a b : V4) (w : Nat) (s : Bool) (hwa : a.width = w) (hwb : b.width = w)
    (hb : b.wf) : (Big.subOp a b w s).toBV = arithBV (· - ·) a.toBV b.toBV w s := by
  unfold Big.subOp
  have hbp : b.payload < 2 ^ w := by rw [← hwb]; exact hb.1
  by_cases h : a.mask ≠ 0 ∨ b.mask ≠ 0
  · rw [if_pos h, arithBV_xz _ _ _ _ _ h]; rfl
  · have ha : a.mask = 0 := by omega
    have hb0 : b.mask = 0 := by omega
    rw [if_neg h, arithBV_known _ _ _ _ _ ha hb0]
    show _ = ofInt w (val a.toBV s - val b.toBV s)
    rw [ofInt_sub _ _ _ _ hwa hwb hbp]
    simp only [Big.new, V4.toBV, Big.genMask, neg_twos hbp, Nat.and_two_pow_sub_one_eq_mod]
    rw [Nat.add_mod, Nat.mod_mod, ← Nat.add_mod]

end VerylModel.Bits

namespace VerylModel.Bits
open Ref Impl

theorem mod64_mod {n w : Nat} (h : w ≤ 64) : n % 2 ^ 64 % 2 ^ w = n % 2 ^ w :=
  Nat.mod_mod_of_dvd n (Nat.pow_dvd_pow 2 h)

theorem U64.newX_eq_big {w : Nat} (h : w ≤ 64) (s : Bool) : U64.newX w s = Big.newX w s := by
  simp [U64.newX, Big.newX, U64.genMask_eq h, Big.genMask]

theorem U64.addOp_eq_big (a b : V4) (w : Nat) (s : Bool) (h : w ≤ 64) :
    U64.addOp a b w s = Big.addOp a b w s := by
  unfold U64.addOp Big.addOp
  simp [U64.newX_eq_big h, U64.new, Big.new, U64.wadd, U64.genMask_eq h, Big.genMask,
    Nat.and_two_pow_sub_one_eq_mod, mod64_mod h]

theorem U64.mulOp_eq_big (a b : V4) (w : Nat) (s : Bool) (h : w ≤ 64) :
    U64.mulOp a b w s = Big.mulOp a b w s := by
  unfold U64.mulOp Big.mulOp
  simp [U64.newX_eq_big h, U64.new, Big.new, U64.wmul, U64.genMask_eq h, Big.genMask,
    Nat.and_two_pow_sub_one_eq_mod, mod64_mod h]

theorem U64.subOp_eq_big (a b : V4) (w : Nat) (s : Bool) (h : w ≤ 64) (hb : b.payload < 2 ^ w) :
    U64.subOp a b w s = Big.subOp a b w s := by
  unfold U64.subOp Big.subOp
  have hb64 : b.payload < 2 ^ 64 := Nat.lt_of_lt_of_le hb (Nat.pow_le_pow_right (by decide) h)
  have key : (a.payload + 2 ^ 64 - b.payload) % 2 ^ w = (a.payload + (2 ^ w - b.payload)) % 2 ^ w := by
    have hpow : 2 ^ 64 = 2 ^ w * 2 ^ (64 - w) := by rw [← Nat.pow_add]; congr 1; omega
    have hpos : 0 < 2 ^ (64 - w) := Nat.two_pow_pos _
    have : a.payload + 2 ^ 64 - b.payload =
        (a.payload + (2 ^ w - b.payload)) + 2 ^ w * (2 ^ (64 - w) - 1) := by
      rw [hpow, Nat.mul_sub, Nat.mul_one]
      have : 2 ^ w ≤ 2 ^ w * 2 ^ (64 - w) := Nat.le_mul_of_pos_right _ hpos
      omega
    rw [this, Nat.add_mul_mod_self_left]
  simp only [U64.newX_eq_big h, U64.new, Big.new, U64.wsub, U64.genMask_eq h, Big.genMask,
    Nat.and_two_pow_sub_one_eq_mod, mod64_mod h, Nat.mod_eq_of_lt hb64, neg_twos hb, key]
  congr 2
  rw [Nat.add_mod a.payload ((2 ^ w - b.payload) % 2 ^ w), Nat.mod_mod, ← Nat.add_mod]

end VerylModel.Bits
