import VerylModel.Lemmas.BitsSigned
set_option linter.unusedSimpArgs false
set_option linter.unusedVariables false
/-! Relational arms. -/
namespace VerylModel.Bits
open Ref Impl

theorem ofB4_x1 (w : Nat) (o : Bool) : ofB4 w (b4_x1 false o) = ofBool w o := by
  cases o <;> rfl

/-- A relational arm: `r` on `Int`, `ru` the same relation on `Nat`, `ro` Rust's derived order on
    `Option<BigInt>` restricted to `Some`/`Some`. -/
structure RelOp where
  r : Int → Int → Bool
  ru : Nat → Nat → Bool
  ro : Option Int → Option Int → Bool
  hru : ∀ p q : Nat, ru p q = r (p : Int) (q : Int)
  hro : ∀ p q : Int, ro (some p) (some q) = r p q

theorem relationalBV_eq (R : RelOp) (a b : BV) (w : Nat) (s : Bool) (o : Bool)
    (ho : a.mask = 0 → b.mask = 0 → o = R.r (val a s) (val b s)) :
    relationalBV R.r a b w s = ofB4 w (b4_x1 (a.mask != 0 || b.mask != 0) o) := by
  unfold relationalBV BV.hasXZ
  by_cases hx : (a.mask != 0 || b.mask != 0) = true
  · rw [if_pos hx, hx]; rfl
  · have hx' : (a.mask != 0 || b.mask != 0) = false := by simpa using hx
    rw [if_neg hx, hx', ofB4_x1]
    have ha : a.mask = 0 := by simp at hx'; exact hx'.1
    have hb : b.mask = 0 := by simp at hx'; exact hx'.2
    rw [ho ha hb]

theorem Big.relFlags_spec (R : RelOp) (a b : V4) (W : Nat) (s : Bool) (hW : 0 < W) (ha : a.wf) (hb : b.wf)
    (hwa : a.width = W) (hwb : b.width = W) :
    ∃ o, Big.relFlags R.ro R.ru a b s = some (o, a.mask != 0 || b.mask != 0) ∧
      (a.mask = 0 → b.mask = 0 → o = R.r (val a.toBV s) (val b.toBV s)) := by
  unfold Big.relFlags
  cases s
  · simp only [Bool.false_eq_true, if_false, Option.bind_eq_bind, Option.bind_some]
    exact ⟨_, rfl, fun _ _ => by rw [R.hru]; rfl⟩
  · simp only [if_true]
    have hA : ∃ za, Big.toBigint a = some za ∧ (a.mask = 0 → za = some a.toBV.toInt) := by
      by_cases hm : a.mask = 0
      · exact ⟨_, Big.toBigint_eq_toInt a W hW ha hwa hm, fun _ => rfl⟩
      · exact ⟨_, Big.toBigint_xz a hm, fun h => absurd h hm⟩
    have hB : ∃ zb, Big.toBigint b = some zb ∧ (b.mask = 0 → zb = some b.toBV.toInt) := by
      by_cases hm : b.mask = 0
      · exact ⟨_, Big.toBigint_eq_toInt b W hW hb hwb hm, fun _ => rfl⟩
      · exact ⟨_, Big.toBigint_xz b hm, fun h => absurd h hm⟩
    obtain ⟨za, hza, hza'⟩ := hA
    obtain ⟨zb, hzb, hzb'⟩ := hB
    simp only [hza, hzb, Option.bind_eq_bind, Option.bind_some]
    exact ⟨_, rfl, fun h1 h2 => by rw [hza' h1, hzb' h2, R.hro]; rfl⟩

theorem U64.relFlags_spec (R : RelOp) (a b : V4) (W : Nat) (s : Bool) (hW : 0 < W) (h64 : W ≤ 64)
    (ha : a.wf) (hb : b.wf) (hwa : a.width = W) (hwb : b.width = W) :
    ∃ o, U64.relFlags R.r R.ru a b W s = some (o, a.mask != 0 || b.mask != 0) ∧
      (a.mask = 0 → b.mask = 0 → o = R.r (val a.toBV s) (val b.toBV s)) := by
  unfold U64.relFlags
  cases s
  · simp only [Bool.false_eq_true, if_false, Option.bind_eq_bind, Option.bind_some]
    exact ⟨_, rfl, fun _ _ => by rw [R.hru]; rfl⟩
  · have hmax : max W 1 = W := by omega
    have hle : max W 1 ≤ 64 := by omega
    simp only [if_true, usub, hle, hmax, h64, Option.bind_eq_bind, Option.bind_some,
      U64.sext_eq_toInt a W hW h64 ha hwa, U64.sext_eq_toInt b W hW h64 hb hwb]
    exact ⟨_, rfl, fun _ _ => rfl⟩

def relLt : RelOp := ⟨fun a b => decide (a < b), fun a b => decide (a < b),
  Big.optCmp (fun p q => decide (p < q)) false true false,
  fun p q => by simp [Int.ofNat_lt], fun _ _ => rfl⟩
def relLe : RelOp := ⟨fun a b => decide (a ≤ b), fun a b => decide (a ≤ b),
  Big.optCmp (fun p q => decide (p ≤ q)) true true false,
  fun p q => by simp [Int.ofNat_le], fun _ _ => rfl⟩
def relGt : RelOp := ⟨fun a b => decide (a > b), fun a b => decide (a > b),
  Big.optCmp (fun p q => decide (p > q)) false false true,
  fun p q => by simp [Int.ofNat_lt], fun _ _ => rfl⟩
def relGe : RelOp := ⟨fun a b => decide (a ≥ b), fun a b => decide (a ≥ b),
  Big.optCmp (fun p q => decide (p ≥ q)) true false true,
  fun p q => by simp [Int.ofNat_le], fun _ _ => rfl⟩

/-- End to end for one relational arm. -/
theorem relArm_eq_ref (R : RelOp) (x y : Val) (w : Nat) (s : Bool) (hx : x.canon) (hy : y.canon)
    (hW : 0 < max x.width y.width) (hw0 : 0 < w) :
    ∃ v, cmpArm x y w s (fun isOne isX => U64.newBitx1 isX isOne)
        (fun a b => U64.relFlags R.r R.ru a b (max x.width y.width) s)
        (fun a b => Big.relFlags R.ro R.ru a b s) = some v ∧
      v.v.toBV = relationalBV R.r (ext x.v (max x.width y.width) s) (ext y.v (max x.width y.width) s) w s := by
  obtain ⟨a, b, ha, hb, hawf, hbwf, hwa, hwb, harm⟩ :=
    cmpArm_spec x y w s (fun isOne isX => U64.newBitx1 isX isOne)
      (fun a b => U64.relFlags R.r R.ru a b (max x.width y.width) s)
      (fun a b => Big.relFlags R.ro R.ru a b s) hx hy hW
  by_cases h : 64 < max x.width y.width
  · obtain ⟨o, ho1, ho2⟩ := Big.relFlags_spec R a b _ s hW hawf hbwf hwa hwb
    rw [harm o (a.mask != 0 || b.mask != 0) (by rw [if_pos h]; exact ho1)]
    obtain ⟨v, hv1, hv2⟩ := finishBit_x1 (a.mask != 0 || b.mask != 0) o w hw0
    exact ⟨v, hv1, by rw [hv2, ← ha, ← hb]; exact (relationalBV_eq R a.toBV b.toBV w s o ho2).symm⟩
  · obtain ⟨o, ho1, ho2⟩ := U64.relFlags_spec R a b _ s hW (by omega) hawf hbwf hwa hwb
    rw [harm o (a.mask != 0 || b.mask != 0) (by rw [if_neg h]; exact ho1)]
    obtain ⟨v, hv1, hv2⟩ := finishBit_x1 (a.mask != 0 || b.mask != 0) o w hw0
    exact ⟨v, hv1, by rw [hv2, ← ha, ← hb]; exact (relationalBV_eq R a.toBV b.toBV w s o ho2).symm⟩

end VerylModel.Bits
