import VerylModel.Core.SynthRules
/-! Lemmas behind `Props/C19.lean`: adders, prefix networks, re-association, constant
propagation, counters. -/
namespace VerylModel.SynthRules
open VerylModel.Gen

def b2n (b : Bool) : Nat := if b then 1 else 0

/-! ## full adder, ripple carry -/

theorem fullAdder_spec (a b c : Bool) :
    fullAdder a b c = (xor (xor a b) c, (a && b) || (c && xor a b)) := by
  cases a <;> cases b <;> cases c <;> rfl

/-- 3:2 compressor: the weighted sum is preserved. -/
theorem fullAdder_sum (a b c : Bool) :
    b2n (fullAdder a b c).1 + 2 * b2n (fullAdder a b c).2 = b2n a + b2n b + b2n c := by
  cases a <;> cases b <;> cases c <;> rfl

theorem toNat_lt (x : Nat → Bool) (n : Nat) : toNat x n < 2 ^ n := by
  induction n with
  | zero => simp [toNat]
  | succ n ih =>
    simp only [toNat]
    have : 2 ^ (n + 1) = 2 * 2 ^ n := by rw [Nat.pow_succ]; omega
    split <;> omega

theorem toNat_congr (x y : Nat → Bool) (n : Nat) (h : ∀ i, i < n → x i = y i) : toNat x n = toNat y n := by
  induction n with
  | zero => rfl
  | succ n ih =>
    simp only [toNat]
    rw [ih (fun i hi => h i (by omega)), h n (by omega)]

/-- The ripple adder adds: low `n` sum bits plus the carry out. -/
theorem ripple_value (a b : Nat → Bool) (cin : Bool) (n : Nat) :
    toNat (rippleSum a b cin) n + 2 ^ n * b2n (rippleCarry a b cin n) = toNat a n + toNat b n + b2n cin := by
  induction n with
  | zero => simp [toNat, rippleCarry]
  | succ n ih =>
    simp only [toNat, rippleCarry, rippleSum, fullAdder_spec]
    have hp : 2 ^ (n + 1) = 2 * 2 ^ n := by rw [Nat.pow_succ]; omega
    rw [hp]
    generalize 2 ^ n = X at *
    generalize rippleCarry a b cin n = c at *
    generalize toNat (rippleSum a b cin) n = S at *
    cases a n <;> cases b n <;> cases c <;> simp [b2n] at * <;> omega

/-! ## Kogge–Stone -/

/-- The carry operator on (propagate, generate) pairs; the left argument is the more significant group. -/
def pgOp (x y : Bool × Bool) : Bool × Bool := (x.1 && y.1, x.2 || (x.1 && y.2))

theorem pgOp_assoc (x y z : Bool × Bool) : pgOp (pgOp x y) z = pgOp x (pgOp y z) := by
  obtain ⟨a, b⟩ := x; obtain ⟨c, d⟩ := y; obtain ⟨e, f⟩ := z
  cases a <;> cases b <;> cases c <;> cases d <;> cases e <;> cases f <;> rfl

theorem pgOp_id (x : Bool × Bool) : pgOp x (true, false) = x := by
  obtain ⟨a, b⟩ := x
  cases a <;> cases b <;> rfl

/-- (propagate, generate) of the bit range `[lo, lo + len)`. -/
def pgRange (pg0 : Nat → Bool × Bool) (lo : Nat) : Nat → Bool × Bool
  | 0 => (true, false)
  | len + 1 => pgOp (pg0 (lo + len)) (pgRange pg0 lo len)

theorem pgRange_split (pg0 : Nat → Bool × Bool) (lo a b : Nat) :
    pgRange pg0 lo (a + b) = pgOp (pgRange pg0 (lo + a) b) (pgRange pg0 lo a) := by
  induction b with
  | zero =>
    simp only [Nat.add_zero, pgRange]
    obtain ⟨p, g⟩ := pgRange pg0 lo a
    cases p <;> cases g <;> rfl
  | succ b ih =>
    have : a + (b + 1) = (a + b) + 1 := by omega
    rw [this]
    simp only [pgRange]
    rw [ih, pgOp_assoc]
    have : lo + (a + b) = lo + a + b := by omega
    rw [this]

/-- Invariant of the prefix loop: entry `i` covers the `min d (i+1)` bits ending at `i`. -/
def KsInv (pg0 : Nat → Bool × Bool) (d : Nat) (pg : Nat → Bool × Bool) : Prop :=
  ∀ i, pg i = pgRange pg0 (i + 1 - min d (i + 1)) (min d (i + 1))

theorem ksInv_init (pg0 : Nat → Bool × Bool) : KsInv pg0 1 pg0 := by
  intro i
  have h1 : min 1 (i + 1) = 1 := by omega
  rw [h1]
  simp only [pgRange]
  have : i + 1 - 1 + 0 = i := by omega
  rw [this, pgOp_id]

theorem ksInv_stage (pg0 : Nat → Bool × Bool) (d : Nat) (pg : Nat → Bool × Bool) (_hd : 1 ≤ d)
    (h : KsInv pg0 d pg) : KsInv pg0 (2 * d) (ksStage d pg) := by
  intro i
  unfold ksStage
  by_cases hi : d ≤ i
  · rw [if_pos hi]
    show pgOp (pg i) (pg (i - d)) = _
    rw [h i, h (i - d)]
    have e1 : min d (i + 1) = d := by omega
    rw [e1]
    -- m = size of the lower window
    have hsplit := pgRange_split pg0 (i - d + 1 - min d (i - d + 1)) (min d (i - d + 1)) d
    have e2 : i - d + 1 - min d (i - d + 1) + min d (i - d + 1) = i + 1 - d := by omega
    rw [e2] at hsplit
    have e3 : min (2 * d) (i + 1) = min d (i - d + 1) + d := by omega
    have e4 : i + 1 - min (2 * d) (i + 1) = i - d + 1 - min d (i - d + 1) := by omega
    rw [e4, e3, hsplit]
  · rw [if_neg hi, h i]
    have e1 : min d (i + 1) = i + 1 := by omega
    have e2 : min (2 * d) (i + 1) = i + 1 := by omega
    rw [e1, e2]

theorem ksLoop_spec (pg0 : Nat → Bool × Bool) (fuel d n : Nat) (pg : Nat → Bool × Bool)
    (hd : 1 ≤ d) (hf : n ≤ fuel + d) (h : KsInv pg0 d pg) :
    ∀ i, i < n → ksLoop fuel d n pg i = pgRange pg0 0 (i + 1) := by
  induction fuel generalizing d pg with
  | zero =>
    intro i hi
    simp only [ksLoop]
    rw [h i]
    have e1 : min d (i + 1) = i + 1 := by omega
    rw [e1]
    have : i + 1 - (i + 1) = 0 := by omega
    rw [this]
  | succ fuel ih =>
    intro i hi
    simp only [ksLoop]
    by_cases hdn : d < n
    · rw [if_pos hdn]
      exact ih (2 * d) (ksStage d pg) (by omega) (by omega) (ksInv_stage pg0 d pg hd h) i hi
    · rw [if_neg hdn, h i]
      have e1 : min d (i + 1) = i + 1 := by omega
      rw [e1]
      have : i + 1 - (i + 1) = 0 := by omega
      rw [this]

/-- Carry out of a group with (propagate, generate) `x` and carry in `c`. -/
def pgApply (x : Bool × Bool) (c : Bool) : Bool := x.2 || (x.1 && c)

theorem pgApply_op (x y : Bool × Bool) (c : Bool) : pgApply (pgOp x y) c = pgApply x (pgApply y c) := by
  obtain ⟨a, b⟩ := x; obtain ⟨d, e⟩ := y
  cases a <;> cases b <;> cases d <;> cases e <;> cases c <;> rfl

theorem rippleCarry_pg (a b : Nat → Bool) (cin : Bool) (i : Nat) :
    rippleCarry a b cin i = pgApply (pgRange (fun j => (xor (a j) (b j), a j && b j)) 0 i) cin := by
  induction i with
  | zero => simp [rippleCarry, pgRange, pgApply]
  | succ i ih =>
    simp only [rippleCarry, pgRange, fullAdder_spec, pgApply_op, Nat.zero_add]
    rw [← ih]
    generalize rippleCarry a b cin i = c
    simp only [pgApply]
    cases a i <;> cases b i <;> cases c <;> rfl

/-- **Kogge–Stone = ripple carry**, every width, every bit. -/
theorem ksSum_eq_ripple (n : Nat) (a b : Nat → Bool) (cin : Bool) (i : Nat) (hi : i < n) :
    ksSum n a b cin i = rippleSum a b cin i := by
  unfold ksSum rippleSum
  simp only [fullAdder_spec]
  by_cases h0 : i = 0
  · subst h0
    simp [rippleCarry]
  · rw [if_neg h0]
    have hspec := ksLoop_spec (fun j => (xor (a j) (b j), a j && b j)) n 1 n _ (Nat.le_refl 1) (by omega)
      (ksInv_init _) (i - 1) (by omega)
    rw [hspec]
    have e : i - 1 + 1 = i := by omega
    rw [e, rippleCarry_pg a b cin i]
    rfl

/-- `ripple_add` (either implementation) adds modulo `2^n`. -/
theorem addSum_eq_ripple (n : Nat) (a b : Nat → Bool) (cin : Bool) (i : Nat) (hi : i < n) :
    addSum n a b cin i = rippleSum a b cin i := by
  unfold addSum
  split
  · rfl
  · exact ksSum_eq_ripple n a b cin i hi

theorem addSum_value (n : Nat) (a b : Nat → Bool) (cin : Bool) :
    toNat (addSum n a b cin) n = (toNat a n + toNat b n + b2n cin) % 2 ^ n := by
  rw [toNat_congr _ _ n (fun i hi => addSum_eq_ripple n a b cin i hi)]
  have h := ripple_value a b cin n
  have hlt := toNat_lt (rippleSum a b cin) n
  rw [← h, Nat.add_mul_mod_self_left, Nat.mod_eq_of_lt hlt]

theorem toNat_not (b : Nat → Bool) (n : Nat) : toNat (fun j => !(b j)) n + toNat b n + 1 = 2 ^ n := by
  induction n with
  | zero => simp [toNat]
  | succ n ih =>
    simp only [toNat]
    have hp : 2 ^ (n + 1) = 2 * 2 ^ n := by rw [Nat.pow_succ]; omega
    by_cases hb : b n = true <;> simp [hb] <;> omega

/-- `ripple_sub` subtracts modulo `2^n`. -/
theorem subSum_value (n : Nat) (a b : Nat → Bool) :
    toNat (subSum n a b) n = (toNat a n + 2 ^ n - toNat b n) % 2 ^ n := by
  unfold subSum
  rw [addSum_value]
  have h := toNat_not b n
  have : toNat a n + toNat (fun j => !(b j)) n + b2n true = toNat a n + 2 ^ n - toNat b n := by
    simp only [b2n, if_true]; omega
  rw [this]

theorem toNat_zext (a : Nat → Bool) (n : Nat) :
    toNat (fun j => if j < n then a j else false) (n + 1) = toNat a n := by
  simp only [toNat, Nat.lt_irrefl, if_false]
  exact toNat_congr _ _ n (fun i hi => by simp [hi])

theorem bit_top (x : Nat → Bool) (n : Nat) : x n = decide (2 ^ n ≤ toNat x (n + 1)) := by
  simp only [toNat]
  have := toNat_lt x n
  by_cases hx : x n = true <;> simp [hx] <;> omega

/-- `compare(a, b, Less, unsigned)`: the extension bit of the difference is `a < b`. -/
theorem lessUnsigned_value (n : Nat) (a b : Nat → Bool) :
    lessUnsigned n a b = decide (toNat a n < toNat b n) := by
  unfold lessUnsigned
  rw [bit_top (subSum (n + 1) _ _) n, subSum_value, toNat_zext, toNat_zext]
  have ha := toNat_lt a n
  have hb := toNat_lt b n
  have hp : 2 ^ (n + 1) = 2 * 2 ^ n := by rw [Nat.pow_succ]; omega
  rw [hp]
  generalize 2 ^ n = X at *
  generalize toNat a n = A at *
  generalize toNat b n = B at *
  by_cases hlt : A < B
  · have e : (A + 2 * X - B) % (2 * X) = A + 2 * X - B := Nat.mod_eq_of_lt (by omega)
    rw [e]
    simp [hlt]; omega
  · have e : (A + 2 * X - B) % (2 * X) = A - B := by
      have : A + 2 * X - B = (A - B) + 1 * (2 * X) := by omega
      rw [this, Nat.add_mul_mod_self_right, Nat.mod_eq_of_lt (by omega)]
    rw [e]
    simp [hlt]; omega

/-! ## Sklansky prefix network -/

theorem scanFrom_append {α : Type} (op : α → α → α) (acc : α) (ys : List α) (z : α) (zs : List α) :
    scanFrom op acc (ys ++ z :: zs) = scanFrom op acc ys ++ scanFrom op (op (ys.foldl op acc) z) zs := by
  induction ys generalizing acc with
  | nil => rfl
  | cons y ys ih => simp only [List.cons_append, scanFrom, List.foldl_cons, ih]

theorem scanFrom_map {α : Type} (op : α → α → α) (hassoc : ∀ a b c, op (op a b) c = op a (op b c))
    (c z : α) (zs : List α) : (scanFrom op z zs).map (op c) = scanFrom op (op c z) zs := by
  induction zs generalizing z with
  | nil => rfl
  | cons y ys ih => simp only [scanFrom, List.map_cons, ih, hassoc]

theorem scanFrom_getLast {α : Type} (op : α → α → α) (acc : α) (ys : List α) :
    (scanFrom op acc ys).getLast? = some (ys.foldl op acc) := by
  induction ys generalizing acc with
  | nil => rfl
  | cons y ys ih =>
    simp only [scanFrom, List.foldl_cons]
    rw [List.getLast?_cons_of_ne_nil, ih]
    cases ys <;> simp [scanFrom]

/-- **Sklansky = all prefixes of the running fold**, for any associative operator and any length. -/
theorem sklansky_prefixes {α : Type} (op : α → α → α) (hassoc : ∀ a b c, op (op a b) c = op a (op b c))
    (leaves : List α) : sklansky op leaves = prefixes op leaves := by
  suffices hs : ∀ n (leaves : List α), leaves.length = n → sklansky op leaves = prefixes op leaves from
    hs _ leaves rfl
  intro n
  induction n using Nat.strongRecOn with
  | ind n ih =>
    intro leaves hn
    unfold sklansky
    by_cases h1 : leaves.length ≤ 1
    · rw [dif_pos h1]
      match leaves, h1 with
      | [], _ => rfl
      | [x], _ => rfl
    · rw [dif_neg h1]
      simp only
      have hlen1 : (leaves.take (leaves.length / 2)).length < n := by
        rw [List.length_take]; omega
      have hlen2 : (leaves.drop (leaves.length / 2)).length < n := by
        rw [List.length_drop]; omega
      rw [ih _ hlen1 _ rfl, ih _ hlen2 _ rfl]
      -- both halves are non-empty
      have hl1 : (leaves.take (leaves.length / 2)).length = leaves.length / 2 := by
        rw [List.length_take]; omega
      have hl2 : (leaves.drop (leaves.length / 2)).length = leaves.length - leaves.length / 2 := by
        rw [List.length_drop]
      cases ht : leaves.take (leaves.length / 2) with
      | nil =>
        rw [ht] at hl1
        simp only [List.length_nil] at hl1
        omega
      | cons x xs =>
        cases hd : leaves.drop (leaves.length / 2) with
        | nil =>
          rw [hd] at hl2
          simp only [List.length_nil] at hl2
          omega
        | cons z zs =>
          have hsplit : leaves = (x :: xs) ++ (z :: zs) := by
            rw [← ht, ← hd, List.take_append_drop]
          simp only [prefixes]
          rw [scanFrom_getLast]
          simp only
          rw [scanFrom_map op hassoc, hsplit]
          simp only [List.cons_append]
          rw [scanFrom_append]

/-! ## re-association of chains -/

theorem foldl_init {α : Type} (op : α → α → α) (e : α) (hassoc : ∀ a b c, op (op a b) c = op a (op b c))
    (hid : ∀ a, op a e = a) (a : α) (l : List α) : l.foldl op a = op a (l.foldl op e) := by
  induction l generalizing a with
  | nil => simp [hid]
  | cons x xs ih =>
    simp only [List.foldl_cons]
    rw [ih (op a x), ih (op e x), ← hassoc, ← hassoc, hid]

/-- A tree over the leaves computes the fold over the leaf list. -/
theorem tree_eval_fold {α : Type} (op : α → α → α) (e : α) (hassoc : ∀ a b c, op (op a b) c = op a (op b c))
    (hidl : ∀ a, op e a = a) (hidr : ∀ a, op a e = a) (t : Tree α) :
    t.eval op = t.leaves.foldl op e := by
  induction t with
  | leaf a => simp [Tree.eval, Tree.leaves, hidl]
  | node l r ihl ihr =>
    simp only [Tree.eval, Tree.leaves, List.foldl_append]
    rw [foldl_init op e hassoc hidr (l.leaves.foldl op e), ihl, ihr]

theorem foldl_perm {α : Type} (op : α → α → α) (hrc : ∀ a b c, op (op a b) c = op (op a c) b)
    (l1 l2 : List α) (h : l1.Perm l2) (init : α) : l1.foldl op init = l2.foldl op init := by
  induction h generalizing init with
  | nil => rfl
  | cons x _ ih => simp only [List.foldl_cons]; exact ih _
  | swap x y l => simp only [List.foldl_cons]; rw [hrc]
  | trans _ _ ih1 ih2 => exact (ih1 init).trans (ih2 init)

/-- **Any tree over any permutation of the leaves gives the same value** (associative, commutative
    operator with identity). -/
theorem tree_reassoc {α : Type} (op : α → α → α) (e : α) (hassoc : ∀ a b c, op (op a b) c = op a (op b c))
    (hcomm : ∀ a b, op a b = op b a) (hidl : ∀ a, op e a = a) (t1 t2 : Tree α)
    (h : t1.leaves.Perm t2.leaves) : t1.eval op = t2.eval op := by
  have hidr : ∀ a, op a e = a := fun a => by rw [hcomm, hidl]
  rw [tree_eval_fold op e hassoc hidl hidr, tree_eval_fold op e hassoc hidl hidr]
  apply foldl_perm op _ _ _ h
  intro a b c
  rw [hassoc, hcomm b c, ← hassoc]

/-! ## counters -/

theorem inc_value (x : Nat → Bool) (n : Nat) :
    toNat (incStage true x) n + 2 ^ n * b2n (allOnesBelow x n) = toNat x n + 1 := by
  induction n with
  | zero => simp [toNat, allOnesBelow, b2n]
  | succ n ih =>
    simp only [toNat, allOnesBelow]
    have hp : 2 ^ (n + 1) = 2 * 2 ^ n := by rw [Nat.pow_succ]; omega
    rw [hp]
    have hbit : incStage true x n = xor (x n) (allOnesBelow x n) := by
      unfold incStage
      cases n with
      | zero => simp [CellKind.eval, ins, allOnesBelow]
      | succ k => simp [CellKind.eval, ins]
    rw [hbit]
    generalize 2 ^ n = X at *
    generalize allOnesBelow x n = A at *
    generalize toNat (incStage true x) n = S at *
    cases x n <;> cases A <;> simp [b2n] at * <;> omega

theorem incStage_false (x : Nat → Bool) (k : Nat) : incStage false x k = x k := by
  unfold incStage
  by_cases h : k = 0
  · subst h; simp [CellKind.eval, ins]
  · simp [h, CellKind.eval, ins]

/-- One conditional-increment stage adds `c` modulo `2^w`. -/
theorem incStage_value (c : Bool) (x : Nat → Bool) (w : Nat) :
    toNat (incStage c x) w = (toNat x w + b2n c) % 2 ^ w := by
  cases c with
  | false =>
    rw [toNat_congr _ _ w (fun i _ => incStage_false x i)]
    simp [b2n, Nat.mod_eq_of_lt (toNat_lt x w)]
  | true =>
    have h := inc_value x w
    have hlt := toNat_lt (incStage true x) w
    simp only [b2n, if_true]
    rw [← h, Nat.add_mul_mod_self_left, Nat.mod_eq_of_lt hlt]

/-- A chain of conditional increments is `seed + popcount(conditions)` modulo `2^w`. -/
theorem condIncs_popcount (M seed : Nat) (conds : List Bool) :
    conds.foldl (fun v c => (v + b2n c) % M) (seed % M) = (seed + popcount conds) % M := by
  induction conds generalizing seed with
  | nil => simp [popcount]
  | cons c cs ih =>
    simp only [List.foldl_cons, popcount]
    have : (seed % M + b2n c) % M = (seed + b2n c) % M := by
      rw [Nat.add_mod, Nat.mod_mod, ← Nat.add_mod]
    rw [this, ih (seed + b2n c)]
    simp only [b2n]
    congr 1
    omega

theorem addMod_eq_ripple (a b : Nat → Bool) (i : Nat) : addModSum a b i = rippleSum a b false i := by
  have hc : ∀ k, addModCarry a b k = rippleCarry a b false k := by
    intro k
    induction k with
    | zero => rfl
    | succ k ih => simp only [addModCarry, rippleCarry, fullAdder_spec, ih]
  unfold addModSum rippleSum
  rw [fullAdder_spec, hc]

/-- `add_mod` adds modulo `2^w`. -/
theorem addMod_value (a b : Nat → Bool) (w : Nat) :
    toNat (addModSum a b) w = (toNat a w + toNat b w) % 2 ^ w := by
  rw [toNat_congr _ _ w (fun i _ => addMod_eq_ripple a b i)]
  have h := ripple_value a b false w
  have hlt := toNat_lt (rippleSum a b false) w
  rw [show b2n false = 0 from rfl, Nat.add_zero] at h
  rw [← h, Nat.add_mul_mod_self_left, Nat.mod_eq_of_lt hlt]

/-! ## constant propagation: `simplify` is sound -/

/-- An assignment of the nets that respects the two constant nets and what is known (`iv`). -/
structure Knows (env : Nat → Bool) (iv : IV) (nets : Nets) : Prop where
  c0 : env NET_CONST0 = false
  c1 : env NET_CONST1 = true
  known : ∀ i b, iv i = some b → env (nets i) = b

/-- The value the cell computes under `env`. -/
def cellValue (kind : CellKind) (env : Nat → Bool) (nets : Nets) : Bool :=
  kind.eval (fun i => env (nets i))

-- Case analysis over what is known about the inputs (`iv 0 … iv (n-1)`), then simplification.
set_option hygiene false in
macro "simpl_cases2" : tactic => `(tactic| (
  generalize iv 0 = o0 at *
  generalize iv 1 = o1 at *
  rcases o0 with _ | _ | _ <;> rcases o1 with _ | _ | _ <;>
    simp_all [CellKind.eval, Simpl.eval, invertSimpl, NET_CONST0, NET_CONST1] <;>
    (try (first
      | (subst h; simp_all [Simpl.eval])
      | (obtain ⟨h1, h2⟩ := h; subst h2; simp_all [Simpl.eval])
      | (rcases h with ⟨h1, h2⟩ | ⟨h1, h2⟩ <;> subst h2 <;> simp_all [Simpl.eval])
      | (split at h <;> simp_all [Simpl.eval] <;> (try (subst h; simp_all [Simpl.eval])))))))

set_option hygiene false in
macro "simpl_cases3" : tactic => `(tactic| (
  generalize iv 0 = o0 at *
  generalize iv 1 = o1 at *
  generalize iv 2 = o2 at *
  rcases o0 with _ | _ | _ <;> rcases o1 with _ | _ | _ <;> rcases o2 with _ | _ | _ <;>
    simp_all [CellKind.eval, Simpl.eval, invertSimpl, NET_CONST0, NET_CONST1] <;>
    (try (first
      | (subst h; simp_all [Simpl.eval])
      | (obtain ⟨h1, h2⟩ := h; subst h2; simp_all [Simpl.eval])
      | (rcases h with ⟨h1, h2⟩ | ⟨h1, h2⟩ <;> subst h2 <;> simp_all [Simpl.eval])
      | (split at h <;> simp_all [Simpl.eval] <;> (try (subst h; simp_all [Simpl.eval])))))))

set_option hygiene false in
macro "simpl_cases4" : tactic => `(tactic| (
  generalize iv 0 = o0 at *
  generalize iv 1 = o1 at *
  generalize iv 2 = o2 at *
  generalize iv 3 = o3 at *
  rcases o0 with _ | _ | _ <;> rcases o1 with _ | _ | _ <;> rcases o2 with _ | _ | _ <;> rcases o3 with _ | _ | _ <;>
    simp_all [CellKind.eval, Simpl.eval, invertSimpl, NET_CONST0, NET_CONST1] <;>
    (try (first
      | (subst h; simp_all [Simpl.eval])
      | (obtain ⟨h1, h2⟩ := h; subst h2; simp_all [Simpl.eval])
      | (rcases h with ⟨h1, h2⟩ | ⟨h1, h2⟩ <;> subst h2 <;> simp_all [Simpl.eval])
      | (split at h <;> simp_all [Simpl.eval] <;> (try (subst h; simp_all [Simpl.eval])))))))

section
variable (env : Nat → Bool) (iv : IV) (nets : Nets) (k : Knows env iv nets)
include k

theorem absorb2_sound (kind : CellKind) (p : AbsorbParams)
    (hk : (kind = .and2 ∧ p = .AND) ∨ (kind = .or2 ∧ p = .OR) ∨ (kind = .nand2 ∧ p = .NAND) ∨ (kind = .nor2 ∧ p = .NOR))
    (s : Simpl) (h : simplAbsorb2 iv nets p = some s) : cellValue kind env nets = s.eval env := by
  have k0 := k.known 0
  have k1 := k.known 1
  unfold simplAbsorb2 at h
  unfold cellValue
  rcases hk with ⟨rfl, rfl⟩ | ⟨rfl, rfl⟩ | ⟨rfl, rfl⟩ | ⟨rfl, rfl⟩ <;>
  · simp only [AbsorbParams.AND, AbsorbParams.OR, AbsorbParams.NAND, AbsorbParams.NOR] at h
    simpl_cases2

theorem absorb3_sound (kind : CellKind) (p : AbsorbParams)
    (hk : (kind = .and3 ∧ p = .AND) ∨ (kind = .or3 ∧ p = .OR) ∨ (kind = .nand3 ∧ p = .NAND) ∨ (kind = .nor3 ∧ p = .NOR))
    (s : Simpl) (h : simplAbsorb3 iv nets p = some s) : cellValue kind env nets = s.eval env := by
  have k0 := k.known 0
  have k1 := k.known 1
  have k2 := k.known 2
  unfold simplAbsorb3 at h
  unfold cellValue
  rcases hk with ⟨rfl, rfl⟩ | ⟨rfl, rfl⟩ | ⟨rfl, rfl⟩ | ⟨rfl, rfl⟩ <;>
  · simp only [AbsorbParams.AND, AbsorbParams.OR, AbsorbParams.NAND, AbsorbParams.NOR] at h
    simpl_cases3

theorem xorFamily_sound (kind : CellKind) (par : Bool)
    (hk : (kind = .xor2 ∧ par = false) ∨ (kind = .xnor2 ∧ par = true))
    (s : Simpl) (h : simplXorFamily iv nets par = some s) : cellValue kind env nets = s.eval env := by
  have k0 := k.known 0
  have k1 := k.known 1
  unfold simplXorFamily at h
  unfold cellValue
  rcases hk with ⟨rfl, rfl⟩ | ⟨rfl, rfl⟩ <;> simpl_cases2

theorem mux2_sound (s : Simpl) (h : simplMux2 iv nets = some s) : cellValue .mux2 env nets = s.eval env := by
  have k0 := k.known 0
  have k1 := k.known 1
  have k2 := k.known 2
  unfold simplMux2 at h
  unfold cellValue
  simpl_cases3

theorem aoiFamily_sound (kind : CellKind) (isAoi : Bool)
    (hk : (kind = .aoi21 ∧ isAoi = true) ∨ (kind = .oai21 ∧ isAoi = false))
    (s : Simpl) (h : simplAoiFamily iv nets isAoi = some s) : cellValue kind env nets = s.eval env := by
  have k0 := k.known 0
  have k1 := k.known 1
  have k2 := k.known 2
  unfold simplAoiFamily at h
  unfold cellValue
  rcases hk with ⟨rfl, rfl⟩ | ⟨rfl, rfl⟩ <;> simpl_cases3

theorem aoFamily_sound (kind : CellKind) (isAo : Bool)
    (hk : (kind = .ao21 ∧ isAo = true) ∨ (kind = .oa21 ∧ isAo = false))
    (s : Simpl) (h : simplAoFamily iv nets isAo = some s) : cellValue kind env nets = s.eval env := by
  have k0 := k.known 0
  have k1 := k.known 1
  have k2 := k.known 2
  unfold simplAoFamily at h
  unfold cellValue
  rcases hk with ⟨rfl, rfl⟩ | ⟨rfl, rfl⟩ <;> simpl_cases3

theorem ao31_sound (kind : CellKind) (inv : Bool)
    (hk : (kind = .ao31 ∧ inv = false) ∨ (kind = .aoi31 ∧ inv = true))
    (s : Simpl) (h : simplAo31 iv nets inv = some s) : cellValue kind env nets = s.eval env := by
  have k0 := k.known 0
  have k1 := k.known 1
  have k2 := k.known 2
  have k3 := k.known 3
  unfold simplAo31 at h
  unfold cellValue
  rcases hk with ⟨rfl, rfl⟩ | ⟨rfl, rfl⟩ <;> simpl_cases4

theorem ao22_sound (s : Simpl) (h : simplAo22 iv nets = some s) : cellValue .ao22 env nets = s.eval env := by
  have k0 := k.known 0
  have k1 := k.known 1
  have k2 := k.known 2
  have k3 := k.known 3
  have c0 := k.c0
  have z : ∀ i, nets i = NET_CONST0 → env (nets i) = false := fun i e => by rw [e]; exact c0
  unfold simplAo22 at h
  unfold cellValue
  simp only [CellKind.eval]
  -- the semantic content of every guard
  have hab1 : (decide (iv 0 = some true) && decide (iv 1 = some true)) = true →
      env (nets 0) = true ∧ env (nets 1) = true := by
    intro g; simp only [Bool.and_eq_true, decide_eq_true_eq] at g; exact ⟨k0 _ g.1, k1 _ g.2⟩
  have hcd1 : (decide (iv 2 = some true) && decide (iv 3 = some true)) = true →
      env (nets 2) = true ∧ env (nets 3) = true := by
    intro g; simp only [Bool.and_eq_true, decide_eq_true_eq] at g; exact ⟨k2 _ g.1, k3 _ g.2⟩
  have hab0 : (decide (iv 0 = some false) || decide (iv 1 = some false) || decide (nets 0 = NET_CONST0)
      || decide (nets 1 = NET_CONST0)) = true → (env (nets 0) && env (nets 1)) = false := by
    intro g
    simp only [Bool.or_eq_true, decide_eq_true_eq] at g
    rcases g with ((g | g) | g) | g
    · rw [k0 _ g]; rfl
    · rw [k1 _ g]; simp
    · rw [z 0 g]; rfl
    · rw [z 1 g]; simp
  have hcd0 : (decide (iv 2 = some false) || decide (iv 3 = some false) || decide (nets 2 = NET_CONST0)
      || decide (nets 3 = NET_CONST0)) = true → (env (nets 2) && env (nets 3)) = false := by
    intro g
    simp only [Bool.or_eq_true, decide_eq_true_eq] at g
    rcases g with ((g | g) | g) | g
    · rw [k2 _ g]; rfl
    · rw [k3 _ g]; simp
    · rw [z 2 g]; rfl
    · rw [z 3 g]; simp
  generalize (decide (iv 0 = some true) && decide (iv 1 = some true)) = ab1 at *
  generalize (decide (iv 2 = some true) && decide (iv 3 = some true)) = cd1 at *
  generalize (decide (iv 0 = some false) || decide (iv 1 = some false) || decide (nets 0 = NET_CONST0)
      || decide (nets 1 = NET_CONST0)) = ab0 at *
  generalize (decide (iv 2 = some false) || decide (iv 3 = some false) || decide (nets 2 = NET_CONST0)
      || decide (nets 3 = NET_CONST0)) = cd0 at *
  simp only [Bool.or_eq_true, Bool.and_eq_true, decide_eq_true_eq] at h
  repeat' split at h
  all_goals cases h
  all_goals simp only [Simpl.eval]
  all_goals (first | (simp_all; done) | grind)

omit k in
theorem invertSimpl_eval (s : Simpl) : (invertSimpl s).eval env = !(s.eval env) := by
  cases s <;> simp [invertSimpl, Simpl.eval]

theorem aoi22_sound (s : Simpl) (h : (simplAo22 iv nets).map invertSimpl = some s) :
    cellValue .aoi22 env nets = s.eval env := by
  cases h2 : simplAo22 iv nets with
  | none => rw [h2] at h; cases h
  | some t =>
    rw [h2] at h
    simp only [Option.map_some, Option.some.injEq] at h
    subst h
    rw [invertSimpl_eval env, ← ao22_sound env iv nets k t h2]
    rfl

theorem oai22_sound (s : Simpl) (h : simplOai22 iv nets = some s) : cellValue .oai22 env nets = s.eval env := by
  have k0 := k.known 0
  have k1 := k.known 1
  have k2 := k.known 2
  have k3 := k.known 3
  have c1 := k.c1
  have z : ∀ i, nets i = NET_CONST1 → env (nets i) = true := fun i e => by rw [e]; exact c1
  unfold simplOai22 at h
  unfold cellValue
  simp only [CellKind.eval]
  have hab0 : (decide (iv 0 = some false) && decide (iv 1 = some false)) = true →
      env (nets 0) = false ∧ env (nets 1) = false := by
    intro g; simp only [Bool.and_eq_true, decide_eq_true_eq] at g; exact ⟨k0 _ g.1, k1 _ g.2⟩
  have hcd0 : (decide (iv 2 = some false) && decide (iv 3 = some false)) = true →
      env (nets 2) = false ∧ env (nets 3) = false := by
    intro g; simp only [Bool.and_eq_true, decide_eq_true_eq] at g; exact ⟨k2 _ g.1, k3 _ g.2⟩
  have hab1 : (decide (iv 0 = some true) || decide (iv 1 = some true) || decide (nets 0 = NET_CONST1)
      || decide (nets 1 = NET_CONST1)) = true → (env (nets 0) || env (nets 1)) = true := by
    intro g
    simp only [Bool.or_eq_true, decide_eq_true_eq] at g
    rcases g with ((g | g) | g) | g
    · rw [k0 _ g]; rfl
    · rw [k1 _ g]; simp
    · rw [z 0 g]; rfl
    · rw [z 1 g]; simp
  have hcd1 : (decide (iv 2 = some true) || decide (iv 3 = some true) || decide (nets 2 = NET_CONST1)
      || decide (nets 3 = NET_CONST1)) = true → (env (nets 2) || env (nets 3)) = true := by
    intro g
    simp only [Bool.or_eq_true, decide_eq_true_eq] at g
    rcases g with ((g | g) | g) | g
    · rw [k2 _ g]; rfl
    · rw [k3 _ g]; simp
    · rw [z 2 g]; rfl
    · rw [z 3 g]; simp
  generalize (decide (iv 0 = some false) && decide (iv 1 = some false)) = ab0 at *
  generalize (decide (iv 2 = some false) && decide (iv 3 = some false)) = cd0 at *
  generalize (decide (iv 0 = some true) || decide (iv 1 = some true) || decide (nets 0 = NET_CONST1)
      || decide (nets 1 = NET_CONST1)) = ab1 at *
  generalize (decide (iv 2 = some true) || decide (iv 3 = some true) || decide (nets 2 = NET_CONST1)
      || decide (nets 3 = NET_CONST1)) = cd1 at *
  simp only [Bool.or_eq_true, Bool.and_eq_true] at h
  repeat' split at h
  all_goals cases h
  all_goals simp only [Simpl.eval]
  all_goals (first | (simp_all; done) | grind)

/-- **`simplify` is sound for all 22 cell kinds**: whatever it returns evaluates to the cell's value
    under every assignment consistent with the known inputs. -/
theorem simplify_sound (kind : CellKind) (s : Simpl) (h : simplify kind iv nets = some s) :
    cellValue kind env nets = s.eval env := by
  cases kind <;> simp only [simplify] at h
  case buf =>
    cases hv : iv 0 with
    | none => rw [hv] at h; cases h
    | some b =>
      rw [hv] at h; simp only [Option.map_some, Option.some.injEq] at h; subst h
      simp [cellValue, CellKind.eval, Simpl.eval, k.known 0 b hv]
  case not =>
    cases hv : iv 0 with
    | none => rw [hv] at h; cases h
    | some b =>
      rw [hv] at h; simp only [Option.map_some, Option.some.injEq] at h; subst h
      simp [cellValue, CellKind.eval, Simpl.eval, k.known 0 b hv]
  case and2 => exact absorb2_sound env iv nets k _ _ (Or.inl ⟨rfl, rfl⟩) s h
  case or2 => exact absorb2_sound env iv nets k _ _ (Or.inr (Or.inl ⟨rfl, rfl⟩)) s h
  case nand2 => exact absorb2_sound env iv nets k _ _ (Or.inr (Or.inr (Or.inl ⟨rfl, rfl⟩))) s h
  case nor2 => exact absorb2_sound env iv nets k _ _ (Or.inr (Or.inr (Or.inr ⟨rfl, rfl⟩))) s h
  case xor2 => exact xorFamily_sound env iv nets k _ _ (Or.inl ⟨rfl, rfl⟩) s h
  case xnor2 => exact xorFamily_sound env iv nets k _ _ (Or.inr ⟨rfl, rfl⟩) s h
  case and3 => exact absorb3_sound env iv nets k _ _ (Or.inl ⟨rfl, rfl⟩) s h
  case or3 => exact absorb3_sound env iv nets k _ _ (Or.inr (Or.inl ⟨rfl, rfl⟩)) s h
  case nand3 => exact absorb3_sound env iv nets k _ _ (Or.inr (Or.inr (Or.inl ⟨rfl, rfl⟩))) s h
  case nor3 => exact absorb3_sound env iv nets k _ _ (Or.inr (Or.inr (Or.inr ⟨rfl, rfl⟩))) s h
  case ao21 => exact aoFamily_sound env iv nets k _ _ (Or.inl ⟨rfl, rfl⟩) s h
  case aoi21 => exact aoiFamily_sound env iv nets k _ _ (Or.inl ⟨rfl, rfl⟩) s h
  case oa21 => exact aoFamily_sound env iv nets k _ _ (Or.inr ⟨rfl, rfl⟩) s h
  case oai21 => exact aoiFamily_sound env iv nets k _ _ (Or.inr ⟨rfl, rfl⟩) s h
  case ao31 => exact ao31_sound env iv nets k _ _ (Or.inl ⟨rfl, rfl⟩) s h
  case aoi31 => exact ao31_sound env iv nets k _ _ (Or.inr ⟨rfl, rfl⟩) s h
  case ao22 => exact ao22_sound env iv nets k s h
  case aoi22 => exact aoi22_sound env iv nets k s h
  case oai22 => exact oai22_sound env iv nets k s h
  case mux2 => exact mux2_sound env iv nets k s h

end

/-! ## compound-cell fusion tables (generated from postpass.rs / worklist.rs) -/

theorem postNotFuse_sound (up new : CellKind) (h : postNotFuse up = some new) (x : Nat → Bool) :
    new.eval x = CellKind.eval .not (ins [up.eval x]) := by
  cases up <;> simp [postNotFuse] at h <;> subst h <;> simp [CellKind.eval, ins]

theorem worklistNotFuse_sound (up new : CellKind) (h : worklistNotFuse up = some new) (x : Nat → Bool) :
    new.eval x = CellKind.eval .not (ins [up.eval x]) := by
  cases up <;> simp [worklistNotFuse] at h <;> subst h <;> simp [CellKind.eval, ins]

/-- Inputs of the fused cell: the inner cell's inputs first, then the outer cell's other operand. -/
def fusedInputs (inner : CellKind) (x : Nat → Bool) (y : Bool) : Nat → Bool :=
  fun i => if i < inner.arity then x i else y

theorem postPivotFuse_sound (outer inner new : CellKind) (h : postPivotFuse outer inner = some new)
    (x : Nat → Bool) (y : Bool) :
    new.eval (fusedInputs inner x y) = outer.eval (ins [inner.eval x, y]) ∧
    new.eval (fusedInputs inner x y) = outer.eval (ins [y, inner.eval x]) := by
  generalize ha : x 0 = a
  generalize hb : x 1 = b
  generalize hc : x 2 = c
  cases outer <;> cases inner <;> simp [postPivotFuse] at h <;> subst h <;>
    simp [CellKind.eval, ins, fusedInputs, CellKind.arity, ha, hb, hc] <;>
    cases a <;> cases b <;> cases c <;> cases y <;> simp

theorem postPivotFuse_outer (outer inner new : CellKind) (h : postPivotFuse outer inner = some new) :
    outer ∈ postPivotOuter := by
  cases outer <;> cases inner <;> simp [postPivotFuse] at h <;> simp [postPivotOuter]

theorem postTwoPivotFuse_sound (outer leg comp : CellKind) (h : postTwoPivotFuse outer = some (leg, comp))
    (a b c d : Bool) :
    comp.eval (ins [a, b, c, d]) = outer.eval (ins [leg.eval (ins [a, b]), leg.eval (ins [c, d])]) := by
  cases outer <;> simp [postTwoPivotFuse] at h <;> obtain ⟨h1, h2⟩ := h <;> subst h1 <;> subst h2 <;>
    cases a <;> cases b <;> cases c <;> cases d <;> rfl

end VerylModel.SynthRules
