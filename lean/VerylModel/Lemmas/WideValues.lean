import VerylModel.Lemmas.WideSigned
import VerylModel.Lemmas.WideReduce
/-! Value-level corollaries (bits → arithmetic) used by Props/C18. -/
namespace VerylModel.Wide

theorem pad_of_lt {a : List Nat} {w : Nat} (ha : Words a) (h : toNat a < 2 ^ w) : ∀ j, w ≤ j → bitAt a j = false := by
  intro j hj
  rw [← testBit_toNat ha]
  apply Nat.testBit_lt_two_pow
  exact Nat.lt_of_lt_of_le h (Nat.pow_le_pow_right (by decide) hj)

/-- `wide_ashr` as arithmetic: logical shift plus ones in the vacated positions when negative. -/
theorem ashr_toNat (dst a : List Nat) (amount p : Nat)
    (hnb : unpackNb p ≠ 0) (hw : unpackWidth p ≠ 0) (hld : dst.length = nw (unpackNb p))
    (hwn : unpackWidth p ≤ 64 * nw (unpackNb p)) (ha : Words a) (hA : toNat a < 2 ^ unpackWidth p) :
    toNat (ashr dst a amount p) = toNat a / 2 ^ amount +
      (if (toNat a).testBit (unpackWidth p - 1) then 2 ^ unpackWidth p - 2 ^ (unpackWidth p - min amount (unpackWidth p)) else 0) := by
  have hs := ashr_spec dst a amount p hnb hw hld hwn ha (pad_of_lt ha hA)
  simp only at hs
  obtain ⟨_, hwds, hbits⟩ := hs
  generalize unpackWidth p = w at *
  apply toNat_eq_of_bits hwds
  intro k
  rw [hbits k, testBit_toNat ha]
  have hpad := pad_of_lt ha hA
  by_cases hsign : bitAt a (w - 1) = true
  · simp only [hsign, if_true]
    have hlow : toNat a / 2 ^ amount < 2 ^ (w - min amount w) := by
      rw [Nat.div_lt_iff_lt_mul (Nat.two_pow_pos _), ← Nat.pow_add]
      exact Nat.lt_of_lt_of_le hA (Nat.pow_le_pow_right (by decide) (by omega))
    rw [testBit_low_ones _ _ _ _ hlow (by omega), Nat.testBit_div_two_pow, testBit_toNat ha]
    by_cases hk : k < w
    · by_cases h1 : k + amount < w
      · have : k < w - min amount w := by omega
        simp [hk, h1, this]
      · have : ¬ k < w - min amount w := by omega
        simp [hk, h1, this]
    · have : ¬ k < w - min amount w := by omega
      simp [hk, this]
  · have hsign' : bitAt a (w - 1) = false := by simpa using hsign
    simp only [hsign', Bool.false_eq_true, if_false, Nat.add_zero]
    rw [Nat.testBit_div_two_pow, testBit_toNat ha]
    by_cases hk : k < w
    · by_cases h1 : k + amount < w
      · simp [hk, h1]
      · simp [hk, h1, hpad (k + amount) (by omega)]
    · simp [hk, hpad (k + amount) (by omega)]

theorem applyMask_toNat (dst : List Nat) (p : Nat) (hw : unpackWidth p ≠ 0) (hnb : unpackNb p ≠ 0)
    (hld : dst.length = nw (unpackNb p)) (hd : Words dst) :
    toNat (applyMask dst p) = toNat dst % 2 ^ unpackWidth p := by
  apply toNat_eq_of_bits (applyMask_words dst p hd)
  intro k
  rw [bitAt_applyMask dst p k hw hnb (by omega), Nat.testBit_mod_two_pow, testBit_toNat hd]
  split
  · rfl
  · rename_i h
    have : bitAt dst k = false := bitAt_of_length_le (by omega)
    simp [this]

theorem fillOnes_toNat (dst : List Nat) (p : Nat) (hnb : unpackNb p ≠ 0)
    (hld : dst.length = nw (unpackNb p)) (hd : Words dst) :
    toNat (fillOnes dst p) = 2 ^ (min (unpackWidth p) (64 * nw (unpackNb p))) - 1 := by
  apply toNat_eq_of_bits (fillOnes_words dst p hd)
  intro k
  rw [bitAt_fillOnes dst p k hnb (by omega), Nat.testBit_two_pow_sub_one]
  split
  · rename_i h
    apply decide_eq_decide.mpr
    omega
  · rename_i h
    have h1 : bitAt dst k = false := bitAt_of_length_le (by omega)
    have h2 : ¬ k < min (unpackWidth p) (64 * nw (unpackNb p)) := by omega
    simp [h1, h2]

theorem isAllOnes_spec (a : List Nat) (p : Nat) (ha : Words a) :
    isAllOnes a p = if toNat a % 2 ^ unpackWidth p = 2 ^ unpackWidth p - 1 then 1 else 0 := by
  have h1 := isAllOnes_iff a p ha
  have h2 := all_bits_iff_mod (toNat a) (unpackWidth p)
  have h3 : (∀ k, k < unpackWidth p → bitAt a k = true) ↔ (∀ k, k < unpackWidth p → (toNat a).testBit k = true) := by
    constructor <;> intro h k hk
    · rw [testBit_toNat ha]; exact h k hk
    · rw [← testBit_toNat ha]; exact h k hk
  rw [h3, h2] at h1
  rcases isAllOnes_values a p with h | h
  · have : ¬ (toNat a % 2 ^ unpackWidth p = 2 ^ unpackWidth p - 1) := by
      intro hc; rw [h1.mpr hc] at h; cases h
    simp [h, this]
  · simp [h, h1.mp h]

end VerylModel.Wide
