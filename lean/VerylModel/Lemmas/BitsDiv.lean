import VerylModel.Lemmas.BitsSigned
set_option linter.unusedSimpArgs false
set_option linter.unusedVariables false
/-! Division / modulus arms. -/
namespace VerylModel.Bits
open Ref Impl

/-- `ValueBigUint::new_bigint` encodes `z` in two's complement modulo `2^w` (for `|z| < 2^w`). -/
theorem Big.newBigint_eq_ofInt (z : Int) (w : Nat) (s : Bool) (hz : z.natAbs < 2 ^ w) :
    (Big.newBigint z w s).toBV = ofInt w z := by
  unfold Big.newBigint
  by_cases hneg : z < 0
  · simp only [hneg, if_true, V4.toBV, Big.genMask, neg_twos hz]
    rw [← ofInt_natCast]
    apply ofInt_congr
    have h1 : ((2 ^ w - z.natAbs : Nat) : Int) = z + ((2 ^ w : Nat) : Int) * 1 := by
      rw [Int.natCast_sub (Nat.le_of_lt hz), Int.ofNat_natAbs_of_nonpos (by omega)]; omega
    rw [h1, Int.add_mul_emod_self_left]
  · simp only [hneg, if_false, V4.toBV, Big.genMask, Nat.and_two_pow_sub_one_eq_mod]
    rw [← ofInt_natCast, Int.natAbs_of_nonneg (by omega)]

theorem toInt_natAbs_lt (a : BV) (W : Nat) (hW : 0 < W) (hwa : a.width = W) (hp : a.payload < 2 ^ W) :
    a.toInt.natAbs < 2 ^ W := by
  rw [toInt_eq a W hW hwa hp]
  have hpow : 2 ^ W = 2 ^ (W - 1) * 2 := by rw [← Nat.pow_succ]; congr 1; omega
  have hc : ((2 ^ W : Nat) : Int) = ((2 ^ (W - 1) : Nat) : Int) * 2 := by rw [hpow]; simp
  split <;> omega

theorem val_natAbs_lt (a : BV) (W : Nat) (s : Bool) (hW : 0 < W) (hwa : a.width = W)
    (hp : a.payload < 2 ^ W) : (val a s).natAbs < 2 ^ W := by
  unfold val
  cases s
  · simpa using hp
  · exact toInt_natAbs_lt a W hW hwa hp

theorem toInt_ne_zero (a : BV) (W : Nat) (hW : 0 < W) (hwa : a.width = W) (hp : a.payload < 2 ^ W)
    (h0 : a.payload ≠ 0) : a.toInt ≠ 0 := by
  rw [toInt_eq a W hW hwa hp]
  split <;> omega

theorem divBV_xz (a b : BV) (w : Nat) (s : Bool) (h : a.mask ≠ 0 ∨ b.mask ≠ 0 ∨ b.payload = 0) :
    divBV a b w s = allX w := by
  unfold divBV BV.hasXZ
  rcases h with h | h | h <;> simp [h]

theorem remBV_xz (a b : BV) (w : Nat) (s : Bool) (h : a.mask ≠ 0 ∨ b.mask ≠ 0 ∨ b.payload = 0) :
    remBV a b w s = allX w := by
  unfold remBV BV.hasXZ
  rcases h with h | h | h <;> simp [h]

theorem divBV_known (a b : BV) (w : Nat) (s : Bool) (h : ¬ (a.mask ≠ 0 ∨ b.mask ≠ 0 ∨ b.payload = 0)) :
    divBV a b w s = ofInt w (Int.tdiv (val a s) (val b s)) := by
  unfold divBV BV.hasXZ
  have h1 : a.mask = 0 := by omega
  have h2 : b.mask = 0 := by omega
  have h3 : b.payload ≠ 0 := by omega
  simp [h1, h2, h3]

theorem remBV_known (a b : BV) (w : Nat) (s : Bool) (h : ¬ (a.mask ≠ 0 ∨ b.mask ≠ 0 ∨ b.payload = 0)) :
    remBV a b w s = ofInt w (Int.tmod (val a s) (val b s)) := by
  unfold remBV BV.hasXZ
  have h1 : a.mask = 0 := by omega
  have h2 : b.mask = 0 := by omega
  have h3 : b.payload ≠ 0 := by omega
  simp [h1, h2, h3]

theorem Big.divOp_eq_ref (a b : V4) (w : Nat) (s : Bool) (hw0 : 0 < w) (ha : a.wf) (hb : b.wf)
    (hwa : a.width = w) (hwb : b.width = w) :
    ∃ r, Big.divOp a b w s = some r ∧ r.toBV = divBV a.toBV b.toBV w s := by
  have hpa : a.payload < 2 ^ w := by rw [← hwa]; exact ha.1
  unfold Big.divOp
  by_cases h : a.mask ≠ 0 ∨ b.mask ≠ 0 ∨ b.payload = 0
  · rw [if_pos h, divBV_xz _ _ _ _ h]; exact ⟨_, rfl, rfl⟩
  · rw [if_neg h, divBV_known _ _ _ _ h]
    have h1 : a.mask = 0 := by omega
    have h2 : b.mask = 0 := by omega
    cases s
    · simp only [Bool.false_eq_true, if_false]
      refine ⟨_, rfl, ?_⟩
      simp only [Big.new, V4.toBV, Big.genMask, Nat.and_two_pow_sub_one_eq_mod, val]
      rw [← ofInt_natCast, Int.ofNat_tdiv]; rfl
    · simp only [if_true, Big.toBigint_eq_toInt a w hw0 ha hwa h1, Big.toBigint_eq_toInt b w hw0 hb hwb h2,
        Option.bind_eq_bind, Option.bind_some]
      refine ⟨_, rfl, ?_⟩
      apply Big.newBigint_eq_ofInt
      exact Nat.lt_of_le_of_lt (Int.natAbs_tdiv_le_natAbs _ _) (toInt_natAbs_lt a.toBV w hw0 hwa hpa)

theorem Big.remOp_eq_ref (a b : V4) (w : Nat) (s : Bool) (hw0 : 0 < w) (ha : a.wf) (hb : b.wf)
    (hwa : a.width = w) (hwb : b.width = w) :
    ∃ r, Big.remOp a b w s = some r ∧ r.toBV = remBV a.toBV b.toBV w s := by
  have hpa : a.payload < 2 ^ w := by rw [← hwa]; exact ha.1
  unfold Big.remOp
  by_cases h : a.mask ≠ 0 ∨ b.mask ≠ 0 ∨ b.payload = 0
  · rw [if_pos h, remBV_xz _ _ _ _ h]; exact ⟨_, rfl, rfl⟩
  · rw [if_neg h, remBV_known _ _ _ _ h]
    have h1 : a.mask = 0 := by omega
    have h2 : b.mask = 0 := by omega
    cases s
    · simp only [Bool.false_eq_true, if_false]
      refine ⟨_, rfl, ?_⟩
      simp only [Big.new, V4.toBV, Big.genMask, Nat.and_two_pow_sub_one_eq_mod, val]
      rw [← ofInt_natCast, Int.ofNat_tmod]; rfl
    · simp only [if_true, Big.toBigint_eq_toInt a w hw0 ha hwa h1, Big.toBigint_eq_toInt b w hw0 hb hwb h2,
        Option.bind_eq_bind, Option.bind_some]
      refine ⟨_, rfl, ?_⟩
      apply Big.newBigint_eq_ofInt
      rw [Int.natAbs_tmod]
      exact Nat.lt_of_le_of_lt (Nat.mod_le _ _) (toInt_natAbs_lt a.toBV w hw0 hwa hpa)

end VerylModel.Bits

namespace VerylModel.Bits
open Ref Impl

theorem ofI64_and_mask (z : Int) (w : Nat) (h64 : w ≤ 64) :
    U64.ofI64 z &&& (2 ^ w - 1) = (z % ((2 ^ w : Nat) : Int)).toNat := by
  rw [Nat.and_two_pow_sub_one_eq_mod]
  unfold U64.ofI64
  have hpos64 : (0 : Int) < ((2 ^ 64 : Nat) : Int) := Int.ofNat_lt.mpr (Nat.two_pow_pos 64)
  have hposw : (0 : Int) ≤ ((2 ^ w : Nat) : Int) := Int.natCast_nonneg _
  have hr : 0 ≤ z % ((2 ^ 64 : Nat) : Int) := Int.emod_nonneg _ (by omega)
  have hdvd : (((2 ^ w : Nat) : Int)) ∣ ((2 ^ 64 : Nat) : Int) :=
    Int.natCast_dvd_natCast.mpr (Nat.pow_dvd_pow 2 h64)
  have := Int.toNat_emod hr hposw
  rw [Int.toNat_natCast] at this
  rw [← this, Int.emod_emod_of_dvd _ hdvd]

/-- The value the signed U64 division arm stores is congruent to the truncated quotient modulo
    `2^64` — including `i64::MIN / -1`, where `checked_div` fails and the dividend is used. -/
theorem checkedDiv_congr (xs ys : Int) (hy : ys ≠ 0) :
    ((U64.checkedDiv xs ys).getD xs) % ((2 ^ 64 : Nat) : Int) = (Int.tdiv xs ys) % ((2 ^ 64 : Nat) : Int) := by
  unfold U64.checkedDiv
  by_cases h : xs = U64.I64MIN ∧ ys = -1
  · rw [if_pos (Or.inr h)]
    obtain ⟨h1, h2⟩ := h
    subst h1 h2
    decide
  · have : ¬ (ys = 0 ∨ (xs = U64.I64MIN ∧ ys = -1)) := by
      intro hc; rcases hc with hc | hc
      · exact hy hc
      · exact h hc
    rw [if_neg this]; rfl

theorem checkedRem_eq (xs ys : Int) (hy : ys ≠ 0) : (U64.checkedRem xs ys).getD 0 = Int.tmod xs ys := by
  unfold U64.checkedRem
  by_cases h : xs = U64.I64MIN ∧ ys = -1
  · rw [if_pos (Or.inr h)]
    obtain ⟨h1, h2⟩ := h
    subst h1 h2
    decide
  · have : ¬ (ys = 0 ∨ (xs = U64.I64MIN ∧ ys = -1)) := by
      intro hc; rcases hc with hc | hc
      · exact hy hc
      · exact h hc
    rw [if_neg this]; rfl

theorem emod_of_emod64 {z z' : Int} {w : Nat} (h64 : w ≤ 64)
    (h : z % ((2 ^ 64 : Nat) : Int) = z' % ((2 ^ 64 : Nat) : Int)) :
    z % ((2 ^ w : Nat) : Int) = z' % ((2 ^ w : Nat) : Int) := by
  have hdvd : (((2 ^ w : Nat) : Int)) ∣ ((2 ^ 64 : Nat) : Int) :=
    Int.natCast_dvd_natCast.mpr (Nat.pow_dvd_pow 2 h64)
  rw [← Int.emod_emod_of_dvd z hdvd, h, Int.emod_emod_of_dvd z' hdvd]

theorem U64.divOp_eq_ref (a b : V4) (w : Nat) (s : Bool) (hw0 : 0 < w) (h64 : w ≤ 64) (ha : a.wf)
    (hb : b.wf) (hwa : a.width = w) (hwb : b.width = w) :
    ∃ r, U64.divOp a b w s = some r ∧ r.toBV = divBV a.toBV b.toBV w s ∧ r.signed = s := by
  have hpa : a.payload < 2 ^ w := by rw [← hwa]; exact ha.1
  have hpb : b.payload < 2 ^ w := by rw [← hwb]; exact hb.1
  unfold U64.divOp
  simp only [U64.genMask_eq h64, Nat.and_two_pow_sub_one_eq_mod, Nat.mod_eq_of_lt hpb]
  by_cases h : a.mask ≠ 0 ∨ b.mask ≠ 0 ∨ b.payload = 0
  · rw [if_pos h, divBV_xz _ _ _ _ h]
    exact ⟨_, rfl, by simp [U64.newX, V4.toBV, allX, U64.genMask_eq h64], rfl⟩
  · rw [if_neg h, divBV_known _ _ _ _ h]
    have h3 : b.payload ≠ 0 := by omega
    cases s
    · simp only [Bool.false_eq_true, if_false]
      refine ⟨_, rfl, ?_, rfl⟩
      simp only [U64.new, V4.toBV, val]
      rw [← ofInt_natCast, Int.ofNat_tdiv]; rfl
    · simp only [if_true, usub, h64, U64.sext_eq_toInt a w hw0 h64 ha hwa, U64.sext_eq_toInt b w hw0 h64 hb hwb,
        Option.bind_eq_bind, Option.bind_some]
      refine ⟨_, rfl, ?_, rfl⟩
      have hy : b.toBV.toInt ≠ 0 := toInt_ne_zero b.toBV w hw0 hwb hpb h3
      have hvA : val a.toBV true = a.toBV.toInt := rfl
      have hvB : val b.toBV true = b.toBV.toInt := rfl
      rw [hvA, hvB]
      generalize a.toBV.toInt = A at *
      generalize b.toBV.toInt = B at *
      simp only [U64.new, V4.toBV]
      rw [← Nat.and_two_pow_sub_one_eq_mod, ofI64_and_mask _ _ h64]
      unfold ofInt
      rw [emod_of_emod64 h64 (checkedDiv_congr A B hy)]

theorem U64.remOp_eq_ref (a b : V4) (w : Nat) (s : Bool) (hw0 : 0 < w) (h64 : w ≤ 64) (ha : a.wf)
    (hb : b.wf) (hwa : a.width = w) (hwb : b.width = w) :
    ∃ r, U64.remOp a b w s = some r ∧ r.toBV = remBV a.toBV b.toBV w s ∧ r.signed = s := by
  have hpa : a.payload < 2 ^ w := by rw [← hwa]; exact ha.1
  have hpb : b.payload < 2 ^ w := by rw [← hwb]; exact hb.1
  unfold U64.remOp
  simp only [U64.genMask_eq h64, Nat.and_two_pow_sub_one_eq_mod, Nat.mod_eq_of_lt hpb]
  by_cases h : a.mask ≠ 0 ∨ b.mask ≠ 0 ∨ b.payload = 0
  · rw [if_pos h, remBV_xz _ _ _ _ h]
    exact ⟨_, rfl, by simp [U64.newX, V4.toBV, allX, U64.genMask_eq h64], rfl⟩
  · rw [if_neg h, remBV_known _ _ _ _ h]
    have h3 : b.payload ≠ 0 := by omega
    cases s
    · simp only [Bool.false_eq_true, if_false]
      refine ⟨_, rfl, ?_, rfl⟩
      simp only [U64.new, V4.toBV, val]
      rw [← ofInt_natCast, Int.ofNat_tmod]; rfl
    · simp only [if_true, usub, h64, U64.sext_eq_toInt a w hw0 h64 ha hwa, U64.sext_eq_toInt b w hw0 h64 hb hwb,
        Option.bind_eq_bind, Option.bind_some]
      refine ⟨_, rfl, ?_, rfl⟩
      have hy : b.toBV.toInt ≠ 0 := toInt_ne_zero b.toBV w hw0 hwb hpb h3
      have hvA : val a.toBV true = a.toBV.toInt := rfl
      have hvB : val b.toBV true = b.toBV.toInt := rfl
      rw [hvA, hvB]
      generalize a.toBV.toInt = A at *
      generalize b.toBV.toInt = B at *
      simp only [U64.new, V4.toBV]
      rw [← Nat.and_two_pow_sub_one_eq_mod, ofI64_and_mask _ _ h64, checkedRem_eq A B hy]
      rfl

theorem Big.divOp_signed (a b : V4) (w : Nat) (s : Bool) (r : V4) (h : Big.divOp a b w s = some r) :
    r.signed = s := by
  unfold Big.divOp at h
  split at h
  · cases h; rfl
  · split at h
    · cases ha : Big.toBigint a with
      | none => simp [ha] at h
      | some oa =>
        cases oa with
        | none => simp [ha] at h
        | some za =>
          cases hb : Big.toBigint b with
          | none => simp [ha, hb] at h
          | some ob =>
            cases ob with
            | none => simp [ha, hb] at h
            | some zb =>
              simp [ha, hb] at h
              rw [← h]; unfold Big.newBigint; split <;> rfl
    · cases h; rfl

theorem Big.remOp_signed (a b : V4) (w : Nat) (s : Bool) (r : V4) (h : Big.remOp a b w s = some r) :
    r.signed = s := by
  unfold Big.remOp at h
  split at h
  · cases h; rfl
  · split at h
    · cases ha : Big.toBigint a with
      | none => simp [ha] at h
      | some oa =>
        cases oa with
        | none => simp [ha] at h
        | some za =>
          cases hb : Big.toBigint b with
          | none => simp [ha, hb] at h
          | some ob =>
            cases ob with
            | none => simp [ha, hb] at h
            | some zb =>
              simp [ha, hb] at h
              rw [← h]; unfold Big.newBigint; split <;> rfl
    · cases h; rfl

theorem V4.eq_of_toBV {r r' : V4} (h1 : r.toBV = r'.toBV) (h2 : r.signed = r'.signed) : r = r' := by
  cases r; cases r'
  simp only [V4.toBV, BV.mk.injEq] at h1
  simp only at h2
  simp [h1.1, h1.2.1, h1.2.2, h2]

theorem U64.divOp_eq_big (a b : V4) (w : Nat) (s : Bool) (hw0 : 0 < w) (h64 : w ≤ 64) (ha : a.wf)
    (hb : b.wf) (hwa : a.width = w) (hwb : b.width = w) : U64.divOp a b w s = Big.divOp a b w s := by
  obtain ⟨r, hr, hrr, hrs⟩ := U64.divOp_eq_ref a b w s hw0 h64 ha hb hwa hwb
  obtain ⟨r', hr', hrr'⟩ := Big.divOp_eq_ref a b w s hw0 ha hb hwa hwb
  rw [hr, hr']
  congr 1
  exact V4.eq_of_toBV (by rw [hrr, hrr']) (by rw [hrs, Big.divOp_signed a b w s r' hr'])

theorem U64.remOp_eq_big (a b : V4) (w : Nat) (s : Bool) (hw0 : 0 < w) (h64 : w ≤ 64) (ha : a.wf)
    (hb : b.wf) (hwa : a.width = w) (hwb : b.width = w) : U64.remOp a b w s = Big.remOp a b w s := by
  obtain ⟨r, hr, hrr, hrs⟩ := U64.remOp_eq_ref a b w s hw0 h64 ha hb hwa hwb
  obtain ⟨r', hr', hrr'⟩ := Big.remOp_eq_ref a b w s hw0 ha hb hwa hwb
  rw [hr, hr']
  congr 1
  exact V4.eq_of_toBV (by rw [hrr, hrr']) (by rw [hrs, Big.remOp_signed a b w s r' hr'])

end VerylModel.Bits
