import VerylModel.Core.IdCodec
/-! Helper lemmas for C06 (interning tables, dictionaries, canon). Core Lean only. -/
namespace VerylModel.IdCodec

variable {α : Type}

/-- Well-formed `GlobalTable`: a bijection between values and ids, all ids below `last`. -/
def Table.WF (t : Table α) : Prop :=
  (∀ e ∈ t.entries, e.2 < t.last) ∧ t.entries.Pairwise (fun a b => a.1 ≠ b.1 ∧ a.2 ≠ b.2)

theorem getId_some_mem [DecidableEq α] {es : List (α × Nat)} {v : α} {i : Nat}
    (h : getId es v = some i) : (v, i) ∈ es := by
  induction es with
  | nil => simp [getId] at h
  | cons e rest ih =>
    obtain ⟨w, j⟩ := e
    simp only [getId] at h
    split at h
    · next hv => cases h; subst hv; simp
    · exact List.mem_cons_of_mem _ (ih h)

theorem getId_none_not_mem [DecidableEq α] {es : List (α × Nat)} {v : α}
    (h : getId es v = none) : ∀ e ∈ es, e.1 ≠ v := by
  induction es with
  | nil => simp
  | cons e rest ih =>
    obtain ⟨w, j⟩ := e
    simp only [getId] at h
    split at h
    · cases h
    · next hv =>
      intro e he
      rcases List.mem_cons.mp he with rfl | he
      · exact hv
      · exact ih h e he

theorem getValue_of_mem {es : List (α × Nat)} {v : α} {i : Nat}
    (hp : es.Pairwise (fun a b => a.1 ≠ b.1 ∧ a.2 ≠ b.2)) (h : (v, i) ∈ es) :
    getValue es i = some v := by
  induction es with
  | nil => cases h
  | cons e rest ih =>
    obtain ⟨w, j⟩ := e
    rw [List.pairwise_cons] at hp
    simp only [getValue]
    rcases List.mem_cons.mp h with heq | hmem
    · cases heq; simp
    · have := (hp.1 _ hmem).2
      simp only at this
      rw [if_neg this]
      exact ih hp.2 hmem

theorem Table.insert_spec [DecidableEq α] (t : Table α) (hwf : t.WF) (v : α) :
    (t.insert v).1.WF ∧ (∀ e ∈ t.entries, e ∈ (t.insert v).1.entries) ∧
      (v, (t.insert v).2) ∈ (t.insert v).1.entries := by
  unfold Table.insert
  cases hg : t.getId v with
  | some id => exact ⟨hwf, fun _ h => h, getId_some_mem hg⟩
  | none =>
    have hnv := getId_none_not_mem hg
    have hfil : t.entries.filter (fun e => e.1 ≠ v ∧ e.2 ≠ t.last) = t.entries := by
      apply List.filter_eq_self.mpr
      intro e he
      have h1 := hnv e he
      have h2 := Nat.ne_of_lt (hwf.1 e he)
      simp [h1, h2]
    simp only [hfil]
    refine ⟨⟨?_, ?_⟩, fun e he => List.mem_cons_of_mem _ he, List.mem_cons_self⟩
    · intro e he
      rcases List.mem_cons.mp he with rfl | he
      · exact Nat.lt_succ_self _
      · exact Nat.lt_succ_of_lt (hwf.1 e he)
    · rw [List.pairwise_cons]
      refine ⟨?_, hwf.2⟩
      intro e he
      exact ⟨fun h => hnv e he h.symm, fun h => Nat.ne_of_lt (hwf.1 e he) h.symm⟩

theorem internAll_spec [DecidableEq α] (d : List α) : ∀ (t : Table α), t.WF →
    (internAll t d).1.WF ∧ (∀ e ∈ t.entries, e ∈ (internAll t d).1.entries) ∧
      (internAll t d).2.length = d.length ∧
      ∀ j (hj : j < d.length), ∃ id, (internAll t d).2[j]? = some id ∧
        (d[j], id) ∈ (internAll t d).1.entries := by
  induction d with
  | nil => intro t hwf; exact ⟨hwf, fun _ h => h, rfl, fun j hj => absurd hj (Nat.not_lt_zero _)⟩
  | cons v rest ih =>
    intro t hwf
    obtain ⟨hwf1, hsub1, hmem1⟩ := t.insert_spec hwf v
    obtain ⟨hwf2, hsub2, hlen2, hall2⟩ := ih (t.insert v).1 hwf1
    simp only [internAll]
    refine ⟨hwf2, fun e he => hsub2 e (hsub1 e he), by simp [hlen2], ?_⟩
    intro j hj
    cases j with
    | zero => exact ⟨(t.insert v).2, by simp, hsub2 _ hmem1⟩
    | succ j =>
      have hj' : j < rest.length := by simpa using hj
      obtain ⟨id, h1, h2⟩ := hall2 j hj'
      exact ⟨id, by simpa using h1, by simpa using h2⟩

/-! Encode side -/

theorem mapGet_some_mem {m : List (Nat × Nat)} {k x : Nat} (h : mapGet m k = some x) :
    (k, x) ∈ m := by
  induction m with
  | nil => simp [mapGet] at h
  | cons e rest ih =>
    obtain ⟨a, b⟩ := e
    simp only [mapGet] at h
    split at h
    · next hk => cases h; subst hk; simp
    · exact List.mem_cons_of_mem _ (ih h)

/-- Session invariant: every mapped id points at its own value in the dictionary. -/
def EncSession.Inv (s : EncSession α) (t : Table α) : Prop :=
  ∀ e ∈ s.map, ∃ v, s.dict[e.2]? = some v ∧ t.getValue e.1 = some v

theorem EncSession.encode_spec (t : Table α) (s s' : EncSession α) (id l : Nat)
    (hinv : s.Inv t) (h : s.encode t id = some (s', l)) :
    s'.Inv t ∧ (∃ ext, s'.dict = s.dict ++ ext) ∧
      ∃ v, s'.dict[l]? = some v ∧ t.getValue id = some v := by
  unfold EncSession.encode at h
  cases hm : mapGet s.map id with
  | some x =>
    simp only [hm] at h
    cases h
    exact ⟨hinv, ⟨[], by simp⟩, hinv _ (mapGet_some_mem hm)⟩
  | none =>
    simp only [hm] at h
    cases hv : t.getValue id with
    | none => simp [hv] at h
    | some value =>
      simp only [hv] at h
      cases h
      refine ⟨?_, ⟨[value], rfl⟩, ⟨value, by simp, rfl⟩⟩
      intro e he
      rcases List.mem_cons.mp he with rfl | he
      · exact ⟨value, by simp, hv⟩
      · obtain ⟨v, h1, h2⟩ := hinv e he
        refine ⟨v, ?_, h2⟩
        have hlt : e.2 < s.dict.length := by
          rcases Nat.lt_or_ge e.2 s.dict.length with h | h
          · exact h
          · rw [List.getElem?_eq_none h] at h1; cases h1
        simp only
        rw [List.getElem?_append_left hlt]
        exact h1

theorem encodeAll_spec (t : Table α) (ids : List Nat) : ∀ (s s' : EncSession α) (ls : List Nat),
    s.Inv t → encodeAll t s ids = some (s', ls) →
    s'.Inv t ∧ (∃ ext, s'.dict = s.dict ++ ext) ∧ ls.length = ids.length ∧
      ∀ j (hj : j < ids.length), ∃ l v, ls[j]? = some l ∧ s'.dict[l]? = some v ∧
        t.getValue ids[j] = some v := by
  induction ids with
  | nil =>
    intro s s' ls hinv h
    simp only [encodeAll] at h
    cases h
    exact ⟨hinv, ⟨[], by simp⟩, rfl, fun j hj => absurd hj (Nat.not_lt_zero _)⟩
  | cons id rest ih =>
    intro s s' ls hinv h
    simp only [encodeAll] at h
    cases h1 : s.encode t id with
    | none => simp [h1] at h
    | some p =>
      obtain ⟨s1, l⟩ := p
      simp only [h1] at h
      cases h2 : encodeAll t s1 rest with
      | none => simp [h2] at h
      | some q =>
        obtain ⟨s2, ls2⟩ := q
        simp only [h2] at h
        cases h
        obtain ⟨hinv1, ⟨ext1, hext1⟩, v, hv1, hv2⟩ := EncSession.encode_spec t s s1 id l hinv h1
        obtain ⟨hinv2, ⟨ext2, hext2⟩, hlen, hall⟩ := ih s1 s' ls2 hinv1 h2
        refine ⟨hinv2, ⟨ext1 ++ ext2, by rw [hext2, hext1, List.append_assoc]⟩, by simp [hlen], ?_⟩
        intro j hj
        cases j with
        | zero =>
          refine ⟨l, v, by simp, ?_, by simpa using hv2⟩
          have hlt : l < s1.dict.length := by
            rcases Nat.lt_or_ge l s1.dict.length with h | h
            · exact h
            · rw [List.getElem?_eq_none h] at hv1; cases hv1
          rw [hext2, List.getElem?_append_left hlt]
          exact hv1
        | succ j =>
          have hj' : j < rest.length := by simpa using hj
          obtain ⟨l', v', a, b, c⟩ := hall j hj'
          exact ⟨l', v', by simpa using a, b, by simpa using c⟩

/-! canon -/

theorem seenGet_map (σ : Nat → Nat → Nat) (seen : List ((Nat × Nat) × Nat)) (k v : Nat)
    (hinj : ∀ e ∈ seen, e.1.1 = k → σ k e.1.2 = σ k v → e.1.2 = v) :
    seenGet (seen.map (fun e => ((e.1.1, σ e.1.1 e.1.2), e.2))) (k, σ k v) = seenGet seen (k, v) := by
  induction seen with
  | nil => rfl
  | cons e rest ih =>
    obtain ⟨⟨k', v'⟩, n⟩ := e
    have ih' := ih (fun e he => hinj e (List.mem_cons_of_mem _ he))
    simp only [List.map_cons, seenGet]
    by_cases hk : k' = k
    · subst hk
      by_cases hv : v' = v
      · subst hv; simp
      · have : σ k' v' ≠ σ k' v := fun h => hv (hinj _ List.mem_cons_self rfl h)
        have h1 : ((k', σ k' v') = (k', σ k' v)) = False := by simp [this]
        have h2 : ((k', v') = (k', v)) = False := by simp [hv]
        simp only [h1, h2, if_false]
        exact ih'
    · have h1 : ((k', σ k' v') = (k, σ k v)) = False := by simp [hk]
      have h2 : ((k', v') = (k, v)) = False := by simp [hk]
      simp only [h1, h2, if_false]
      exact ih'

theorem canonAux_rename (σ : Nat → Nat → Nat) (t : List (Tok α)) :
    ∀ (seen : List ((Nat × Nat) × Nat)),
    (∀ a b : Nat × Nat, (a ∈ seen.map (·.1) ∨ a ∈ idsOf t) → (b ∈ seen.map (·.1) ∨ b ∈ idsOf t) →
        a.1 = b.1 → σ a.1 a.2 = σ b.1 b.2 → a.2 = b.2) →
    canonAux (seen.map (fun e => ((e.1.1, σ e.1.1 e.1.2), e.2))) (rename σ t) = canonAux seen t := by
  induction t with
  | nil => intro seen _; rfl
  | cons tok rest ih =>
    intro seen hinj
    cases tok with
    | lit a =>
      simp only [rename, canonAux]
      rw [ih seen (fun a b ha hb => hinj a b (by simpa [idsOf] using ha) (by simpa [idsOf] using hb))]
    | id k v =>
      simp only [rename, canonAux]
      have hget := seenGet_map σ seen k v (by
        intro e he hk h
        have := hinj e.1 (k, v) (Or.inl (List.mem_map_of_mem he)) (Or.inr (by simp [idsOf])) hk
          (by simpa [hk] using h)
        exact this)
      rw [hget]
      cases hs : seenGet seen (k, v) with
      | some n =>
        simp only
        rw [ih seen (fun a b ha hb => hinj a b
          (ha.elim Or.inl (fun h => Or.inr (by simp [idsOf, h])))
          (hb.elim Or.inl (fun h => Or.inr (by simp [idsOf, h]))))]
      | none =>
        simp only [List.length_map]
        have := ih (((k, v), seen.length) :: seen) (by
          intro a b ha hb
          apply hinj a b
          · rcases ha with ha | ha
            · simp only [List.map_cons, List.mem_cons] at ha
              rcases ha with ha | ha
              · exact Or.inr (by simp [idsOf, ha])
              · exact Or.inl ha
            · exact Or.inr (by simp [idsOf, ha])
          · rcases hb with hb | hb
            · simp only [List.map_cons, List.mem_cons] at hb
              rcases hb with hb | hb
              · exact Or.inr (by simp [idsOf, hb])
              · exact Or.inl hb
            · exact Or.inr (by simp [idsOf, hb]))
        simp only [List.map_cons] at this
        rw [this]

/-! canon is sound: the dump is an injective renaming of its canonical form -/

/-- Well-formed first-occurrence table: distinct keys, distinct numbers, numbers below length. -/
def WFSeen (seen : List ((Nat × Nat) × Nat)) : Prop :=
  seen.Pairwise (fun a b => a.1 ≠ b.1 ∧ a.2 ≠ b.2) ∧ ∀ e ∈ seen, e.2 < seen.length

theorem seenGet_some_mem {seen : List ((Nat × Nat) × Nat)} {key : Nat × Nat} {n : Nat}
    (h : seenGet seen key = some n) : (key, n) ∈ seen := by
  induction seen with
  | nil => simp [seenGet] at h
  | cons e rest ih =>
    obtain ⟨k, m⟩ := e
    simp only [seenGet] at h
    split at h
    · next hk => cases h; subst hk; simp
    · exact List.mem_cons_of_mem _ (ih h)

theorem seenGet_none_not_mem {seen : List ((Nat × Nat) × Nat)} {key : Nat × Nat}
    (h : seenGet seen key = none) : ∀ e ∈ seen, e.1 ≠ key := by
  induction seen with
  | nil => simp
  | cons e rest ih =>
    obtain ⟨k, m⟩ := e
    simp only [seenGet] at h
    split at h
    · cases h
    · next hk =>
      intro e he
      rcases List.mem_cons.mp he with rfl | he
      · exact hk
      · exact ih h e he

theorem WFSeen.cons {seen : List ((Nat × Nat) × Nat)} (h : WFSeen seen) {key : Nat × Nat}
    (hk : seenGet seen key = none) : WFSeen ((key, seen.length) :: seen) := by
  refine ⟨?_, ?_⟩
  · rw [List.pairwise_cons]
    refine ⟨?_, h.1⟩
    intro e he
    exact ⟨fun hh => seenGet_none_not_mem hk e he hh.symm, fun hh => Nat.ne_of_lt (h.2 e he) hh.symm⟩
  · intro e he
    rcases List.mem_cons.mp he with rfl | he
    · simp
    · have := h.2 e he
      simp only [List.length_cons]
      omega

theorem canonSeen_spec (t : List (Tok α)) : ∀ (seen : List ((Nat × Nat) × Nat)), WFSeen seen →
    WFSeen (canonSeen seen t) ∧ ∀ e ∈ seen, e ∈ canonSeen seen t := by
  induction t with
  | nil => intro seen h; exact ⟨h, fun _ he => he⟩
  | cons tok rest ih =>
    intro seen h
    cases tok with
    | lit a => simpa [canonSeen] using ih seen h
    | id k v =>
      simp only [canonSeen]
      cases hs : seenGet seen (k, v) with
      | some n => simpa using ih seen h
      | none =>
        obtain ⟨h1, h2⟩ := ih _ (h.cons hs)
        exact ⟨h1, fun e he => h2 e (List.mem_cons_of_mem _ he)⟩

theorem seenInv_of_mem {seen : List ((Nat × Nat) × Nat)} (h : WFSeen seen) {k v n : Nat}
    (hm : ((k, v), n) ∈ seen) : seenInv seen k n = v := by
  induction seen with
  | nil => cases hm
  | cons e rest ih =>
    obtain ⟨⟨k', v'⟩, m⟩ := e
    have hp := h.1
    rw [List.pairwise_cons] at hp
    simp only [seenInv]
    rcases List.mem_cons.mp hm with heq | hmem
    · cases heq; simp
    · have hne := (hp.1 _ hmem).2
      simp only at hne
      have : ¬ (m = n ∧ k' = k) := fun hh => hne hh.1
      rw [if_neg this]
      -- the tail is well-formed except for the length bound, which `ih` does not use
      have hrest : ∀ (l : List ((Nat × Nat) × Nat)), l.Pairwise (fun a b => a.1 ≠ b.1 ∧ a.2 ≠ b.2) →
          ((k, v), n) ∈ l → seenInv l k n = v := by
        intro l hl hin
        induction l with
        | nil => cases hin
        | cons e2 r2 ih2 =>
          obtain ⟨⟨k2, v2⟩, m2⟩ := e2
          rw [List.pairwise_cons] at hl
          simp only [seenInv]
          rcases List.mem_cons.mp hin with heq | hmem2
          · cases heq; simp
          · have hne2 := (hl.1 _ hmem2).2
            simp only at hne2
            have : ¬ (m2 = n ∧ k2 = k) := fun hh => hne2 hh.1
            rw [if_neg this]
            exact ih2 hl.2 hmem2
      exact hrest rest hp.2 hmem

/-- Main lemma: renaming the canonical dump back through the final table gives the dump, and
    every id of the canonical dump is the number of some key in the final table. -/
theorem canonAux_sound (t : List (Tok α)) : ∀ (seen : List ((Nat × Nat) × Nat)), WFSeen seen →
    rename (seenInv (canonSeen seen t)) (canonAux seen t) = t ∧
    ∀ k n, (k, n) ∈ idsOf (canonAux seen t) → ∃ v, ((k, v), n) ∈ canonSeen seen t := by
  induction t with
  | nil => intro seen _; exact ⟨rfl, fun _ _ h => by cases h⟩
  | cons tok rest ih =>
    intro seen h
    cases tok with
    | lit a =>
      obtain ⟨i1, i2⟩ := ih seen h
      refine ⟨by simp only [canonAux, canonSeen, rename]; rw [i1], ?_⟩
      intro k n hm
      simp only [canonAux, idsOf] at hm
      simpa [canonSeen] using i2 k n hm
    | id k v =>
      simp only [canonAux, canonSeen]
      cases hs : seenGet seen (k, v) with
      | some n =>
        obtain ⟨i1, i2⟩ := ih seen h
        obtain ⟨hw, hsub⟩ := canonSeen_spec rest seen h
        have hin := hsub _ (seenGet_some_mem hs)
        refine ⟨?_, ?_⟩
        · simp only [rename]
          rw [seenInv_of_mem hw hin, i1]
        · intro k' n' hm
          simp only [idsOf, List.mem_cons] at hm
          rcases hm with heq | hm
          · cases heq; exact ⟨v, hin⟩
          · exact i2 k' n' hm
      | none =>
        have h' := h.cons hs
        obtain ⟨i1, i2⟩ := ih _ h'
        obtain ⟨hw, hsub⟩ := canonSeen_spec rest _ h'
        have hin := hsub _ List.mem_cons_self
        refine ⟨?_, ?_⟩
        · simp only [rename]
          rw [seenInv_of_mem hw hin, i1]
        · intro k' n' hm
          simp only [idsOf, List.mem_cons] at hm
          rcases hm with heq | hm
          · cases heq; exact ⟨v, hin⟩
          · exact i2 k' n' hm

theorem WFSeen.key_unique {seen : List ((Nat × Nat) × Nat)} (h : WFSeen seen) {key : Nat × Nat}
    {n n' : Nat} (h1 : (key, n) ∈ seen) (h2 : (key, n') ∈ seen) : n = n' := by
  have hp := h.1
  clear h
  induction seen with
  | nil => cases h1
  | cons e rest ih =>
    rw [List.pairwise_cons] at hp
    rcases List.mem_cons.mp h1 with e1 | m1 <;> rcases List.mem_cons.mp h2 with e2 | m2
    · rw [← e1] at e2; cases e2; rfl
    · exact absurd (by rw [← e1]) (hp.1 _ m2).1
    · exact absurd (by rw [← e2]) (hp.1 _ m1).1
    · exact ih m1 m2 hp.2

end VerylModel.IdCodec
