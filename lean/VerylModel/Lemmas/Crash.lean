import VerylModel.Core.Crash
/-! Helper lemmas about `run` / `crash` over step lists and blocks (used by `Props/C05`). -/
namespace VerylModel.Crash
open VerylModel.Incremental

variable {now : Nat}

theorem run_nil (fs : FS) : run now fs [] = fs := rfl

theorem run_cons (fs : FS) (s : Step) (l : List Step) : run now fs (s :: l) = run now (exec now fs s) l := rfl

theorem run_append (fs : FS) (a b : List Step) : run now fs (a ++ b) = run now (run now fs a) b := by
  simp [run, List.foldl_append]

theorem crash_zero (fs : FS) (l : List Step) : crash now fs l 0 = fs := by
  simp [crash, run]

theorem crash_nil (fs : FS) (n : Nat) : crash now fs [] n = fs := by
  simp [crash, run]

theorem crash_ge (fs : FS) (l : List Step) (n : Nat) (h : l.length ≤ n) : crash now fs l n = run now fs l := by
  simp [crash, List.take_of_length_le h]

theorem crash_append (fs : FS) (a b : List Step) (n : Nat) :
    crash now fs (a ++ b) n = crash now (crash now fs a n) b (n - a.length) := by
  unfold crash
  rw [List.take_append, run_append]

theorem set_same (fs : FS) (p : Path) (v : Option Cell) : (fs.set p v) p = v := by
  simp [FS.set]

theorem set_other (fs : FS) (p q : Path) (v : Option Cell) (h : q ≠ p) : (fs.set p v) q = fs q := by
  simp [FS.set, h]

theorem exec_untouched {fs : FS} {s : Step} {p : Path} (h : s.touches p = false) :
    exec now fs s p = fs p := by
  cases s with
  | openTrunc q =>
    have : p ≠ q := by intro e; simp [Step.touches, e] at h
    simp [exec, set_other _ _ _ _ this]
  | writeChunk q c =>
    have : p ≠ q := by intro e; simp [Step.touches, e] at h
    simp only [exec]
    cases hq : fs q with
    | none => rfl
    | some old => exact set_other _ _ _ _ this
  | createTmp k =>
    have : p ≠ .tmp k := by intro e; simp [Step.touches, e] at h
    simp [exec, set_other _ _ _ _ this]
  | chmodTmp k => rfl
  | renameTmp k q =>
    have h1 : p ≠ q := by intro e; simp [Step.touches, e] at h
    have h2 : p ≠ .tmp k := by intro e; simp [Step.touches, e] at h
    simp only [exec]
    cases hq : fs (.tmp k) with
    | none => rfl
    | some cell => show ((fs.set q (some cell)).set (.tmp k) none) p = fs p; rw [set_other _ _ _ _ h2, set_other _ _ _ _ h1]
  | unlink q =>
    have : p ≠ q := by intro e; simp [Step.touches, e] at h
    simp [exec, set_other _ _ _ _ this]

theorem run_untouched {l : List Step} {p : Path} (h : ∀ s ∈ l, s.touches p = false) (fs : FS) :
    run now fs l p = fs p := by
  induction l generalizing fs with
  | nil => rfl
  | cons s l ih =>
    rw [run_cons, ih (fun t ht => h t (List.mem_cons_of_mem _ ht)), exec_untouched (h s (List.mem_cons_self ..))]

theorem crash_untouched {l : List Step} {p : Path} (h : ∀ s ∈ l, s.touches p = false) (fs : FS) (n : Nat) :
    crash now fs l n p = fs p :=
  run_untouched (fun s hs => h s (List.mem_of_mem_take hs)) fs

/-! ### single blocks -/

/-- the temp-only part of `atomic_write` -/
def tmpPart (k : Nat) (cs : List Content) : List Step :=
  (.createTmp k :: cs.map (.writeChunk (.tmp k))) ++ [.chmodTmp k]

theorem atomicWrite_eq (k : Nat) (p : Path) (cs : List Content) :
    atomicWrite k p cs = tmpPart k cs ++ [.renameTmp k p] := by
  simp [atomicWrite, tmpPart]

theorem tmpPart_untouched (k : Nat) (cs : List Content) (p : Path) (hp : p.isTmp = false) :
    ∀ s ∈ tmpPart k cs, s.touches p = false := by
  intro s hs
  simp only [tmpPart, List.cons_append, List.mem_cons, List.mem_append, List.mem_map, List.mem_nil_iff, or_false] at hs
  rcases hs with rfl | ⟨c, _, rfl⟩ | rfl
  · cases p <;> simp_all [Step.touches, Path.isTmp]
  · cases p <;> simp_all [Step.touches, Path.isTmp]
  · rfl

theorem run_writes_tmp (k : Nat) (cs : List Content) (fs : FS) (c0 : Content) (t : Nat)
    (h : fs (.tmp k) = some ⟨c0, t⟩) (hne : cs ≠ [] ∨ t = now) :
    run now fs (cs.map (.writeChunk (.tmp k))) (.tmp k) = some ⟨cs.foldl Content.append c0, now⟩ := by
  induction cs generalizing fs c0 t with
  | nil =>
    rcases hne with h' | rfl
    · exact absurd rfl h'
    · simpa [run] using h
  | cons c cs ih =>
    simp only [List.map_cons, run_cons, List.foldl_cons]
    apply ih (t := now)
    · simp [exec, h, set_same]
    · exact Or.inr rfl

theorem run_tmpPart (k : Nat) (cs : List Content) (fs : FS) :
    run now fs (tmpPart k cs) (.tmp k) = some ⟨joinC cs, now⟩ := by
  unfold tmpPart
  rw [run_append, run_cons]
  simp only [run_cons, run_nil, exec]
  exact run_writes_tmp k cs _ (.raw []) now (by simp [set_same]) (Or.inr rfl)


theorem run_writes (q : Path) (cs : List Content) (fs : FS) (c0 : Content) (t : Nat)
    (h : fs q = some ⟨c0, t⟩) (hne : cs ≠ [] ∨ t = now) :
    run now fs (cs.map (.writeChunk q)) q = some ⟨cs.foldl Content.append c0, now⟩ := by
  induction cs generalizing fs c0 t with
  | nil =>
    rcases hne with h' | rfl
    · exact absurd rfl h'
    · simpa [run] using h
  | cons c cs ih =>
    simp only [List.map_cons, run_cons, List.foldl_cons]
    apply ih (t := now)
    · simp [exec, h, set_same]
    · exact Or.inr rfl

theorem length_atomicWrite (k : Nat) (q : Path) (cs : List Content) :
    (atomicWrite k q cs).length = (tmpPart k cs).length + 1 := by
  simp [atomicWrite_eq]

/-- Every prefix of an `atomic_write` leaves a real path as it was; only the complete block puts
    the complete content at its target. -/
theorem crash_atomic (k : Nat) (q : Path) (cs : List Content) (fs : FS) (p : Path) (hp : p.isTmp = false) (n : Nat) :
    crash now fs (atomicWrite k q cs) n p =
      if q = p ∧ (atomicWrite k q cs).length ≤ n then some ⟨joinC cs, now⟩ else fs p := by
  rw [length_atomicWrite, atomicWrite_eq, crash_append]
  have hx : crash now fs (tmpPart k cs) n p = fs p := crash_untouched (tmpPart_untouched k cs p hp) fs n
  have hpk : p ≠ .tmp k := by intro e; simp [e, Path.isTmp] at hp
  by_cases hn : (tmpPart k cs).length + 1 ≤ n
  · have h1 : n - (tmpPart k cs).length ≥ 1 := by omega
    rw [crash_ge _ _ _ (by simpa using h1), crash_ge _ _ _ (by omega)]
    simp only [run_cons, run_nil, exec, run_tmpPart]
    rw [set_other _ _ _ _ hpk]
    by_cases hq : q = p
    · subst hq; simp [set_same, hn]
    · have : p ≠ q := fun e => hq e.symm
      rw [set_other _ _ _ _ this]
      have := run_untouched (now := now) (tmpPart_untouched k cs p hp) fs
      simp [hq, this]
  · have h0 : n - (tmpPart k cs).length = 0 := by omega
    rw [h0, crash_zero, hx]
    simp [hn]

theorem crash_inPlace_other (q : Path) (cs : List Content) (fs : FS) (p : Path) (hpq : p ≠ q) (n : Nat) :
    crash now fs (inPlaceWrite q cs) n p = fs p := by
  apply crash_untouched
  intro s hs
  simp only [inPlaceWrite, List.mem_cons, List.mem_map] at hs
  have hqp : ¬ q = p := fun e => hpq e.symm
  rcases hs with rfl | ⟨c, _, rfl⟩ <;> simp [Step.touches, hqp]

theorem run_inPlace (q : Path) (cs : List Content) (fs : FS) (p : Path) :
    run now fs (inPlaceWrite q cs) p = if q = p then some ⟨joinC cs, now⟩ else fs p := by
  by_cases hq : q = p
  · subst hq
    simp only [inPlaceWrite, run_cons, exec, if_true]
    exact run_writes q cs _ (.raw []) now (by simp [set_same]) (Or.inr rfl)
  · have : p ≠ q := fun e => hq e.symm
    have := crash_inPlace_other (now := now) q cs fs p this (inPlaceWrite q cs).length
    rw [crash_ge _ _ _ (Nat.le_refl _)] at this
    simp [hq, this]

theorem run_atomic (k : Nat) (q : Path) (cs : List Content) (fs : FS) (p : Path) (hp : p.isTmp = false) :
    run now fs (atomicWrite k q cs) p = if q = p then some ⟨joinC cs, now⟩ else fs p := by
  have := crash_atomic (now := now) k q cs fs p hp (atomicWrite k q cs).length
  rw [crash_ge _ _ _ (Nat.le_refl _)] at this
  simpa using this

/-- A block that is about another file leaves a real path alone in every prefix. -/
theorem crash_block_other (b : Block) (fs : FS) (p : Path) (hp : p.isTmp = false) (h : b.target ≠ p) (n : Nat) :
    crash now fs b.steps n p = fs p := by
  cases b with
  | atomic k q cs =>
    have hq : ¬ q = p := h
    simp [Block.steps, crash_atomic k q cs fs p hp n, hq]
  | inPlace q cs => exact crash_inPlace_other q cs fs p (fun e => h e.symm) n
  | unlink q =>
    apply crash_untouched
    intro s hs
    simp only [Block.steps, List.mem_singleton] at hs
    subst hs
    have hq : ¬ q = p := h
    simp [Step.touches, hq]

theorem run_block_other (b : Block) (fs : FS) (p : Path) (hp : p.isTmp = false) (h : b.target ≠ p) :
    run now fs b.steps p = fs p := by
  have := crash_block_other (now := now) b fs p hp h b.steps.length
  rwa [crash_ge _ _ _ (Nat.le_refl _)] at this

theorem stepsOf_cons (b : Block) (bs : List Block) : stepsOf (b :: bs) = b.steps ++ stepsOf bs := by
  simp [stepsOf]

theorem stepsOf_append (a b : List Block) : stepsOf (a ++ b) = stepsOf a ++ stepsOf b := by
  simp [stepsOf]

theorem crash_blocks_other (bs : List Block) (p : Path) (hp : p.isTmp = false) (h : ∀ b ∈ bs, b.target ≠ p)
    (fs : FS) (n : Nat) : crash now fs (stepsOf bs) n p = fs p := by
  induction bs generalizing fs n with
  | nil => simp [stepsOf, crash, run]
  | cons b bs ih =>
    rw [stepsOf_cons, crash_append, ih (fun c hc => h c (List.mem_cons_of_mem _ hc)),
      crash_block_other b fs p hp (h b (List.mem_cons_self ..))]

theorem run_blocks_other (bs : List Block) (p : Path) (hp : p.isTmp = false) (h : ∀ b ∈ bs, b.target ≠ p)
    (fs : FS) : run now fs (stepsOf bs) p = fs p := by
  have := crash_blocks_other (now := now) bs p hp h fs (stepsOf bs).length
  rwa [crash_ge _ _ _ (Nat.le_refl _)] at this


/-! ### the emit loop -/

def IsOut (p : Path) : Prop := ∃ f, p = .sv f ∨ p = .map f

theorem IsOut.real {p : Path} (h : IsOut p) : p.isTmp = false := by
  obtain ⟨f, rfl | rfl⟩ := h <;> rfl

theorem joinC_single (c : Content) : joinC [c] = c := by
  cases c <;> simp [joinC, Content.append]

theorem target_writeFile (mode : OutMode) (q : Path) (d : Bytes) : (writeFile mode q d).target = q := by
  cases mode <;> rfl

theorem run_writeFile (mode : OutMode) (q : Path) (d : Bytes) (fs : FS) (p : Path) (hp : p.isTmp = false) :
    run now fs (writeFile mode q d).steps p = if q = p then some ⟨.raw d, now⟩ else fs p := by
  cases mode with
  | inPlace => simp only [writeFile, Block.steps, run_inPlace, joinC_single]
  | atomic => simp only [writeFile, Block.steps, run_atomic _ _ _ _ _ hp, joinC_single]

theorem crash_inPlace_self (q : Path) (cs : List Content) (fs : FS) (n : Nat) :
    crash now fs (inPlaceWrite q cs) n q = fs q ∨ ∃ c, crash now fs (inPlaceWrite q cs) n q = some ⟨c, now⟩ := by
  cases n with
  | zero => left; simp [crash_zero]
  | succ n =>
    right
    simp only [crash, inPlaceWrite, List.take_succ_cons, run_cons, ← List.map_take]
    exact ⟨_, run_writes q (cs.take n) _ (.raw []) now (by simp [exec, set_same]) (Or.inr rfl)⟩

/-- Every prefix of one output write leaves a real path untouched or stamped `now`. -/
theorem crash_writeFile_cell (mode : OutMode) (q : Path) (d : Bytes) (fs : FS) (p : Path) (hp : p.isTmp = false) (n : Nat) :
    crash now fs (writeFile mode q d).steps n p = fs p ∨
    (q = p ∧ ∃ c, crash now fs (writeFile mode q d).steps n p = some ⟨c, now⟩) := by
  by_cases hq : q = p
  · subst hq
    cases mode with
    | inPlace =>
      rcases crash_inPlace_self (now := now) q [.raw d] fs n with h | h
      · exact Or.inl h
      · exact Or.inr ⟨rfl, h⟩
    | atomic =>
      show crash now fs (atomicWrite 0 q [.raw d]) n q = fs q ∨
        (q = q ∧ ∃ c, crash now fs (atomicWrite 0 q [.raw d]) n q = some ⟨c, now⟩)
      rw [crash_atomic _ _ _ _ _ hp]
      split
      · exact Or.inr ⟨rfl, _, rfl⟩
      · exact Or.inl rfl
  · left
    exact crash_block_other _ fs p hp (by rw [target_writeFile]; exact hq) n

theorem crash_outs_cell (mode : OutMode) (l : List (Path × Bytes)) (fs : FS) (p : Path) (hp : p.isTmp = false) (n : Nat) :
    crash now fs (stepsOf (l.map (fun o => writeFile mode o.1 o.2))) n p = fs p ∨
    (p ∈ l.map (·.1) ∧ ∃ c, crash now fs (stepsOf (l.map (fun o => writeFile mode o.1 o.2))) n p = some ⟨c, now⟩) := by
  induction l generalizing fs n with
  | nil => left; simp [stepsOf, crash, run]
  | cons o l ih =>
    simp only [List.map_cons, stepsOf_cons, crash_append]
    rcases ih (crash now fs (writeFile mode o.1 o.2).steps n) (n - (writeFile mode o.1 o.2).steps.length) with h | ⟨hm, c, h⟩
    · rw [h]
      rcases crash_writeFile_cell mode o.1 o.2 fs p hp n with h' | ⟨hq, c, h'⟩
      · exact Or.inl h'
      · exact Or.inr ⟨by simp [hq], c, h'⟩
    · exact Or.inr ⟨by simp at hm ⊢; exact Or.inr hm, c, h⟩

/-- After the complete emit loop every rewritten path holds its data; every other real path is untouched. -/
theorem run_outs (mode : OutMode) (l : List (Path × Bytes)) (data : Path → Bytes) (hd : ∀ o ∈ l, o.2 = data o.1)
    (fs : FS) (p : Path) (hp : p.isTmp = false) :
    (p ∈ l.map (·.1) → content (run now fs (stepsOf (l.map (fun o => writeFile mode o.1 o.2))) p) = some (.raw (data p))) ∧
    (p ∉ l.map (·.1) → run now fs (stepsOf (l.map (fun o => writeFile mode o.1 o.2))) p = fs p) := by
  induction l generalizing fs with
  | nil => simp [stepsOf, run]
  | cons o l ih =>
    simp only [List.map_cons, stepsOf_cons, run_append]
    have ih' := ih (fun x hx => hd x (List.mem_cons_of_mem _ hx)) (run now fs (writeFile mode o.1 o.2).steps)
    have ho := hd o (List.mem_cons_self ..)
    constructor
    · intro hm
      by_cases hl : p ∈ l.map (·.1)
      · exact ih'.1 hl
      · rw [ih'.2 hl, run_writeFile mode o.1 o.2 fs p hp]
        have : o.1 = p := by
          simp only [List.mem_cons] at hm
          rcases hm with h | h
          · exact h.symm
          · exact absurd h hl
        simp [this, content, ho]
    · intro hm
      simp only [List.mem_cons, not_or] at hm
      rw [ih'.2 hm.2, run_writeFile mode o.1 o.2 fs p hp]
      have : ¬ o.1 = p := fun e => hm.1 e.symm
      simp [this]

/-! ### the phases of a plan -/

def Plan.wf (pl : Plan) : Prop := ∀ o ∈ pl.outs, IsOut o.1

theorem target_p1 (x : P1) : ∃ n, x.block.target = .blob n := by
  cases x <;> exact ⟨_, rfl⟩

theorem pre0_other (pl : Plan) {p : Path} (hp : IsOut p ∨ p = .manifest ∨ p = .info) :
    ∀ b ∈ pl.pre0, b.target ≠ p := by
  intro b hb
  simp only [Plan.pre0, List.mem_append, List.mem_cons, List.mem_map, List.mem_nil_iff, or_false] at hb
  rcases hb with (rfl | rfl) | ⟨x, _, rfl⟩
  · rcases hp with ⟨f, rfl | rfl⟩ | rfl | rfl <;> simp [Block.target]
  · rcases hp with ⟨f, rfl | rfl⟩ | rfl | rfl <;> simp [Block.target]
  · obtain ⟨n, hn⟩ := target_p1 x
    rw [hn]
    rcases hp with ⟨f, rfl | rfl⟩ | rfl | rfl <;> simp

theorem pre1_other (mode : OutMode) (pl : Plan) {p : Path} (hp : IsOut p ∨ p = .manifest ∨ p = .info) :
    ∀ b ∈ pl.pre1 mode, b.target ≠ p := by
  intro b hb
  simp only [Plan.pre1, List.mem_append, List.mem_map] at hb
  rcases hb with hb | ⟨x, _, rfl⟩
  · cases hf : pl.filelist with
    | none => simp [hf] at hb
    | some d =>
      simp only [hf, List.mem_singleton] at hb
      subst hb
      rw [target_writeFile]
      rcases hp with ⟨f, rfl | rfl⟩ | rfl | rfl <;> simp
  · rcases hp with ⟨f, rfl | rfl⟩ | rfl | rfl <;> simp [Block.target]

theorem outBlocks_other (mode : OutMode) (pl : Plan) (hwf : pl.wf) {p : Path} (hp : p = .manifest ∨ p = .info) :
    ∀ b ∈ pl.outBlocks mode, b.target ≠ p := by
  intro b hb
  simp only [Plan.outBlocks, List.mem_map] at hb
  obtain ⟨o, ho, rfl⟩ := hb
  rw [target_writeFile]
  obtain ⟨f, h | h⟩ := hwf o ho <;> rcases hp with rfl | rfl <;> simp [h]

theorem mid_other (pl : Plan) {p : Path} (hp : IsOut p ∨ p = .info) : ∀ b ∈ pl.mid, b.target ≠ p := by
  intro b hb
  cases hm : pl.manifest with
  | none => simp [Plan.mid, hm] at hb
  | some m =>
    simp only [Plan.mid, hm, List.mem_singleton] at hb
    subst hb
    rcases hp with ⟨f, rfl | rfl⟩ | rfl <;> simp [Block.target]

theorem post_other (pl : Plan) {p : Path} (hp : IsOut p ∨ p = .manifest) : ∀ b ∈ pl.post, b.target ≠ p := by
  intro b hb
  simp only [Plan.post, List.mem_append, List.mem_map] at hb
  rcases hb with ⟨x, _, rfl⟩ | hb
  · rcases hp with ⟨f, rfl | rfl⟩ | rfl <;> simp [Block.target]
  · cases hi : pl.info with
    | none => simp [hi] at hb
    | some g =>
      simp only [hi, List.mem_singleton] at hb
      subst hb
      rcases hp with ⟨f, rfl | rfl⟩ | rfl <;> simp [Block.target]

/-- Prefixes of the phases before the manifest write, seen at an output path. -/
theorem crash_pre_cell (mode : OutMode) (pl : Plan) (fs : FS) (p : Path) (hp : IsOut p) (n : Nat) :
    crash now fs (stepsOf (pl.pre mode)) n p = fs p ∨
    (p ∈ pl.outs.map (·.1) ∧ ∃ c, crash now fs (stepsOf (pl.pre mode)) n p = some ⟨c, now⟩) := by
  simp only [Plan.pre, stepsOf_append, crash_append]
  rw [crash_blocks_other _ p hp.real (pre1_other mode pl (Or.inl hp))]
  have h0 : crash now fs (stepsOf pl.pre0) n p = fs p := crash_blocks_other _ p hp.real (pre0_other pl (Or.inl hp)) fs n
  rcases crash_outs_cell mode pl.outs (crash now fs (stepsOf pl.pre0) n) p hp.real (n - (stepsOf pl.pre0).length) with h | h
  · left; rw [Plan.outBlocks, h, h0]
  · right; exact h

theorem run_pre_cell (mode : OutMode) (pl : Plan) (fs : FS) (p : Path) (hp : IsOut p) :
    run now fs (stepsOf (pl.pre mode)) p = fs p ∨
    (p ∈ pl.outs.map (·.1) ∧ ∃ c, run now fs (stepsOf (pl.pre mode)) p = some ⟨c, now⟩) := by
  have := crash_pre_cell (now := now) mode pl fs p hp (stepsOf (pl.pre mode)).length
  rwa [crash_ge _ _ _ (Nat.le_refl _)] at this

theorem run_pre_out (mode : OutMode) (pl : Plan) (data : Path → Bytes) (hd : ∀ o ∈ pl.outs, o.2 = data o.1)
    (fs : FS) (p : Path) (hp : IsOut p) :
    (p ∈ pl.outs.map (·.1) → content (run now fs (stepsOf (pl.pre mode)) p) = some (.raw (data p))) ∧
    (p ∉ pl.outs.map (·.1) → run now fs (stepsOf (pl.pre mode)) p = fs p) := by
  simp only [Plan.pre, stepsOf_append, run_append]
  rw [run_blocks_other _ p hp.real (pre1_other mode pl (Or.inl hp))]
  have h0 : run now fs (stepsOf pl.pre0) p = fs p := run_blocks_other _ p hp.real (pre0_other pl (Or.inl hp)) fs
  have := run_outs (now := now) mode pl.outs data hd (run now fs (stepsOf pl.pre0)) p hp.real
  rw [h0] at this
  exact this

theorem pre_other (mode : OutMode) (pl : Plan) (hwf : pl.wf) {p : Path} (hp : p = .manifest ∨ p = .info) :
    ∀ b ∈ pl.pre mode, b.target ≠ p := by
  intro b hb
  simp only [Plan.pre, List.mem_append] at hb
  rcases hb with (hb | hb) | hb
  · exact pre0_other pl (Or.inr hp) b hb
  · exact outBlocks_other mode pl hwf hp b hb
  · exact pre1_other mode pl (Or.inr hp) b hb

/-- Where a crash can leave a run.  EARLY: manifest and `info.toml` are untouched and every output
    file is untouched or carries this run's time.  LATE: all outputs have been written and the
    manifest is the new one (or the unchanged one, when `save` skipped the write). -/
theorem crash_cases (mode : OutMode) (pl : Plan) (hwf : pl.wf) (fs : FS) (n : Nat) :
    (crash now fs (pl.steps mode) n .manifest = fs .manifest ∧ crash now fs (pl.steps mode) n .info = fs .info ∧
      ∀ p, IsOut p → crash now fs (pl.steps mode) n p = fs p ∨
        (p ∈ pl.outs.map (·.1) ∧ ∃ c, crash now fs (pl.steps mode) n p = some ⟨c, now⟩))
    ∨
    ((∀ p, IsOut p → crash now fs (pl.steps mode) n p = run now fs (stepsOf (pl.pre mode)) p) ∧
      crash now fs (pl.steps mode) n .manifest =
        (match pl.manifest with | some m => some ⟨.man m, now⟩ | none => fs .manifest)) := by
  have hsteps : pl.steps mode = stepsOf (pl.pre mode) ++ (stepsOf pl.mid ++ stepsOf pl.post) := by
    simp [Plan.steps, Plan.blocks, stepsOf_append]
  rw [hsteps]
  simp only [crash_append]
  by_cases h1 : n ≤ (stepsOf (pl.pre mode)).length
  · left
    have e1 : n - (stepsOf (pl.pre mode)).length = 0 := by omega
    simp only [e1, crash_zero, Nat.zero_sub]
    refine ⟨crash_blocks_other _ _ rfl (pre_other mode pl hwf (Or.inl rfl)) fs n,
            crash_blocks_other _ _ rfl (pre_other mode pl hwf (Or.inr rfl)) fs n, ?_⟩
    intro p hp
    exact crash_pre_cell mode pl fs p hp n
  · rw [crash_ge fs _ n (by omega)]
    have hxm : run now fs (stepsOf (pl.pre mode)) .manifest = fs .manifest :=
      run_blocks_other _ _ rfl (pre_other mode pl hwf (Or.inl rfl)) fs
    have hxi : run now fs (stepsOf (pl.pre mode)) .info = fs .info :=
      run_blocks_other _ _ rfl (pre_other mode pl hwf (Or.inr rfl)) fs
    cases hm : pl.manifest with
    | none =>
      right
      have hmid : stepsOf pl.mid = [] := by simp [Plan.mid, hm, stepsOf]
      simp only [hmid, crash_nil]
      refine ⟨fun p hp => crash_blocks_other _ p hp.real (post_other pl (Or.inl hp)) _ _, ?_⟩
      rw [crash_blocks_other _ _ rfl (post_other pl (Or.inr rfl)), hxm]
    | some m =>
      have hmid : stepsOf pl.mid = atomicWrite 1 .manifest [.man m] := by
        simp [Plan.mid, hm, stepsOf, Block.steps]
      rw [hmid]
      by_cases h2 : (atomicWrite 1 .manifest [.man m]).length ≤ n - (stepsOf (pl.pre mode)).length
      · right
        rw [crash_ge _ _ _ h2]
        refine ⟨fun p hp => ?_, ?_⟩
        · rw [crash_blocks_other _ p hp.real (post_other pl (Or.inl hp)), run_atomic _ _ _ _ _ hp.real]
          obtain ⟨f, rfl | rfl⟩ := hp <;> simp
        · rw [crash_blocks_other _ _ rfl (post_other pl (Or.inr rfl)), run_atomic _ _ _ _ _ rfl]
          simp [joinC_single]
      · left
        have e2 : n - (stepsOf (pl.pre mode)).length - (atomicWrite 1 .manifest [.man m]).length = 0 := by omega
        simp only [e2, crash_zero]
        refine ⟨?_, ?_, fun p hp => ?_⟩
        · rw [crash_atomic _ _ _ _ _ rfl]; simp [h2, hxm]
        · rw [crash_atomic _ _ _ _ _ rfl]; simp [hxi]
        · rw [crash_atomic _ _ _ _ _ hp.real]
          have : ¬ (Path.manifest = p) := by obtain ⟨f, rfl | rfl⟩ := hp <;> simp
          simp only [this, false_and, if_false]
          exact run_pre_cell mode pl fs p hp

end VerylModel.Crash
