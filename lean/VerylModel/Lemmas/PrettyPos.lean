import VerylModel.Lemmas.Pretty
import VerylModel.Core.DocOps
/-!
Further lemmas about M-Pretty for C09 / C13 / C26:
* every recorded anchor has 1-based coordinates on both sides (`renderFrames_l1`);
* the leaves of a document and what layout choices can add to them (`CommaIns`);
* deleting `Comments` nodes (`stripComments`).
-/
namespace VerylModel.Pretty

/-! ### Anchors are 1-based -/

/-- `current_line ≥ 1`, and every recorded anchor has `dst_line, dst_column ≥ 1` and a source position
    with `src_line, src_column ≥ 1`. -/
def L1 (s : St) : Prop :=
  1 ≤ s.line ∧ ∀ a ∈ s.ranchors, 1 ≤ a.dstLine ∧ 1 ≤ a.dstCol ∧ 1 ≤ a.srcLine ∧ 1 ≤ a.srcCol

theorem L1.mono {s s' : St} (h : L1 s) (m : Mono s s') : L1 s' := by
  refine ⟨?_, fun a ha => h.2 a (by rw [← m.2]; exact ha)⟩
  have := m.1
  have := h.1
  unfold posLe at *; omega

theorem L1.push {s : St} (h : L1 s) (sl sc : Nat) (t : List Char) (hsl : 1 ≤ sl) (hsc : 1 ≤ sc) :
    L1 { s with ranchors := { dstLine := s.line, dstCol := s.col + 1, srcLine := sl, srcCol := sc,
                               text := t } :: s.ranchors } := by
  refine ⟨h.1, fun a ha => ?_⟩
  rcases List.mem_cons.mp ha with rfl | ha
  · exact ⟨h.1, by simp, hsl, hsc⟩
  · exact h.2 a ha

theorem L1.swallow {s : St} (h : L1 s) (b : Bool) : L1 { s with swallow := b } := h

theorem commentStep_l1 (o : Opts) (pw : Nat) (s : St) (c : CommentDoc) (hg : Good s) (h : L1 s) :
    L1 (commentStep o pw s c) := by
  have h1 := commentLead_mono o pw s c hg.1
  have l1 := h.mono h1.1
  unfold commentStep
  have hA : L1 (commentAnchor (commentLead o pw s c) c)
      ∧ (commentAnchor (commentLead o pw s c) c).pending = none
      ∧ (commentAnchor (commentLead o pw s c) c).swallow = false := by
    unfold commentAnchor
    split
    · rename_i hc
      exact ⟨L1.push l1 _ _ _ (by omega) (by omega), h1.2.1, h1.2.2⟩
    · exact ⟨l1, h1.2.1, h1.2.2⟩
  have h3 := commentBody_mono o pw _ c hA.2.1 hA.2.2
  exact hA.1.mono h3.1

theorem renderComments_l1 (o : Opts) (i : Int) (cs : List CommentDoc) (s : St) (hg : Good s) (h : L1 s) :
    L1 (renderComments o i cs s) := by
  unfold renderComments
  induction cs generalizing s with
  | nil => exact h
  | cons c cs ih => exact ih _ (commentStep_good o _ s c hg) (commentStep_l1 o _ s c hg h)

theorem emitAnchored_l1 (s : St) (i : Int) (o : Opts) (t : List Char) (sl sc : Nat) (hg : Good s) (h : L1 s)
    (hsl : 1 ≤ sl) (hsc : 1 ≤ sc) : L1 (emitAnchored s i o t sl sc) := by
  have f := flushPendingWith_mono s i o hg.1
  unfold emitAnchored
  have a1 := h.mono f.1
  have a2 : L1 { flushPendingWith s i o with swallow := false } := a1
  have a3 := L1.push a2 sl sc t hsl hsc
  have w := writeText_mono
    { { flushPendingWith s i o with swallow := false } with
      ranchors := { dstLine := (flushPendingWith s i o).line, dstCol := (flushPendingWith s i o).col + 1,
                    srcLine := sl, srcCol := sc, text := t } :: (flushPendingWith s i o).ranchors } t
  exact a3.mono w.1

/-- Every `render_frame` call preserves `L1` (for documents whose `Anchored` nodes carry 1-based
    source positions). -/
theorem stepFrame_l1 (o : Opts) (f : Frame) (fs : List Frame) (s : St) (hd : srcOkNode f.doc = true)
    (hg : Good s) (h : L1 s) : L1 (stepFrame o f fs s).2 := by
  obtain ⟨i, m, d⟩ := f
  have fw := flushPendingWith_mono s i o hg.1
  have fp := flushPending_mono s hg.1
  cases d <;> simp only [stepFrame]
  case nil => exact h
  case text t => exact (h.mono fw.1).mono (writeText_mono _ t).1
  case concat => exact h
  case indent => exact h
  case group => exact h
  case forceFlat => exact h
  case line sep =>
    cases m
    · exact (h.mono fp.1).mono (writeFlat_mono _ sep).1
    · exact h.mono (emitBreak_mono s i o hg.1).1
  case hardline =>
    cases m
    · exact (h.mono fp.1).mono (writeSpaces_mono _ 1).1
    · exact h.mono (emitBreak_mono s i o hg.1).1
  case dedentHardline l =>
    cases m
    · exact (h.mono fp.1).mono (writeSpaces_mono _ 1).1
    · exact h.mono (dedentBreak_mono s l i o hg.1).1
  case comments cs => exact renderComments_l1 o i cs s hg h
  case ifBreak t =>
    split
    · exact (h.mono fw.1).mono (writeFlat_mono _ t).1
    · exact h
  case ifBreakPad w' =>
    split
    · exact (h.mono fw.1).mono (writeSpaces_mono _ w').1
    · exact h
  case pad w' =>
    split
    · exact (h.mono fw.1).mono (writeSpaces_mono _ w').1
    · exact h
  case ifFlatPad w' =>
    split
    · exact (h.mono fw.1).mono (writeSpaces_mono _ w').1
    · exact h
  case anchored t sl sc =>
    simp only [srcOkNode, Bool.and_eq_true, bne_iff_ne, ne_eq] at hd
    exact emitAnchored_l1 s i o t sl sc hg h (by omega) (by omega)

theorem init_l1 : L1 ({} : St) := by
  simp [L1]

theorem renderFrames_l1 (o : Opts) (fs : List Frame) (s : St) (hfs : FramesAll srcOkNode fs) (hg : Good s)
    (h : L1 s) : L1 (renderFrames o fs s) :=
  (renderFrames_inv o (fun fs s => FramesAll srcOkNode fs ∧ Good s ∧ L1 s)
    (fun f fs s h => ⟨stepFrame_all _ o f fs s h.1, stepFrame_good o f fs s h.2.1,
      stepFrame_l1 o f fs s (Doc.all_self (h.1 f (by simp))) h.2.1 h.2.2⟩) fs s ⟨hfs, hg, h⟩).2.2

/-! ### Leaves, and what a layout can add to them -/

mutual
/-- The texts of the document in document order: `Text`, `Anchored` and comment texts. -/
def leaves : Doc → List Char
  | .text t => t
  | .anchored t _ _ => t
  | .comments cs => cs.flatMap (·.text)
  | .concat ds => leavesList ds
  | .indent _ d => leaves d
  | .group d => leaves d
  | .forceFlat d => leaves d
  | _ => []
def leavesList : List Doc → List Char
  | [] => []
  | d :: ds => leaves d ++ leavesList ds
end

/-- `CommaIns a b`: `b` is `a` with some `','` characters inserted. -/
inductive CommaIns : List Char → List Char → Prop
  | nil : CommaIns [] []
  | keep (c : Char) {a b : List Char} : CommaIns a b → CommaIns (c :: a) (c :: b)
  | ins {a b : List Char} : CommaIns a b → CommaIns a (',' :: b)

theorem CommaIns.refl : ∀ a : List Char, CommaIns a a
  | [] => .nil
  | c :: a => .keep c (CommaIns.refl a)

theorem CommaIns.append {a b a' b' : List Char} (h : CommaIns a b) (h' : CommaIns a' b') :
    CommaIns (a ++ a') (b ++ b') := by
  induction h with
  | nil => simpa using h'
  | keep c _ ih => exact .keep c ih
  | ins _ ih => exact .ins ih

/-- Removing the inserted commas again: the two sides agree on everything that is not a comma. -/
theorem CommaIns.filter_eq {a b : List Char} (h : CommaIns a b) :
    a.filter (· ≠ ',') = b.filter (· ≠ ',') := by
  induction h with
  | nil => rfl
  | keep c _ ih =>
    simp only [List.filter_cons]
    split
    · rw [ih]
    · exact ih
  | ins _ ih => simpa [List.filter_cons] using ih

theorem CommaIns.length_le {a b : List Char} (h : CommaIns a b) : a.length ≤ b.length := by
  induction h with
  | nil => exact Nat.le_refl _
  | keep c _ ih => simp; omega
  | ins _ ih => simp; omega

/-- Node condition of the formatter's documents: `Line` separators are blank, every `IfBreak` text is ",". -/
def fmtNode (d : Doc) : Bool := lineWsNode d && ifbCommaNode d

/-- For a formatter document, whatever the layout, the content is the leaves plus commas — one, at
    its place, for each `IfBreak` of a broken group. -/
theorem content_commaIns (d : Doc) : d.all fmtNode = true →
    ∀ m c, Content m d c → CommaIns (nonws (leaves d)) (nonws c) := by
  induction d using Doc.induct with
  | hconcat ds ih =>
    intro hall m c h
    simp only [Doc.all, Bool.and_eq_true] at hall
    have hds := (Doc.allList_iff _ ds).mp hall.2
    simp only [Content] at h
    simp only [leaves]
    clear hall
    induction ds generalizing c with
    | nil => simp only [ContentList] at h; subst h; exact .nil
    | cons x xs ihx =>
      simp only [ContentList] at h
      obtain ⟨a, b, rfl, ha, hb⟩ := h
      simp only [leavesList, nonws_append]
      exact CommaIns.append (ih x (by simp) (hds x (by simp)) m a ha)
        (ihx (fun d hd => ih d (by simp [hd])) b hb (fun d hd => hds d (by simp [hd])))
  | hindent off d ih =>
    intro hall m c h
    simp only [Doc.all, Bool.and_eq_true] at hall
    simp only [leaves]
    exact ih hall.2 m c (by simpa [Content] using h)
  | hgroup d ih =>
    intro hall m c h
    simp only [Doc.all, Bool.and_eq_true] at hall
    obtain ⟨m₁, h₁⟩ := content_group_inv h
    simp only [leaves]
    exact ih hall.2 m₁ c h₁
  | hff d ih =>
    intro hall m c h
    simp only [Doc.all, Bool.and_eq_true] at hall
    simp only [leaves]
    exact ih hall.2 .flat c (by simpa [Content] using h)
  | hleaf d hsz hnc =>
    intro hall m c h
    cases d <;> simp [Doc.size] at hsz
    case concat ds => exact absurd rfl (hnc ds)
    case indent off d => have := Doc.size_pos d; omega
    case group d => have := Doc.size_pos d; omega
    case forceFlat d => have := Doc.size_pos d; omega
    case line sep =>
      have hs : nonws sep = [] :=
        nonws_all_ws (by simpa [Doc.all, fmtNode, lineWsNode, ifbCommaNode] using hall)
      cases m <;> simp only [Content] at h <;> subst h <;> simp only [leaves]
      · rw [hs]; exact .nil
      · exact .nil
    case ifBreak t =>
      have ht : t = [','] := by simpa [Doc.all, fmtNode, lineWsNode, ifbCommaNode] using hall
      subst ht
      cases m <;> simp only [Content] at h <;> subst h <;> simp only [leaves]
      · exact .nil
      · exact .ins .nil
    all_goals (cases m <;> simp only [Content] at h <;> subst h <;> simp only [leaves] <;>
      first | exact CommaIns.refl _ | exact .nil)

/-! ### Deleting `Comments` nodes -/

mutual
/-- The texts of the document except those of comments. -/
def codeLeaves : Doc → List Char
  | .text t => t
  | .anchored t _ _ => t
  | .concat ds => codeLeavesList ds
  | .indent _ d => codeLeaves d
  | .group d => codeLeaves d
  | .forceFlat d => codeLeaves d
  | _ => []
def codeLeavesList : List Doc → List Char
  | [] => []
  | d :: ds => codeLeaves d ++ codeLeavesList ds
end

theorem stripCommentsList_eq (ds : List Doc) : stripCommentsList ds = ds.map stripComments := by
  induction ds with
  | nil => rfl
  | cons d ds ih => simp [stripCommentsList, ih]

/-- `stripComments` keeps every node condition that `Nil` satisfies. -/
theorem stripComments_all (p : Doc → Bool) (hnil : p .nil = true)
    (hc : ∀ ds ds', p (.concat ds) = p (.concat ds'))
    (hi : ∀ off d d', p (.indent off d) = p (.indent off d'))
    (hg : ∀ d d', p (.group d) = p (.group d'))
    (hf : ∀ d d', p (.forceFlat d) = p (.forceFlat d')) (d : Doc) :
    d.all p = true → (stripComments d).all p = true := by
  induction d using Doc.induct with
  | hconcat ds ih =>
    intro h
    simp only [Doc.all, Bool.and_eq_true] at h
    have hds := (Doc.allList_iff _ ds).mp h.2
    simp only [stripComments, Doc.all, Bool.and_eq_true]
    refine ⟨by rw [hc _ ds]; exact h.1, (Doc.allList_iff _ _).mpr ?_⟩
    intro x hx
    rw [stripCommentsList_eq] at hx
    obtain ⟨y, hy, rfl⟩ := List.mem_map.mp hx
    exact ih y hy (hds y hy)
  | hindent off d ih =>
    intro h
    simp only [Doc.all, Bool.and_eq_true] at h
    simp only [stripComments, Doc.all, Bool.and_eq_true]
    exact ⟨by rw [hi off _ d]; exact h.1, ih h.2⟩
  | hgroup d ih =>
    intro h
    simp only [Doc.all, Bool.and_eq_true] at h
    simp only [stripComments, Doc.all, Bool.and_eq_true]
    exact ⟨by rw [hg _ d]; exact h.1, ih h.2⟩
  | hff d ih =>
    intro h
    simp only [Doc.all, Bool.and_eq_true] at h
    simp only [stripComments, Doc.all, Bool.and_eq_true]
    exact ⟨by rw [hf _ d]; exact h.1, ih h.2⟩
  | hleaf d hsz hnc =>
    intro h
    cases d <;> simp [Doc.size] at hsz
    case concat ds => exact absurd rfl (hnc ds)
    case indent off d => have := Doc.size_pos d; omega
    case group d => have := Doc.size_pos d; omega
    case forceFlat d => have := Doc.size_pos d; omega
    case comments cs => simpa [stripComments, Doc.all] using hnil
    all_goals simpa [stripComments] using h

/-- The content of the stripped document, for layout-neutral documents: the code leaves. -/
theorem content_stripComments (d : Doc) : d.all layoutNeutralNode = true →
    ∀ m c, Content m (stripComments d) c → nonws c = nonws (codeLeaves d) := by
  induction d using Doc.induct with
  | hconcat ds ih =>
    intro hall m c h
    simp only [Doc.all, Bool.and_eq_true] at hall
    have hds := (Doc.allList_iff _ ds).mp hall.2
    simp only [stripComments, Content] at h
    simp only [codeLeaves]
    clear hall
    induction ds generalizing c with
    | nil => simp only [stripCommentsList, ContentList] at h; subst h; rfl
    | cons x xs ihx =>
      simp only [stripCommentsList, ContentList] at h
      obtain ⟨a, b, rfl, ha, hb⟩ := h
      simp only [codeLeavesList, nonws_append]
      rw [ih x (by simp) (hds x (by simp)) m a ha,
        ihx (fun d hd => ih d (by simp [hd])) b (fun d hd => hds d (by simp [hd])) hb]
  | hindent off d ih =>
    intro hall m c h
    simp only [Doc.all, Bool.and_eq_true] at hall
    simp only [codeLeaves]
    exact ih hall.2 m c (by simpa [stripComments, Content] using h)
  | hgroup d ih =>
    intro hall m c h
    simp only [Doc.all, Bool.and_eq_true] at hall
    simp only [stripComments] at h
    obtain ⟨m₁, h₁⟩ := content_group_inv h
    simp only [codeLeaves]
    exact ih hall.2 m₁ c h₁
  | hff d ih =>
    intro hall m c h
    simp only [Doc.all, Bool.and_eq_true] at hall
    simp only [codeLeaves]
    exact ih hall.2 .flat c (by simpa [stripComments, Content] using h)
  | hleaf d hsz hnc =>
    intro hall m c h
    cases d <;> simp [Doc.size] at hsz
    case concat ds => exact absurd rfl (hnc ds)
    case indent off d => have := Doc.size_pos d; omega
    case group d => have := Doc.size_pos d; omega
    case forceFlat d => have := Doc.size_pos d; omega
    case line sep =>
      have hs : nonws sep = [] := nonws_all_ws (by simpa [Doc.all, layoutNeutralNode] using hall)
      cases m <;> simp only [stripComments, Content] at h <;> subst h <;> (try simp only [codeLeaves]) <;>
        (try rw [hs]) <;> (try rfl)
    case ifBreak t =>
      have hs : nonws t = [] := nonws_all_ws (by simpa [Doc.all, layoutNeutralNode] using hall)
      cases m <;> simp only [stripComments, Content] at h <;> subst h <;> (try simp only [codeLeaves]) <;>
        (try rw [hs]) <;> (try rfl)
    all_goals (cases m <;> simp only [stripComments, Content] at h <;> subst h <;> simp only [codeLeaves] <;> rfl)

/-- The content of a layout-neutral document: all its leaves. -/
theorem content_leaves (d : Doc) : d.all layoutNeutralNode = true →
    ∀ m c, Content m d c → nonws c = nonws (leaves d) := by
  induction d using Doc.induct with
  | hconcat ds ih =>
    intro hall m c h
    simp only [Doc.all, Bool.and_eq_true] at hall
    have hds := (Doc.allList_iff _ ds).mp hall.2
    simp only [Content] at h
    simp only [leaves]
    clear hall
    induction ds generalizing c with
    | nil => simp only [ContentList] at h; subst h; rfl
    | cons x xs ihx =>
      simp only [ContentList] at h
      obtain ⟨a, b, rfl, ha, hb⟩ := h
      simp only [leavesList, nonws_append]
      rw [ih x (by simp) (hds x (by simp)) m a ha,
        ihx (fun d hd => ih d (by simp [hd])) b hb (fun d hd => hds d (by simp [hd]))]
  | hindent off d ih =>
    intro hall m c h
    simp only [Doc.all, Bool.and_eq_true] at hall
    simp only [leaves]
    exact ih hall.2 m c (by simpa [Content] using h)
  | hgroup d ih =>
    intro hall m c h
    simp only [Doc.all, Bool.and_eq_true] at hall
    obtain ⟨m₁, h₁⟩ := content_group_inv h
    simp only [leaves]
    exact ih hall.2 m₁ c h₁
  | hff d ih =>
    intro hall m c h
    simp only [Doc.all, Bool.and_eq_true] at hall
    simp only [leaves]
    exact ih hall.2 .flat c (by simpa [Content] using h)
  | hleaf d hsz hnc =>
    intro hall m c h
    cases d <;> simp [Doc.size] at hsz
    case concat ds => exact absurd rfl (hnc ds)
    case indent off d => have := Doc.size_pos d; omega
    case group d => have := Doc.size_pos d; omega
    case forceFlat d => have := Doc.size_pos d; omega
    case line sep =>
      have hs : nonws sep = [] := nonws_all_ws (by simpa [Doc.all, layoutNeutralNode] using hall)
      cases m <;> simp only [Content] at h <;> subst h <;> (try simp only [leaves]) <;>
        (try rw [hs]) <;> (try rfl)
    case ifBreak t =>
      have hs : nonws t = [] := nonws_all_ws (by simpa [Doc.all, layoutNeutralNode] using hall)
      cases m <;> simp only [Content] at h <;> subst h <;> (try simp only [leaves]) <;>
        (try rw [hs]) <;> (try rfl)
    all_goals (cases m <;> simp only [Content] at h <;> subst h <;> simp only [leaves] <;> rfl)

mutual
/-- The texts of the comments of the document, in document order. -/
def commentLeaves : Doc → List Char
  | .comments cs => cs.flatMap (·.text)
  | .concat ds => commentLeavesList ds
  | .indent _ d => commentLeaves d
  | .group d => commentLeaves d
  | .forceFlat d => commentLeaves d
  | _ => []
def commentLeavesList : List Doc → List Char
  | [] => []
  | d :: ds => commentLeaves d ++ commentLeavesList ds
end

/-- `Merge a b r`: `r` is an order-preserving merge of `a` and `b` (every char of `r` comes from
    exactly one of them; deleting the chars that came from `b` leaves `a`). -/
inductive Merge : List Char → List Char → List Char → Prop
  | nil : Merge [] [] []
  | left (c : Char) {a b r : List Char} : Merge a b r → Merge (c :: a) b (c :: r)
  | right (c : Char) {a b r : List Char} : Merge a b r → Merge a (c :: b) (c :: r)

theorem Merge.left_only : ∀ a : List Char, Merge a [] a
  | [] => .nil
  | c :: a => .left c (Merge.left_only a)

theorem Merge.right_only : ∀ b : List Char, Merge [] b b
  | [] => .nil
  | c :: b => .right c (Merge.right_only b)

theorem Merge.append {a b r a' b' r' : List Char} (h : Merge a b r) (h' : Merge a' b' r') :
    Merge (a ++ a') (b ++ b') (r ++ r') := by
  induction h with
  | nil => simpa using h'
  | left c _ ih => exact .left c ih
  | right c _ ih => exact .right c ih

theorem Merge.filter {a b r : List Char} (p : Char → Bool) (h : Merge a b r) :
    Merge (a.filter p) (b.filter p) (r.filter p) := by
  induction h with
  | nil => exact .nil
  | left c _ ih =>
    simp only [List.filter_cons]
    split
    · exact .left c ih
    · exact ih
  | right c _ ih =>
    simp only [List.filter_cons]
    split
    · exact .right c ih
    · exact ih

theorem Merge.length {a b r : List Char} (h : Merge a b r) : r.length = a.length + b.length := by
  induction h with
  | nil => rfl
  | left c _ ih => simp [ih]; omega
  | right c _ ih => simp [ih]; omega

/-- The leaves of a document are its code leaves merged, in order, with its comment texts. -/
theorem leaves_merge (d : Doc) : Merge (codeLeaves d) (commentLeaves d) (leaves d) := by
  induction d using Doc.induct with
  | hconcat ds ih =>
    simp only [codeLeaves, commentLeaves, leaves]
    induction ds with
    | nil => exact .nil
    | cons x xs ihx =>
      simp only [codeLeavesList, commentLeavesList, leavesList]
      exact Merge.append (ih x (by simp)) (ihx (fun d hd => ih d (by simp [hd])))
  | hindent off d ih => simpa only [codeLeaves, commentLeaves, leaves] using ih
  | hgroup d ih => simpa only [codeLeaves, commentLeaves, leaves] using ih
  | hff d ih => simpa only [codeLeaves, commentLeaves, leaves] using ih
  | hleaf d hsz hnc =>
    cases d <;> simp [Doc.size] at hsz
    case concat ds => exact absurd rfl (hnc ds)
    case indent off d => have := Doc.size_pos d; omega
    case group d => have := Doc.size_pos d; omega
    case forceFlat d => have := Doc.size_pos d; omega
    case text t => exact Merge.left_only t
    case anchored t sl sc => exact Merge.left_only t
    case comments cs => exact Merge.right_only _
    all_goals exact .nil

end VerylModel.Pretty
