import VerylModel.Lemmas.EmitPrec
import VerylModel.Lemmas.EmitEvalEq
/-! T3 of C01: statements, combinational settle, clock and reset events, one cycle, traces. -/
namespace VerylModel.Emit
open VerylModel.SV

/-- an expression as written: no `a ** b ** c`, operators of `evalOK` -/
def rawOK (decls : List Decl) (r : VRaw) : Bool := noPP r && evalOK decls (precClimb r)

/-- statements over `rawOK` expressions; `case` is outside (its items are compared pairwise by the
simulator and all together by IEEE 1800 §12.5.1: see the `case:*` findings) -/
def stmtOK (decls : List Decl) : VStmt → Bool
  | .skip => true
  | .assign _ e => rawOK decls e
  | .seq a b => stmtOK decls a && stmtOK decls b
  | .ite c t e => rawOK decls c && stmtOK decls t && stmtOK decls e
  | .case _ _ _ => false

theorem exec_eq (decls : List Decl) (nb : Bool) :
    ∀ (s : VStmt) (st : State × Log), stmtOK decls s = true →
      exec decls (emitStmt nb s) st = vexec decls nb s st
  | .skip, st, _ => by simp [emitStmt, exec, vexec]
  | .assign l e, (σ, log), h => by
    simp only [stmtOK, rawOK, Bool.and_eq_true] at h
    simp only [emitStmt, exec, vexec]
    rw [resolve_emit e h.1, ← assign_eq decls σ (precClimb e) _ h.2]
    generalize assignValV decls σ _ (precClimb e) = r
    cases r <;> rfl
  | .seq a b, st, h => by
    simp only [stmtOK, Bool.and_eq_true] at h
    simp only [emitStmt, exec, vexec, exec_eq decls nb a st h.1]
    cases hv : vexec decls nb a st with
    | none => rfl
    | some st' => simp only [exec_eq decls nb b st' h.2]
  | .ite c t e, (σ, log), h => by
    simp only [stmtOK, rawOK, Bool.and_eq_true] at h
    obtain ⟨⟨⟨hp, hc⟩, ht⟩, he⟩ := h
    simp only [emitStmt, exec, vexec]
    rw [resolve_emit c hp, size_eq decls σ _ hc, sgn_eq decls σ _ hc]
    have hrel := evalA_rel decls σ (precClimb c) hc (gather decls (precClimb c)) (Nat.le_refl _) (fun x => x)
    rcases rel_cases hrel with ⟨h1, h2⟩ | ⟨v, n, h1, h2, hw, hs⟩
    · rw [h1, h2]
    · rw [h1, h2]
      obtain ⟨_, hv, _, _⟩ := rel_selfdet _ v n ⟨hw, hs⟩
      simp only [hv, exec_eq decls nb t (σ, log) ht, exec_eq decls nb e (σ, log) he]
  | .case _ _ _, _, h => by simp [stmtOK] at h

def itemOK (decls : List Decl) : VItem → Bool
  | .assign _ e => rawOK decls e
  | .comb s => stmtOK decls s
  | .ff _ r b => stmtOK decls b && (match r with | some r => stmtOK decls r | none => true)

theorem combPass_eq (d : VDesign) (cfg : Cfg) :
    ∀ (items : List VItem) (σ : State), items.all (itemOK d.decls) = true →
      combPass d.decls (items.map (emitItem d cfg)) σ = vcombPass d.decls items σ
  | [], σ, _ => rfl
  | .assign l e :: t, σ, h => by
    simp only [List.all_cons, Bool.and_eq_true, itemOK] at h
    have he := exec_eq d.decls false (.assign l e) (σ, []) (by simpa [stmtOK] using h.1)
    simp only [emitStmt] at he
    simp only [List.map_cons, emitItem, combPass, vcombPass, he]
    cases hv : vexec d.decls false (.assign l e) (σ, []) with
    | none => rfl
    | some st => simp only [combPass_eq d cfg t st.1 h.2]
  | .comb s :: t, σ, h => by
    simp only [List.all_cons, Bool.and_eq_true, itemOK] at h
    simp only [List.map_cons, emitItem, combPass, vcombPass, exec_eq d.decls false s (σ, []) h.1]
    cases hv : vexec d.decls false s (σ, []) with
    | none => rfl
    | some st => simp only [combPass_eq d cfg t st.1 h.2]
  | .ff x r b :: t, σ, h => by
    simp only [List.all_cons, Bool.and_eq_true] at h
    simp only [List.map_cons, emitItem, combPass, vcombPass, combPass_eq d cfg t σ h.2]

def designOK (d : VDesign) : Bool := d.items.all (itemOK d.decls)

theorem settle_eq (d : VDesign) (cfg : Cfg) (h : designOK d = true) :
    ∀ (fuel : Nat) (σ : State), settle (emitModel d cfg) fuel σ = vsettle d fuel σ
  | 0, _ => rfl
  | fuel + 1, σ => by
    simp only [settle, vsettle, emitModel, combPass_eq d cfg d.items σ h]
    cases hv : vcombPass d.decls d.items σ with
    | none => rfl
    | some σ' =>
      simp only
      split
      · rfl
      · exact settle_eq d cfg h fuel σ'

theorem fuel_eq (d : VDesign) (cfg : Cfg) : settleFuel (emitModel d cfg) = vfuel d := by
  simp [settleFuel, vfuel, emitModel]

/-- the result of `settle` is a fix-point of the combinational pass -/
theorem settle_fix (m : Module) : ∀ (fuel : Nat) (σ σ' : State), settle m fuel σ = some σ' →
    combPass m.decls m.items σ' = some σ'
  | 0, _, _, h => by simp [settle] at h
  | fuel + 1, σ, σ', h => by
    simp only [settle] at h
    cases hc : combPass m.decls m.items σ with
    | none => rw [hc] at h; simp at h
    | some σ'' =>
      rw [hc] at h
      simp only at h
      split at h
      · rename_i heq
        simp only [Option.some.injEq] at h
        subst h; rw [hc, heq]
      · exact settle_fix m fuel σ'' σ' h

/-- settling a settled state changes nothing -/
theorem settle_idem (m : Module) (fuel : Nat) (σ : State) (h : combPass m.decls m.items σ = some σ) :
    settle m (fuel + 1) σ = some σ := by
  simp [settle, h]

/-- well-formed design: modelled statements, distinct clock and reset, the reset is one unsigned bit -/
structure WfD (d : VDesign) : Prop where
  ok : designOK d = true
  clk_ne_rst : d.clk ≠ d.rst
  rst1 : d.decls.getD d.rst { width := 1, signed := false } = { width := 1, signed := false }

/-- `if (rst)` / `if (!rst)` of the emitted `always_ff` tests the reset LEVEL -/
theorem exec_rstCond (decls : List Decl) (rst : Nat) (high : Bool) (t e : Stmt) (σ : State) (log : Log)
    (h1 : decls.getD rst { width := 1, signed := false } = { width := 1, signed := false }) :
    exec decls (.ite (if high then .var rst else .un .lnot (.var rst)) t e) (σ, log) =
      if (decide (σ.getD rst 0 % 2 ≠ 0) == high) then exec decls t (σ, log) else exec decls e (σ, log) := by
  have hm : ∀ x : Nat, x % 2 % 2 = x % 2 := fun x => Nat.mod_mod _ _
  cases high
  · simp only [Bool.false_eq_true, if_false, exec, resolve, size, sgn, UnOp.isReduce, if_true, eval, Env.decl, Env.val, h1,
      Option.map_some, ext, Nat.le_refl, reduce, b2n, Nat.pow_one, hm]
    by_cases hz : σ[rst]?.getD 0 % 2 = 0
    · simp [hz]
    · have : σ[rst]?.getD 0 % 2 = 1 := by omega
      simp [this]
  · simp only [if_true, exec, resolve, size, sgn, eval, Env.decl, Env.val, h1, ext, Nat.le_refl, Nat.pow_one, hm]
    by_cases hz : σ[rst]?.getD 0 % 2 = 0
    · simp [hz]
    · have : σ[rst]?.getD 0 % 2 = 1 := by omega
      simp [this]

theorem edge_ne_flip (e : Edge) : (e == e.flip) = false := by cases e <;> rfl

theorem sens_clk (e : Edge) (clk : Nat) (rs : Option (Edge × Nat)) (bd : Stmt) :
    FF.sensitive ⟨e, clk, rs, bd⟩ e clk = true := by
  simp [FF.sensitive]

theorem sens_inactive (e : Edge) (clk rst : Nat) (rs : Option (Edge × Nat)) (bd : Stmt) (hne : (rst == clk) = false)
    (hrs : rs = none ∨ ∃ e', rs = some (e', rst)) : FF.sensitive ⟨e, clk, rs, bd⟩ e.flip clk = false := by
  rcases hrs with h | ⟨e', h⟩ <;> subst h <;> simp [FF.sensitive, edge_ne_flip, hne]

/-- the body the emitter gives an `always_ff` = the clock event of the simulator -/
theorem ffBody_eq (d : VDesign) (cfg : Cfg) (hw : WfD d) (reset : Option VStmt) (body : VStmt) (σ : State) (log : Log)
    (hb : stmtOK d.decls body = true) (hr : (match reset with | some r => stmtOK d.decls r | none => true) = true) :
    exec d.decls (ffBody d.rst (rstHighOf d cfg) reset body)
      (σ, log) = ffClock d (rstHighOf d cfg) reset body σ log := by
  cases reset with
  | none => simp only [ffBody, ffClock, exec_eq d.decls true body (σ, log) hb]
  | some r =>
    simp only at hr
    simp only [ffBody, ffClock, exec_rstCond d.decls d.rst (rstHighOf d cfg) _ _ σ log hw.rst1,
      exec_eq d.decls true body (σ, log) hb, exec_eq d.decls true r (σ, log) hr]

/-- active clock edge: every emitted `always_ff` runs, as `clockLog` -/
theorem fireLog_clk (d : VDesign) (cfg : Cfg) (hw : WfD d) (σ : State) :
    ∀ (items : List VItem) (log : Log), items.all (itemOK d.decls) = true →
      fireLog d.decls (clkEdgeOf d cfg) d.clk σ (items.map (emitItem d cfg)) log =
        clockLog d (rstHighOf d cfg) σ items log
  | [], log, _ => rfl
  | .assign l e :: t, log, h => by
    simp only [List.all_cons, Bool.and_eq_true] at h
    simp only [List.map_cons, emitItem, fireLog, clockLog, fireLog_clk d cfg hw σ t log h.2]
  | .comb s :: t, log, h => by
    simp only [List.all_cons, Bool.and_eq_true] at h
    simp only [List.map_cons, emitItem, fireLog, clockLog, fireLog_clk d cfg hw σ t log h.2]
  | .ff x r b :: t, log, h => by
    simp only [List.all_cons, Bool.and_eq_true, itemOK] at h
    simp only [List.map_cons, emitItem, fireLog, clockLog, sens_clk, if_true,
      ffBody_eq d cfg hw r b σ log h.1.1 h.1.2]
    cases hv : ffClock d (rstHighOf d cfg) r b σ log with
    | none => rfl
    | some st => simp only [fireLog_clk d cfg hw σ t st.2 h.2]

/-- inactive clock edge: no emitted process is sensitive to it -/
theorem fireLog_inactive (d : VDesign) (cfg : Cfg) (hw : WfD d) (σ : State) :
    ∀ (items : List VItem) (log : Log),
      fireLog d.decls (clkEdgeOf d cfg).flip d.clk σ (items.map (emitItem d cfg)) log = some log
  | [], _ => rfl
  | .assign l e :: t, log => by simp only [List.map_cons, emitItem, fireLog, fireLog_inactive d cfg hw σ t log]
  | .comb s :: t, log => by simp only [List.map_cons, emitItem, fireLog, fireLog_inactive d cfg hw σ t log]
  | .ff x r b :: t, log => by
    have hne : (d.rst == d.clk) = false := by
      have := hw.clk_ne_rst
      simp only [beq_eq_false_iff_ne, ne_eq]
      exact fun h => this h.symm
    simp only [List.map_cons, emitItem, fireLog]
    rw [sens_inactive _ _ _ _ _ hne]
    · simp only [Bool.false_eq_true, if_false, fireLog_inactive d cfg hw σ t log]
    · simp only [ffSens]
      split
      · exact Or.inr ⟨_, rfl⟩
      · exact Or.inl rfl

/-- one clock cycle of the emitted module under the protocol = one `Simulator::step` after the
inputs were set -/
theorem cycle_eq (d : VDesign) (cfg : Cfg) (hw : WfD d) (σ : State) (stim : List Nat) :
    cycle (emitModel d cfg) (tbOf d cfg) σ stim = step d cfg (setInputs d.decls σ false d.inputs stim) := by
  have hF : settleFuel (emitModel d cfg) = vfuel d := fuel_eq d cfg
  have hFs : vfuel d = (d.items.length + 1) + 1 := rfl
  simp only [cycle, step, event, tbOf, hF, settle_eq d cfg hw.ok]
  have hdecl : (emitModel d cfg).decls = d.decls := rfl
  have hitems : (emitModel d cfg).items = d.items.map (emitItem d cfg) := rfl
  have hin : (emitModel d cfg).inputs = d.inputs := rfl
  rw [hdecl, hitems, hin]
  cases hs : vsettle d (vfuel d) (setInputs d.decls σ false d.inputs stim) with
  | none => rfl
  | some σ2 =>
    -- inactive edge: nothing fires, the state stays settled
    have hfix : combPass (emitModel d cfg).decls (emitModel d cfg).items σ2 = some σ2 := by
      apply settle_fix (emitModel d cfg) (vfuel d) _ σ2
      rw [settle_eq d cfg hw.ok]; exact hs
    have hidem : vsettle d (vfuel d) σ2 = some σ2 := by
      rw [← settle_eq d cfg hw.ok, hFs]
      exact settle_idem (emitModel d cfg) _ σ2 hfix
    simp only [fireLog_inactive d cfg hw σ2 d.items [], commit, List.foldl_nil, hidem,
      fireLog_clk d cfg hw σ2 d.items [] hw.ok]
    cases clockLog d (rstHighOf d cfg) σ2 d.items [] <;> rfl

theorem sample_eq (d : VDesign) (cfg : Cfg) (σ : State) : sample (emitModel d cfg) σ = vsample d σ := rfl

/-- traces from any common state (e.g. the state after reset) -/
theorem cycles_eq (d : VDesign) (cfg : Cfg) (hw : WfD d) :
    ∀ (stim : List (List Nat)) (σ : State),
      cycles (cycle (emitModel d cfg) (tbOf d cfg)) (emitModel d cfg) σ stim = steps d cfg σ stim
  | [], _ => rfl
  | s :: t, σ => by
    simp only [cycles, steps, cycle_eq d cfg hw σ s]
    cases hs : step d cfg (setInputs d.decls σ false d.inputs s) with
    | none => rfl
    | some σ' => simp only [cycles_eq d cfg hw t σ', sample_eq]

/-- with the reset at its asserted level the emitted body takes the reset branch -/
theorem ffBody_asserted (d : VDesign) (cfg : Cfg) (hw : WfD d) (r b : VStmt) (σ : State) (log : Log)
    (hb : stmtOK d.decls b = true) (hr : stmtOK d.decls r = true)
    (hl : decide (σ.getD d.rst 0 % 2 ≠ 0) = rstHighOf d cfg) :
    exec d.decls (ffBody d.rst (rstHighOf d cfg) (some r) b) (σ, log) = vexec d.decls true r (σ, log) := by
  rw [ffBody_eq d cfg hw (some r) b σ log hb hr]
  simp only [ffClock]
  rw [hl]
  simp

/-- reset assertion edge (`posedge rst` for active high, `negedge rst` for active low), state `σ`
settled with the reset at its asserted level: exactly the `always_ff` processes with an asynchronous
reset run, each executing its reset branch = the simulator's reset event (`resetLog`); with a
synchronous reset nothing runs.  (`always_ff (clk, rst)` without `if_reset` is excluded by `hx`.) -/
theorem fireLog_rst_assert (d : VDesign) (cfg : Cfg) (hw : WfD d) (σ : State)
    (hl : decide (σ.getD d.rst 0 % 2 ≠ 0) = rstHighOf d cfg) :
    ∀ (items : List VItem) (log : Log), items.all (itemOK d.decls) = true →
      (∀ x b, VItem.ff x none b ∈ items → x = false) →
      fireLog d.decls (rstEdge (tbOf d cfg) true) d.rst σ (items.map (emitItem d cfg)) log =
        (if rstSyncOf d cfg then some log else resetLog d σ items log)
  | [], log, _, _ => by simp [fireLog, resetLog]
  | .assign l e :: t, log, h, hx => by
    simp only [List.all_cons, Bool.and_eq_true] at h
    simp only [List.map_cons, emitItem, fireLog, resetLog,
      fireLog_rst_assert d cfg hw σ hl t log h.2 (fun x b hi => hx x b (List.mem_cons_of_mem _ hi))]
  | .comb s :: t, log, h, hx => by
    simp only [List.all_cons, Bool.and_eq_true] at h
    simp only [List.map_cons, emitItem, fireLog, resetLog,
      fireLog_rst_assert d cfg hw σ hl t log h.2 (fun x b hi => hx x b (List.mem_cons_of_mem _ hi))]
  | .ff x r b :: t, log, h, hx => by
    simp only [List.all_cons, Bool.and_eq_true, itemOK] at h
    have ih := fun lg => fireLog_rst_assert d cfg hw σ hl t lg h.2 (fun x b hi => hx x b (List.mem_cons_of_mem _ hi))
    have hne : (d.clk == d.rst) = false := by simpa using hw.clk_ne_rst
    have hedge : rstEdge (tbOf d cfg) true = (if rstHighOf d cfg then Edge.pos else Edge.neg) := by
      simp [rstEdge, tbOf]
    simp only [hedge] at ih
    simp only [List.map_cons, emitItem, fireLog, FF.sensitive, hne, Bool.and_false, Bool.false_or, hedge, ffSens]
    cases hsync : rstSyncOf d cfg
    · -- asynchronous
      simp only [hsync, Bool.false_eq_true, if_false] at ih
      cases r with
      | none =>
        have hxf : x = false := hx x b (List.mem_cons_self ..)
        simp only [hxf, Option.isSome_none, Bool.or_self, Bool.and_false, Bool.false_eq_true, if_false, resetLog, ih]
      | some r =>
        have hrs : stmtOK d.decls r = true := h.1.2
        have hbody := ffBody_asserted d cfg hw r b σ log h.1.1 hrs hl
        simp only [Option.isSome_some, Bool.or_true, Bool.not_false, Bool.and_self, if_true, beq_self_eq_true,
          Bool.true_and, resetLog, hbody, Bool.false_eq_true, if_false]
        cases hv : vexec d.decls true r (σ, log) with
        | none => rfl
        | some st => simp only [ih]
    · -- synchronous: no reset in the sensitivity list
      simp only [hsync, if_true] at ih
      simp only [Bool.not_true, Bool.false_and, Bool.false_eq_true, if_false, if_true, ih]

end VerylModel.Emit
