import VerylModel.Lemmas.CrashRecovery
/-! The state a complete run leaves, deletions of emitted files, and the recorded stamps
(for the closed-form statement `recovery_fixed_closed` of `Props/C05`). -/
namespace VerylModel.Crash
open VerylModel.Incremental VerylModel.Props

variable {now : Nat}

theorem build_manifest (pol : Policy) (mode : OutMode) (E : Env) (w : World) (mt : File → Nat) (emit : Bool) (fs : FS) :
    build pol mode E w mt now emit fs .manifest =
      (match (mkPlan pol E w mt now emit fs).manifest with
       | some m => some ⟨.man m, now⟩
       | none => fs .manifest) := by
  have hwf := mkPlan_wf (now := now) pol E w mt emit fs
  simp only [build, Plan.steps, Plan.blocks, stepsOf_append, run_append]
  rw [run_blocks_other _ _ rfl (post_other _ (Or.inr rfl))]
  have hpre : run now fs (stepsOf ((mkPlan pol E w mt now emit fs).pre mode)) .manifest = fs .manifest :=
    run_blocks_other _ _ rfl (pre_other mode _ hwf (Or.inl rfl)) fs
  cases hm : (mkPlan pol E w mt now emit fs).manifest with
  | none =>
    have : stepsOf (mkPlan pol E w mt now emit fs).mid = [] := by simp [Plan.mid, hm, stepsOf]
    rw [this, run_nil, hpre]
  | some m =>
    have : stepsOf (mkPlan pol E w mt now emit fs).mid = atomicWrite 1 .manifest [.man m] := by
      simp [Plan.mid, hm, stepsOf, Block.steps]
    rw [this, run_atomic _ _ _ _ _ rfl]
    simp [joinC_single]

theorem build_info (pol : Policy) (mode : OutMode) (E : Env) (w : World) (mt : File → Nat) (fs : FS) :
    build pol mode E w mt now true fs .info =
      some ⟨.inf (newInfo (emitted pol E w mt true fs) now fs), now⟩ := by
  simp only [build, Plan.steps, Plan.blocks, stepsOf_append, run_append]
  have hi : (mkPlan pol E w mt now true fs).info = some (newInfo (emitted pol E w mt true fs) now fs) := by
    simp [mkPlan]
  simp only [Plan.post, hi, stepsOf_append, run_append]
  simp only [stepsOf, List.flatMap_cons, List.flatMap_nil, List.append_nil, Block.steps]
  rw [run_inPlace]
  simp [joinC_single]

theorem manOf_build (pol : Policy) (mode : OutMode) (E : Env) (w : World) (mt : File → Nat) (fs : FS) :
    ManOf E (build pol mode E w mt now true fs) w := by
  unfold ManOf
  cases hm : (mkPlan pol E w mt now true fs).manifest with
  | none =>
    have h := build_manifest (now := now) pol mode E w mt true fs
    rw [hm] at h
    rw [openMan_congr h, mkPlan_manifest_none hm]; rfl
  | some m =>
    have h := build_manifest (now := now) pol mode E w mt true fs
    rw [hm] at h
    have := mkPlan_manifest_some hm
    subst this
    rw [openMan_of_new rfl h]; rfl

/-- A complete run in which every file was emitted leaves a `Good` state with all outputs right. -/
theorem build_good (pol : Policy) (mode : OutMode) (E : Env) (w : World) (mt : File → Nat) (fs : FS)
    (hall : ∀ f ∈ w.files, f ∈ missFinal pol E w mt true fs) :
    Good pol E (build pol mode E w mt now true fs) w (fun _ => True) := by
  refine ⟨manOf_build pol mode E w mt fs, ?_⟩
  intro f hf _ _ _
  unfold OutputsOk
  rw [build_out_eq pol mode E w mt true fs (.sv f) ⟨f, Or.inl rfl⟩,
      build_out_eq pol mode E w mt true fs (.map f) ⟨f, Or.inr rfl⟩]
  exact (pre_outputs (now := now) pol mode E w mt fs f).1 (mem_emitted.mpr ⟨hf, hall f hf⟩)

/-! ### the user deletes emitted files -/

def delAll (fs : FS) (del : List Path) : FS := del.foldl (fun fs p => fs.set p none) fs

theorem delAll_apply (fs : FS) (del : List Path) (p : Path) :
    delAll fs del p = if p ∈ del then none else fs p := by
  induction del generalizing fs with
  | nil => simp [delAll]
  | cons q del ih =>
    simp only [delAll, List.foldl_cons] at ih ⊢
    rw [ih]
    by_cases h : p ∈ del
    · simp [h]
    · by_cases hq : p = q
      · subst hq; simp [h, set_same]
      · simp [h, hq, set_other _ _ _ _ hq]

theorem delAll_other (fs : FS) (del : List Path) (hdel : ∀ p ∈ del, IsOut p) (p : Path) (hp : ¬ IsOut p) :
    delAll fs del p = fs p := by
  rw [delAll_apply]
  have : p ∉ del := fun h => hp (hdel _ h)
  simp [this]

theorem fresh_fixed_exists {fs : FS} {mt : File → Nat} {f : File} (h : fresh .fixed fs mt f = true) :
    (fs (.sv f)).isSome ∧ (fs (.map f)).isSome := by
  unfold fresh at h
  cases hst : stampOf fs f with
  | none => simp [hst] at h
  | some st =>
    cases hsv : fs (.sv f) with
    | none => simp [hst, hsv] at h
    | some o =>
      cases hmp : fs (.map f) with
      | none => simp [hst, hsv, hmp] at h
      | some m => simp

theorem good_delAll (E : Env) (fs : FS) (w : World) (del : List Path) (hdel : ∀ p ∈ del, IsOut p)
    (hg : Good .fixed E fs w (fun _ => True)) : Good .fixed E (delAll fs del) w (fun _ => True) := by
  have hman : delAll fs del .manifest = fs .manifest := by
    rw [delAll_apply]
    have : Path.manifest ∉ del := fun h => by obtain ⟨f, h' | h'⟩ := hdel _ h <;> cases h'
    simp [this]
  have hinfo : delAll fs del .info = fs .info := by
    rw [delAll_apply]
    have : Path.info ∉ del := fun h => by obtain ⟨f, h' | h'⟩ := hdel _ h <;> cases h'
    simp [this]
  refine ⟨?_, ?_⟩
  · unfold ManOf; rw [openMan_congr hman]; exact hg.1
  · intro f hf _ mt hfr
    obtain ⟨h1, h2⟩ := fresh_fixed_exists hfr
    have hsv : delAll fs del (.sv f) = fs (.sv f) := by
      rw [delAll_apply] at h1 ⊢
      by_cases h : Path.sv f ∈ del
      · simp [h] at h1
      · simp [h]
    have hmp : delAll fs del (.map f) = fs (.map f) := by
      rw [delAll_apply] at h2 ⊢
      by_cases h : Path.map f ∈ del
      · simp [h] at h2
      · simp [h]
    have := hg.2 f hf trivial mt (by rw [← fresh_congr hinfo hsv hmp]; exact hfr)
    unfold OutputsOk; rw [hsv, hmp]; exact this

theorem lookupNat_const {l : List File} {t : Nat} {f : File} {st : Nat}
    (h : lookupNat (l.map (fun g => (g, t))) f = some st) : st = t := by
  induction l with
  | nil => simp [lookupNat] at h
  | cons g l ih =>
    simp only [List.map_cons, lookupNat] at h
    split at h
    · exact (Option.some.inj h).symm
    · exact ih h

end VerylModel.Crash
