import VerylModel.Lemmas.ClockDomain
/-! Proofs behind the C16 theorems (`Props/C16.lean` restates the property theorems). -/
namespace VerylModel.ClockDomain

/-! ### Expressions -/

mutual
theorem root_aux (u : Bool) : ∀ e : Expr Dom, (e.eval u).1 = mergeAll e.leaves
  | .leaf d => by simp [Expr.eval, Expr.leaves, mergeAll, Dom.merge_none_right]
  | .unary x => by simpa [Expr.eval, Expr.leaves] using root_aux u x
  | .binary x y => by
    simp [Expr.eval, Expr.leaves, mergeAll_append, root_aux u x, root_aux u y]
  | .ternary c t e => by
    simp [Expr.eval, Expr.leaves, mergeAll_append, root_aux u c, root_aux u t, root_aux u e,
      Dom.merge_assoc]
  | .nary i es => by
    simp [Expr.eval, Expr.leaves, mergeAll, root_fold_aux u i es]
theorem root_fold_aux (u : Bool) (acc : Dom) :
    ∀ es : List (Expr Dom), (Expr.evalFold u acc es).1 = acc.merge (mergeAll (Expr.leavesList es))
  | [] => by simp [Expr.evalFold, Expr.leavesList, mergeAll, Dom.merge_none_right]
  | e :: es => by
    simp only [Expr.evalFold, Expr.leavesList, mergeAll_append]
    rw [root_fold_aux u (acc.merge (e.eval u).1) es, root_aux u e, Dom.merge_assoc]
end

/-- The domain carried by an expression is the merge of its leaf domains in source order,
whether or not it sits inside `unsafe (cdc)`. -/
theorem root_is_merge_of_leaves (u : Bool) (e : Expr Dom) : (e.eval u).1 = mergeAll e.leaves :=
  root_aux u e

mutual
theorem exact_aux : ∀ e : Expr Dom, (e.eval false).2 = [] ↔ Consistent e.leaves
  | .leaf d => by
    simp only [Expr.eval, Expr.leaves, true_iff]
    intro a ha b hb
    simp only [List.mem_singleton] at ha hb
    subst ha; subst hb; exact Dom.compatible_refl _
  | .unary x => by simpa [Expr.eval, Expr.leaves] using exact_aux x
  | .binary x y => by
    simp only [Expr.eval, Expr.leaves, List.append_eq_nil_iff, exact_aux x, exact_aux y,
      check_eq_nil, root_aux, consistent_append]
    constructor
    · rintro ⟨⟨hx, hy⟩, h⟩
      exact ⟨hx, hy, (mergeAll_cross hx hy).mp (by simpa using h)⟩
    · rintro ⟨hx, hy, h⟩
      exact ⟨⟨hx, hy⟩, Or.inr ((mergeAll_cross hx hy).mpr h)⟩
  | .ternary c t e => by
    simp only [Expr.eval, Expr.leaves, List.append_eq_nil_iff, exact_aux c, exact_aux t, exact_aux e,
      check_eq_nil, root_aux, consistent_append]
    constructor
    · rintro ⟨⟨⟨hc, ht⟩, he⟩, ⟨h1, h2⟩, h3⟩
      have h1' := (mergeAll_cross hc ht).mp (by simpa using h1)
      have h2' := (mergeAll_cross hc he).mp (by simpa using h2)
      have h3' := (mergeAll_cross ht he).mp (by simpa using h3)
      refine ⟨hc, ⟨ht, he, h3'⟩, ?_⟩
      intro a ha b hb
      rcases List.mem_append.mp hb with hb | hb
      · exact h1' a ha b hb
      · exact h2' a ha b hb
    · rintro ⟨hc, ⟨ht, he, h3⟩, h⟩
      refine ⟨⟨⟨hc, ht⟩, he⟩, ⟨Or.inr ((mergeAll_cross hc ht).mpr ?_),
        Or.inr ((mergeAll_cross hc he).mpr ?_)⟩, Or.inr ((mergeAll_cross ht he).mpr h3)⟩
      · intro a ha b hb; exact h a ha b (List.mem_append.mpr (Or.inl hb))
      · intro a ha b hb; exact h a ha b (List.mem_append.mpr (Or.inr hb))
  | .nary i es => by
    have h := exact_fold_aux [i] es (by
      intro a ha b hb
      simp only [List.mem_singleton] at ha hb
      subst ha; subst hb; exact Dom.compatible_refl _)
    simpa [Expr.eval, Expr.leaves, mergeAll, Dom.merge_none_right] using h
theorem exact_fold_aux (pre : List Dom) :
    ∀ es : List (Expr Dom), Consistent pre →
      ((Expr.evalFold false (mergeAll pre) es).2 = [] ↔ Consistent (pre ++ Expr.leavesList es))
  | [], hp => by simpa [Expr.evalFold, Expr.leavesList] using hp
  | e :: es, hp => by
    simp only [Expr.evalFold, Expr.leavesList, List.append_eq_nil_iff, exact_aux e, check_eq_nil,
      root_aux]
    constructor
    · rintro ⟨⟨he, hc⟩, hrest⟩
      have hc' := (mergeAll_cross hp he).mp (by simpa using hc)
      have hpe : Consistent (pre ++ e.leaves) := consistent_append.mpr ⟨hp, he, hc'⟩
      have := (exact_fold_aux (pre ++ e.leaves) es hpe).mp (by simpa [mergeAll_append] using hrest)
      simpa [List.append_assoc] using this
    · intro h
      have h' : Consistent ((pre ++ e.leaves) ++ Expr.leavesList es) := by
        simpa [List.append_assoc] using h
      have hpe : Consistent (pre ++ e.leaves) := (consistent_append.mp h').1
      have ⟨_, he, hc⟩ := consistent_append.mp hpe
      refine ⟨⟨he, Or.inr ((mergeAll_cross hp he).mpr hc)⟩, ?_⟩
      have := (exact_fold_aux (pre ++ e.leaves) es hpe).mpr h'
      simpa [mergeAll_append] using this
end

/-- T1. Outside `unsafe (cdc)`, some check site inside the expression reports **iff** two of its
leaves carry incompatible domains (every expression shape: unary, binary, ternary, concatenation /
struct / array literal, indexed factor; any depth, any arity). -/
theorem expr_check_exact (e : Expr Dom) :
    (e.eval false).2 ≠ [] ↔ ∃ a ∈ e.leaves, ∃ b ∈ e.leaves, a.compatible b = false := by
  rw [Ne, exact_aux e]
  unfold Consistent
  constructor
  · intro h
    apply Classical.byContradiction
    intro hn
    apply h
    intro a ha b hb
    cases hab : a.compatible b
    · exact absurd ⟨a, ha, b, hb, hab⟩ hn
    · rfl
  · rintro ⟨a, ha, b, hb, hab⟩ h
    rw [h a ha b hb] at hab
    cases hab

/-- T1'. "merge never launders a concrete domain": if no check site reports, the domain the
expression carries is compatible with any `c` exactly when every leaf is; and (always) it is
`None` exactly when every leaf is `None`. -/
theorem expr_no_launder (e : Expr Dom) (h : (e.eval false).2 = []) (c : Dom) :
    (e.eval false).1.compatible c = e.leaves.all (fun d => d.compatible c) := by
  rw [root_aux]
  exact mergeAll_compatible ((exact_aux e).mp h) c

theorem expr_root_none_iff (u : Bool) (e : Expr Dom) :
    (e.eval u).1 = Dom.none ↔ ∀ d ∈ e.leaves, d = Dom.none := by
  rw [root_aux]; exact mergeAll_eq_none

example : (Expr.eval false (.binary (.leaf (.explicit 1)) (.nary .none [.leaf (.inferred 1), .leaf .none]))).2 = [] := by
  decide
example : (Expr.eval false (.ternary (.leaf .none) (.leaf (.explicit 1)) (.leaf (.explicit 2)))).2
    = [(.explicit 1, .explicit 2)] := by decide

/-! ### Explicit and inferred alike -/

/-- Class of both sides of a report. -/
def clsReport (r : Report) : Option (Option Nat) × Option (Option Nat) := (r.1.cls, r.2.cls)

theorem check_alike (u : Bool) {a a' b b' : Dom} (ha : a.cls = a'.cls) (hb : b.cls = b'.cls) :
    (check u a b).map clsReport = (check u a' b').map clsReport := by
  unfold check
  rw [Dom.compatible_congr ha hb]
  split <;> simp [clsReport, ha, hb]

mutual
theorem alike_aux (u : Bool) : ∀ e : Expr (Dom × Dom), (∀ p ∈ e.leaves, p.1.cls = p.2.cls) →
    ((e.map Prod.fst).eval u).1.cls = ((e.map Prod.snd).eval u).1.cls ∧
    ((e.map Prod.fst).eval u).2.map clsReport = ((e.map Prod.snd).eval u).2.map clsReport
  | .leaf p, h => by simpa [Expr.map, Expr.eval] using h p (by simp [Expr.leaves])
  | .unary x, h => by simpa [Expr.map, Expr.eval] using alike_aux u x (by simpa [Expr.leaves] using h)
  | .binary x y, h => by
    have hx := alike_aux u x (fun p hp => h p (by simp [Expr.leaves, hp]))
    have hy := alike_aux u y (fun p hp => h p (by simp [Expr.leaves, hp]))
    simp only [Expr.map, Expr.eval, List.map_append]
    exact ⟨Dom.cls_merge_congr hx.1 hy.1, by rw [hx.2, hy.2, check_alike u hx.1 hy.1]⟩
  | .ternary c t e, h => by
    have hc := alike_aux u c (fun p hp => h p (by simp [Expr.leaves, hp]))
    have ht := alike_aux u t (fun p hp => h p (by simp [Expr.leaves, hp]))
    have he := alike_aux u e (fun p hp => h p (by simp [Expr.leaves, hp]))
    simp only [Expr.map, Expr.eval, List.map_append]
    exact ⟨Dom.cls_merge_congr (Dom.cls_merge_congr hc.1 ht.1) he.1, by
      rw [hc.2, ht.2, he.2, check_alike u hc.1 ht.1, check_alike u hc.1 he.1, check_alike u ht.1 he.1]⟩
  | .nary i es, h => by
    simp only [Expr.map, Expr.eval]
    exact alike_fold_aux u es (fun p hp => h p (by simp [Expr.leaves, hp])) _ _
      (h i (by simp [Expr.leaves]))
theorem alike_fold_aux (u : Bool) : ∀ es : List (Expr (Dom × Dom)),
    (∀ p ∈ Expr.leavesList es, p.1.cls = p.2.cls) → ∀ acc acc' : Dom, acc.cls = acc'.cls →
    (Expr.evalFold u acc (Expr.mapList Prod.fst es)).1.cls
      = (Expr.evalFold u acc' (Expr.mapList Prod.snd es)).1.cls ∧
    (Expr.evalFold u acc (Expr.mapList Prod.fst es)).2.map clsReport
      = (Expr.evalFold u acc' (Expr.mapList Prod.snd es)).2.map clsReport
  | [], _, acc, acc', hacc => by simpa [Expr.mapList, Expr.evalFold] using hacc
  | e :: es, h, acc, acc', hacc => by
    have he := alike_aux u e (fun p hp => h p (by simp [Expr.leavesList, hp]))
    have hr := alike_fold_aux u es (fun p hp => h p (by simp [Expr.leavesList, hp]))
      (acc.merge ((e.map Prod.fst).eval u).1) (acc'.merge ((e.map Prod.snd).eval u).1)
      (Dom.cls_merge_congr hacc he.1)
    simp only [Expr.mapList, Expr.evalFold, List.map_append]
    exact ⟨hr.1, by rw [he.2, hr.2, check_alike u hacc he.1]⟩
end

/-- T2. Take any expression and, leaf by leaf, any two labellings that agree up to
`Explicit id` ↔ `Inferred id` (same class). Then the carried domain has the same class and the
diagnostics are the same in number, order and classes — in particular one labelling is flagged
iff the other is. -/
theorem explicit_inferred_alike (u : Bool) (e : Expr (Dom × Dom))
    (h : ∀ p ∈ e.leaves, p.1.cls = p.2.cls) :
    ((e.map Prod.fst).eval u).1.cls = ((e.map Prod.snd).eval u).1.cls ∧
    ((e.map Prod.fst).eval u).2.map clsReport = ((e.map Prod.snd).eval u).2.map clsReport :=
  alike_aux u e h

theorem explicit_inferred_same_verdict (u : Bool) (e : Expr (Dom × Dom))
    (h : ∀ p ∈ e.leaves, p.1.cls = p.2.cls) :
    ((e.map Prod.fst).eval u).2 = [] ↔ ((e.map Prod.snd).eval u).2 = [] := by
  have := congrArg List.length (alike_aux u e h).2
  simp only [List.length_map] at this
  rw [← List.length_eq_zero_iff, ← List.length_eq_zero_iff, this]

example : ∀ p ∈ (Expr.binary (.leaf (Dom.explicit 3, Dom.inferred 3)) (.leaf (Dom.implicit, Dom.implicit))).leaves,
    p.1.cls = p.2.cls := by decide

/-! ### Assignments -/

/-- T3. The statement-level checks of one assignment (`check_assign_clock_domain`) report iff the
statement is not inside `unsafe (cdc)` and the (inferred) destination domain is incompatible with
the RHS domain, the always_ff clock, or some enclosing condition. -/
theorem assign_exact (u : Bool) (dst rhs : Dom) (ffClock : Option Dom) (conds : List Dom) :
    assignChecks u dst rhs ffClock conds ≠ [] ↔
      (u = false ∧ (dst.compatible rhs = false ∨ (∃ c, ffClock = some c ∧ dst.compatible c = false)
        ∨ ∃ c ∈ conds, dst.compatible c = false)) := by
  unfold assignChecks
  cases u
  · simp only [Ne, List.append_eq_nil_iff, check_eq_nil, Bool.false_eq_true, false_or,
      List.flatten_eq_nil_iff, List.mem_map, forall_exists_index, and_imp,
      forall_apply_eq_imp_iff₂, true_and]
    cases ffClock with
    | none =>
      simp only [clockCheck, and_true, reduceCtorEq, false_and, exists_false, false_or]
      constructor
      · intro h
        cases hr : dst.compatible rhs
        · exact Or.inl rfl
        · right
          apply Classical.byContradiction
          intro hn
          apply h
          refine ⟨hr, fun c hc => ?_⟩
          cases hcc : dst.compatible c
          · exact absurd ⟨c, hc, hcc⟩ hn
          · rfl
      · rintro (h | ⟨c, hc, h⟩) ⟨h1, h2⟩
        · rw [h1] at h; cases h
        · rw [h2 c hc] at h; cases h
    | some k =>
      simp only [clockCheck, check_eq_nil, Bool.false_eq_true, false_or, Option.some.injEq, exists_eq_left']
      constructor
      · intro h
        cases hr : dst.compatible rhs
        · exact Or.inl rfl
        · cases hk : dst.compatible k
          · exact Or.inr (Or.inl rfl)
          · right; right
            apply Classical.byContradiction
            intro hn
            apply h
            refine ⟨⟨hr, hk⟩, fun c hc => ?_⟩
            cases hcc : dst.compatible c
            · exact absurd ⟨c, hc, hcc⟩ hn
            · rfl
      · rintro (h | h | ⟨c, hc, h⟩) ⟨⟨h1, h2⟩, h3⟩
        · rw [h1] at h; cases h
        · rw [h2] at h; cases h
        · rw [h3 c hc] at h; cases h
  · cases ffClock <;> simp [check, clockCheck]

example : assignChecks false (.explicit 2) (.explicit 1) none [] ≠ [] := by decide

theorem assignChecks_eq_nil (dst rhs : Dom) (ffClock : Option Dom) (conds : List Dom) :
    assignChecks false dst rhs ffClock conds = [] ↔
      (dst.compatible rhs = true ∧ (∀ c, ffClock = some c → dst.compatible c = true)
        ∧ ∀ c ∈ conds, dst.compatible c = true) := by
  have h := assign_exact false dst rhs ffClock conds
  constructor
  · intro hnil
    have hn : ¬ (false = false ∧ (dst.compatible rhs = false ∨ (∃ c, ffClock = some c ∧ dst.compatible c = false)
        ∨ ∃ c ∈ conds, dst.compatible c = false)) := fun hx => (h.mpr hx) hnil
    refine ⟨?_, ?_, ?_⟩
    · cases hr : dst.compatible rhs
      · exact absurd ⟨rfl, Or.inl hr⟩ hn
      · rfl
    · intro c hc
      cases hr : dst.compatible c
      · exact absurd ⟨rfl, Or.inr (Or.inl ⟨c, hc, hr⟩)⟩ hn
      · rfl
    · intro c hc
      cases hr : dst.compatible c
      · exact absurd ⟨rfl, Or.inr (Or.inr ⟨c, hc, hr⟩)⟩ hn
      · rfl
  · rintro ⟨h1, h2, h3⟩
    apply Classical.byContradiction
    intro hne
    rcases (h.mp hne).2 with hx | ⟨c, hc, hx⟩ | ⟨c, hc, hx⟩
    · rw [h1] at hx; cases hx
    · rw [h2 c hc] at hx; cases hx
    · rw [h3 c hc] at hx; cases hx

/-- T3'. A whole assignment outside `unsafe (cdc)` whose destination carries a domain after
inference (`≠ None`): the RHS-internal checks and the statement-level checks together stay silent
**iff** the destination, every RHS leaf, the always_ff clock and every enclosing condition are
pairwise compatible. So every crossing into such a destination is rejected and nothing else is. -/
theorem assign_crossing_exact (dst : Dom) (rhs : Expr Dom) (ffClock : Option Dom) (conds : List Dom)
    (hd : (assignEval false dst rhs ffClock conds).1 ≠ Dom.none) :
    (assignEval false dst rhs ffClock conds).2 = [] ↔
      Consistent ((assignEval false dst rhs ffClock conds).1 :: (rhs.leaves ++ (ffClock.toList ++ conds))) := by
  simp only [assignEval] at hd ⊢
  generalize hd' : inferDst dst (rhs.eval false).1 ffClock = d at hd ⊢
  rw [List.append_eq_nil_iff, exact_aux rhs, assignChecks_eq_nil, consistent_cons, consistent_append,
    root_aux]
  -- two domains both compatible with the non-None `d` are compatible with each other
  have trans : ∀ a b : Dom, d.compatible a = true → d.compatible b = true → a.compatible b = true := by
    intro a b ha hb
    rw [Dom.compatible_iff_cls] at ha hb ⊢
    have hdn : d.cls ≠ Option.none := fun h => hd (Dom.cls_eq_none.mp h)
    rcases ha with ha | ha | ha
    · exact absurd ha hdn
    · exact Or.inl ha
    · rcases hb with hb | hb | hb
      · exact absurd hb hdn
      · exact Or.inr (Or.inl hb)
      · exact Or.inr (Or.inr (ha.symm.trans hb))
  constructor
  · rintro ⟨hr, h1, h2, h3⟩
    have h1' : ∀ a ∈ rhs.leaves, d.compatible a = true := by
      rw [mergeAll_compatible_right hr, List.all_eq_true] at h1; exact h1
    have hrest : ∀ c ∈ ffClock.toList ++ conds, d.compatible c = true := by
      intro c hc
      rcases List.mem_append.mp hc with hc | hc
      · exact h2 c (by simpa [Option.mem_toList] using hc)
      · exact h3 c hc
    refine ⟨?_, hr, ?_, ?_⟩
    · intro b hb
      rcases List.mem_append.mp hb with hb | hb
      · exact h1' b hb
      · exact hrest b hb
    · intro a ha b hb; exact trans a b (hrest a ha) (hrest b hb)
    · intro a ha b hb; exact trans a b (h1' a ha) (hrest b hb)
  · rintro ⟨hall, hr, _, _⟩
    refine ⟨hr, ?_, ?_, ?_⟩
    · rw [mergeAll_compatible_right hr, List.all_eq_true]
      intro a ha; exact hall a (List.mem_append.mpr (Or.inl ha))
    · intro c hc
      exact hall c (List.mem_append.mpr (Or.inr (List.mem_append.mpr (Or.inl (by simp [hc])))))
    · intro c hc
      exact hall c (List.mem_append.mpr (Or.inr (List.mem_append.mpr (Or.inr hc))))

example : (assignEval false .implicit (.binary (.leaf (.explicit 1)) (.leaf .none)) none []).1 ≠ Dom.none := by
  decide

theorem inferDst_alike {d d' r r' : Dom} {k k' : Option Dom} (hd : d.cls = d'.cls) (hr : r.cls = r'.cls)
    (hk : k.map Dom.cls = k'.map Dom.cls) : (inferDst d r k).cls = (inferDst d' r' k').cls := by
  unfold inferDst
  have hi : d = Dom.implicit ↔ d' = Dom.implicit := by
    rw [← Dom.cls_implicit, ← Dom.cls_implicit, hd]
  by_cases h : d = Dom.implicit
  · have h' := hi.mp h
    simp only [h, h', if_true]
    have : inferredId r k = inferredId r' k' := by
      unfold inferredId
      cases k <;> cases k' <;> simp at hk
      · exact Dom.domainId_of_cls hr
      · exact Dom.domainId_of_cls hk
    rw [this]
  · have h' : ¬ d' = Dom.implicit := fun x => h (hi.mpr x)
    simp [h, h', hd]

/-- T2 for whole assignments: relabelling destination, RHS leaves, clock and conditions within
their classes changes neither the class of the inferred destination nor the diagnostics' count,
order and classes. -/
theorem assign_alike (u : Bool) (d d' : Dom) (e : Expr (Dom × Dom)) (k k' : Option Dom)
    (cs : List (Dom × Dom))
    (hd : d.cls = d'.cls) (he : ∀ p ∈ e.leaves, p.1.cls = p.2.cls)
    (hk : k.map Dom.cls = k'.map Dom.cls) (hc : ∀ p ∈ cs, p.1.cls = p.2.cls) :
    (assignEval u d (e.map Prod.fst) k (cs.map Prod.fst)).1.cls
      = (assignEval u d' (e.map Prod.snd) k' (cs.map Prod.snd)).1.cls ∧
    (assignEval u d (e.map Prod.fst) k (cs.map Prod.fst)).2.map clsReport
      = (assignEval u d' (e.map Prod.snd) k' (cs.map Prod.snd)).2.map clsReport := by
  have hx := alike_aux u e he
  have hi := inferDst_alike hd hx.1 hk
  refine ⟨hi, ?_⟩
  simp only [assignEval, assignChecks, List.map_append]
  generalize inferDst d ((e.map Prod.fst).eval u).1 k = D at hi ⊢
  generalize inferDst d' ((e.map Prod.snd).eval u).1 k' = D' at hi ⊢
  have h2 : (clockCheck u D k).map clsReport = (clockCheck u D' k').map clsReport := by
    cases k <;> cases k' <;> simp at hk
    · rfl
    · exact check_alike u hi hk
  have h3 : ((cs.map Prod.fst).map (fun c => check u D c)).flatten.map clsReport
      = ((cs.map Prod.snd).map (fun c => check u D' c)).flatten.map clsReport := by
    induction cs with
    | nil => rfl
    | cons p cs ih =>
      simp only [List.map_cons, List.flatten_cons, List.map_append]
      rw [check_alike u hi (hc p (by simp)), ih (fun q hq => hc q (by simp [hq]))]
  rw [hx.2, check_alike u hi hx.1, h2, h3]

/-! ### Single-domain designs and all-unsafe designs are clean -/

/-- A domain is in the single class `K` or is `None`. -/
def InClass (K : Option Nat) (d : Dom) : Prop := d.cls = Option.none ∨ d.cls = some K

theorem InClass.compatible {K : Option Nat} {a b : Dom} (ha : InClass K a) (hb : InClass K b) :
    a.compatible b = true := by
  rw [Dom.compatible_iff_cls]
  rcases ha with ha | ha
  · exact Or.inl ha
  · rcases hb with hb | hb
    · exact Or.inr (Or.inl hb)
    · exact Or.inr (Or.inr (ha.trans hb.symm))

theorem InClass.merge {K : Option Nat} {a b : Dom} (ha : InClass K a) (hb : InClass K b) :
    InClass K (a.merge b) := by
  unfold InClass at *
  rw [Dom.cls_merge]
  rcases ha with ha | ha <;> rcases hb with hb | hb <;> simp [ha, hb]

theorem check_inClass {K : Option Nat} (u : Bool) {a b : Dom} (ha : InClass K a) (hb : InClass K b) :
    check u a b = [] := check_eq_nil.mpr (Or.inr (ha.compatible hb))

mutual
theorem clean_aux (K : Option Nat) (u : Bool) : ∀ e : Expr Dom, (∀ d ∈ e.leaves, InClass K d) →
    InClass K (e.eval u).1 ∧ (e.eval u).2 = []
  | .leaf d, h => by simpa [Expr.eval] using h d (by simp [Expr.leaves])
  | .unary x, h => by simpa [Expr.eval] using clean_aux K u x (by simpa [Expr.leaves] using h)
  | .binary x y, h => by
    have hx := clean_aux K u x (fun p hp => h p (by simp [Expr.leaves, hp]))
    have hy := clean_aux K u y (fun p hp => h p (by simp [Expr.leaves, hp]))
    simp only [Expr.eval]
    exact ⟨hx.1.merge hy.1, by simp [hx.2, hy.2, check_inClass u hx.1 hy.1]⟩
  | .ternary c t e, h => by
    have hc := clean_aux K u c (fun p hp => h p (by simp [Expr.leaves, hp]))
    have ht := clean_aux K u t (fun p hp => h p (by simp [Expr.leaves, hp]))
    have he := clean_aux K u e (fun p hp => h p (by simp [Expr.leaves, hp]))
    simp only [Expr.eval]
    exact ⟨(hc.1.merge ht.1).merge he.1, by
      simp [hc.2, ht.2, he.2, check_inClass u hc.1 ht.1, check_inClass u hc.1 he.1,
        check_inClass u ht.1 he.1]⟩
  | .nary i es, h => by
    simp only [Expr.eval]
    exact clean_fold_aux K u es (fun p hp => h p (by simp [Expr.leaves, hp])) i
      (h i (by simp [Expr.leaves]))
theorem clean_fold_aux (K : Option Nat) (u : Bool) : ∀ es : List (Expr Dom),
    (∀ d ∈ Expr.leavesList es, InClass K d) → ∀ acc : Dom, InClass K acc →
    InClass K (Expr.evalFold u acc es).1 ∧ (Expr.evalFold u acc es).2 = []
  | [], _, acc, hacc => by simpa [Expr.evalFold] using hacc
  | e :: es, h, acc, hacc => by
    have he := clean_aux K u e (fun p hp => h p (by simp [Expr.leavesList, hp]))
    have hr := clean_fold_aux K u es (fun p hp => h p (by simp [Expr.leavesList, hp]))
      (acc.merge (e.eval u).1) (hacc.merge he.1)
    simp only [Expr.evalFold]
    exact ⟨hr.1, by simp [he.2, hr.2, check_inClass u hacc he.1]⟩
end

/-- T4 (expressions). If all leaves lie in one clock domain (one class, constants allowed),
no check site reports — inside or outside `unsafe (cdc)`. -/
theorem single_domain_clean (K : Option Nat) (u : Bool) (e : Expr Dom)
    (h : ∀ d ∈ e.leaves, InClass K d) : (e.eval u).2 = [] :=
  (clean_aux K u e h).2

example : ∀ d ∈ (Expr.binary (.leaf (Dom.explicit 3)) (.nary (Dom.inferred 3) [.leaf Dom.none])).leaves,
    InClass (some 3) d := by
  simp [Expr.leaves, Expr.leavesList, InClass, Dom.cls]

/-- Environments whose every variable lies in class `K` (or has no domain). For `K = some id`
this excludes `Implicit` variables; for `K = none` it is the all-implicit design. -/
def EnvIn (K : Option Nat) (env : Env) : Prop := ∀ d ∈ env, InClass K d

theorem EnvIn.get {K : Option Nat} {env : Env} (h : EnvIn K env) (v : Nat) : InClass K (env.get v) := by
  unfold Env.get
  rw [List.getD_eq_getElem?_getD]
  cases hv : env[v]? with
  | none => simp [InClass, Dom.cls]
  | some d => exact h d (List.mem_of_getElem? hv)

theorem EnvIn.resolve {K : Option Nat} {env : Env} (h : EnvIn K env) (l : Leaf) :
    InClass K (env.resolve l) := by
  cases l with
  | const => simp [Env.resolve, InClass, Dom.cls]
  | var v => exact h.get v

theorem EnvIn.set {K : Option Nat} {env : Env} (h : EnvIn K env) (v : Nat) {d : Dom} (hd : InClass K d) :
    EnvIn K (env.set v d) := by
  intro x hx
  rcases List.mem_or_eq_of_mem_set hx with hx | hx
  · exact h x hx
  · exact hx ▸ hd

mutual
theorem leaves_map {α β : Type} (f : α → β) : ∀ e : Expr α, (e.map f).leaves = e.leaves.map f
  | .leaf a => by simp [Expr.map, Expr.leaves]
  | .unary x => by simpa [Expr.map, Expr.leaves] using leaves_map f x
  | .binary x y => by simp [Expr.map, Expr.leaves, leaves_map f x, leaves_map f y]
  | .ternary c t e => by simp [Expr.map, Expr.leaves, leaves_map f c, leaves_map f t, leaves_map f e]
  | .nary i es => by simp [Expr.map, Expr.leaves, leavesList_map f es]
theorem leavesList_map {α β : Type} (f : α → β) :
    ∀ es : List (Expr α), Expr.leavesList (Expr.mapList f es) = (Expr.leavesList es).map f
  | [] => by simp [Expr.mapList, Expr.leavesList]
  | e :: es => by simp [Expr.mapList, Expr.leavesList, leaves_map f e, leavesList_map f es]
end

theorem resolved_inClass {K : Option Nat} {env : Env} (h : EnvIn K env) (e : Expr Leaf) :
    ∀ d ∈ (e.map env.resolve).leaves, InClass K d := by
  intro d hd
  rw [leaves_map] at hd
  obtain ⟨l, _, rfl⟩ := List.mem_map.mp hd
  exact h.resolve l

theorem inferDst_inClass {K : Option Nat} {d r : Dom} {k : Option Dom} (hd : InClass K d)
    (hr : InClass K r) (hk : ∀ c, k = some c → InClass K c) : InClass K (inferDst d r k) := by
  unfold inferDst
  by_cases h : d = Dom.implicit
  · simp only [h, if_true]
    -- the destination is Implicit, so the class is the implicit one and nothing carries an id
    have hK : K = Option.none := by
      subst h
      rcases hd with hd | hd <;> simp [Dom.cls] at hd
      exact hd.symm
    subst hK
    have noId : ∀ x : Dom, InClass Option.none x → x.domainId = Option.none := by
      intro x hx
      cases x <;> simp [InClass, Dom.cls] at hx <;> rfl
    have : inferredId r k = Option.none := by
      unfold inferredId
      cases k with
      | none => exact noId r hr
      | some c => exact noId c (hk c rfl)
    rw [this]
    exact h ▸ hd
  · simpa [h] using hd

/-- State of a walk that has reported nothing and whose environment is single-class. -/
def WalkIn (K : Option Nat) (w : Walk) : Prop := EnvIn K w.env ∧ w.out = []

theorem WalkIn.emit_nil {K : Option Nat} {w : Walk} (h : WalkIn K w) : WalkIn K (w.emit []) := by
  simpa [WalkIn, Walk.emit] using h

theorem WalkIn.emitHeader_nil {K : Option Nat} {w : Walk} {c r : Nat} (h : WalkIn K w) :
    WalkIn K (w.emitHeader c r []) := by
  unfold Walk.emitHeader
  split
  · exact h
  · simpa [WalkIn] using h

theorem conds_snoc {K : Option Nat} {conds : List Dom} {d : Dom} (hc : ∀ c ∈ conds, InClass K c)
    (hd : InClass K d) : ∀ c ∈ conds ++ [d], InClass K c := by
  intro x hx
  rcases List.mem_append.mp hx with hx | hx
  · exact hc x hx
  · simp only [List.mem_singleton] at hx; exact hx ▸ hd

mutual
theorem stmt_clean (K : Option Nat) (u : Bool) (ff : Option Dom) (hff : ∀ c, ff = some c → InClass K c) :
    ∀ (s : Stmt) (conds : List Dom) (w : Walk), (∀ c ∈ conds, InClass K c) → WalkIn K w →
      WalkIn K (stmtWalk u ff conds w s)
  | .assign dst rhs, conds, w, hc, hw => by
    have hr := clean_aux K u (rhs.map w.env.resolve) (resolved_inClass hw.1 rhs)
    have hd := inferDst_inClass (hw.1.get dst) hr.1 hff
    have hchk : assignChecks u (inferDst (w.env.get dst) ((rhs.map w.env.resolve).eval u).1 ff)
        ((rhs.map w.env.resolve).eval u).1 ff conds = [] := by
      unfold assignChecks
      simp only [List.append_eq_nil_iff, List.flatten_eq_nil_iff, List.mem_map, forall_exists_index,
        and_imp, forall_apply_eq_imp_iff₂]
      refine ⟨⟨check_inClass u hd hr.1, ?_⟩, fun c hcm => check_inClass u hd (hc c hcm)⟩
      cases ff with
      | none => rfl
      | some c => exact check_inClass u hd (hff c rfl)
    simp only [stmtWalk, assignEval, hr.2, hchk, List.append_nil]
    exact ⟨hw.1.set dst hd, by simpa [Walk.emit] using hw.2⟩
  | .ifs c thn elifs els, conds, w, hc, hw => by
    have hr := clean_aux K u (c.map w.env.resolve) (resolved_inClass hw.1 c)
    simp only [stmtWalk, hr.2]
    have h1 := block_clean K u ff hff thn _ _ (conds_snoc hc hr.1) hw.emit_nil
    have h2 := arms_clean K u ff hff elifs conds _ hc h1
    exact block_clean K u ff hff els _ _ (conds_snoc hc hr.1) h2
  | .case c arms, conds, w, hc, hw => by
    have hr := clean_aux K u (c.map w.env.resolve) (resolved_inClass hw.1 c)
    simp only [stmtWalk, hr.2]
    exact blocks_clean K u ff hff arms _ _ (conds_snoc hc hr.1) hw.emit_nil
  | .switch arms dflt, conds, w, hc, hw => by
    simp only [stmtWalk]
    exact block_clean K u ff hff dflt conds _ hc (arms_clean K u ff hff arms conds w hc hw)
theorem block_clean (K : Option Nat) (u : Bool) (ff : Option Dom) (hff : ∀ c, ff = some c → InClass K c) :
    ∀ (b : Block) (conds : List Dom) (w : Walk), (∀ c ∈ conds, InClass K c) → WalkIn K w →
      WalkIn K (blockWalk u ff conds w b)
  | .nil, _, _, _, hw => by simpa [blockWalk] using hw
  | .cons s b, conds, w, hc, hw => by
    simp only [blockWalk]
    exact block_clean K u ff hff b conds _ hc (stmt_clean K u ff hff s conds w hc hw)
theorem arms_clean (K : Option Nat) (u : Bool) (ff : Option Dom) (hff : ∀ c, ff = some c → InClass K c) :
    ∀ (a : Arms) (conds : List Dom) (w : Walk), (∀ c ∈ conds, InClass K c) → WalkIn K w →
      WalkIn K (armsWalk u ff conds w a)
  | .nil, _, _, _, hw => by simpa [armsWalk] using hw
  | .cons c b r, conds, w, hc, hw => by
    have hr := clean_aux K u (c.map w.env.resolve) (resolved_inClass hw.1 c)
    simp only [armsWalk, hr.2]
    exact arms_clean K u ff hff r conds _ hc
      (block_clean K u ff hff b _ _ (conds_snoc hc hr.1) hw.emit_nil)
theorem blocks_clean (K : Option Nat) (u : Bool) (ff : Option Dom) (hff : ∀ c, ff = some c → InClass K c) :
    ∀ (bs : Blocks) (conds : List Dom) (w : Walk), (∀ c ∈ conds, InClass K c) → WalkIn K w →
      WalkIn K (blocksWalk u ff conds w bs)
  | .nil, _, _, _, hw => by simpa [blocksWalk] using hw
  | .cons b r, conds, w, hc, hw => by
    simp only [blocksWalk]
    exact blocks_clean K u ff hff r conds _ hc (block_clean K u ff hff b conds w hc hw)
end

theorem inst_clean (K : Option Nat) (u : Bool) : ∀ (conns : List (Nat × Expr Leaf)) (w : Walk)
    (table : InstTable), (∀ p ∈ table, InClass K p.2) → WalkIn K w → WalkIn K (instWalk u w table conns)
  | [], _, _, _, hw => by simpa [instWalk] using hw
  | (k, e) :: rest, w, table, ht, hw => by
    have hr := clean_aux K u (e.map w.env.resolve) (resolved_inClass hw.1 e)
    simp only [instWalk, hr.2]
    cases hl : table.lookup k with
    | none =>
      simp only
      exact inst_clean K u rest _ _ (by
        intro p hp
        rcases List.mem_cons.mp hp with hp | hp
        · exact hp ▸ hr.1
        · exact ht p hp) hw.emit_nil
    | some x =>
      have hx : InClass K x := by
        have hm : (k, x) ∈ table := by
          clear ht
          induction table with
          | nil => simp [List.lookup] at hl
          | cons p t ih =>
            obtain ⟨pk, pd⟩ := p
            simp only [List.lookup] at hl
            split at hl
            · rename_i heq
              have : k = pk := by simpa using heq
              cases hl; simp [this]
            · exact List.mem_cons_of_mem _ (ih hl)
        exact ht _ hm
      simp only [check_inClass u hx hr.1, List.append_nil]
      exact inst_clean K u rest _ _ ht hw.emit_nil

theorem item_clean (K : Option Nat) (w : Walk) (hw : WalkIn K w) (it : Item) : WalkIn K (itemWalk w it) := by
  cases it with
  | assign u dst rhs =>
    exact stmt_clean K u Option.none (by simp) _ [] w (by simp) hw
  | comb u body => exact block_clean K u Option.none (by simp) body [] w (by simp) hw
  | ff u clock reset body =>
    simp only [itemWalk]
    have hclk := hw.1.get clock
    apply block_clean K u (some (w.env.get clock)) (by intro c hc; cases hc; exact hclk) body [] _ (by simp)
    cases reset with
    | none => exact hw
    | some r =>
      simp only [check_inClass u hclk (hw.1.get r)]
      exact hw.emitHeader_nil
  | inst u conns => exact inst_clean K u conns w [] (by simp) hw

/-- T4 (designs). A design all of whose variables lie in one clock domain (class `K`; variables
without a domain allowed) gets no clock-domain diagnostic, whatever its statements are
(assign / always_comb / always_ff, if / else-if / case / switch at any depth, instances). -/
theorem single_domain_design_clean (K : Option Nat) (env : Env) (items : List Item) (h : EnvIn K env) :
    designReports env items = [] := by
  have : ∀ (its : List Item) (w : Walk), WalkIn K w → WalkIn K (its.foldl itemWalk w) := by
    intro its
    induction its with
    | nil => intro w hw; exact hw
    | cons it its ih => intro w hw; exact ih _ (item_clean K w hw it)
  have h' := this items { env := env, next := 1, out := [] } ⟨h, rfl⟩
  have h'' : WalkIn K (defaultCheck (items.foldl itemWalk { env := env, next := 1, out := [] }) items) := by
    unfold defaultCheck
    split
    · rw [check_inClass false (h'.1.get _) (h'.1.get _)]
      exact h'.emitHeader_nil
    · exact h'
  simp [designReports, designWalk, h''.2]

example : EnvIn (some 7) [Dom.explicit 7, Dom.inferred 7, Dom.none] := by simp [EnvIn, InClass, Dom.cls]
example : EnvIn Option.none [Dom.implicit, Dom.none] := by simp [EnvIn, InClass, Dom.cls]

/-! ### Everything inside `unsafe (cdc)` is accepted -/


theorem unsafe_check_clean (a b : Dom) : check true a b = [] := by simp [check]

mutual
theorem unsafe_expr_aux : ∀ e : Expr Dom, (e.eval true).2 = []
  | .leaf _ => by simp [Expr.eval]
  | .unary x => by simpa [Expr.eval] using unsafe_expr_aux x
  | .binary x y => by simp [Expr.eval, unsafe_expr_aux x, unsafe_expr_aux y, unsafe_check_clean]
  | .ternary c t e => by
    simp [Expr.eval, unsafe_expr_aux c, unsafe_expr_aux t, unsafe_expr_aux e, unsafe_check_clean]
  | .nary i es => by simpa [Expr.eval] using unsafe_fold_aux es i
theorem unsafe_fold_aux : ∀ (es : List (Expr Dom)) (acc : Dom), (Expr.evalFold true acc es).2 = []
  | [], _ => by simp [Expr.evalFold]
  | e :: es, acc => by
    simp [Expr.evalFold, unsafe_expr_aux e, unsafe_fold_aux es, unsafe_check_clean]
end

theorem unsafe_assign_clean (d : Dom) (e : Expr Dom) (k : Option Dom) (cs : List Dom) :
    (assignEval true d e k cs).2 = [] := by
  simp only [assignEval, assignChecks, unsafe_expr_aux, unsafe_check_clean, List.nil_append,
    List.append_eq_nil_iff, List.flatten_eq_nil_iff, List.mem_map, forall_exists_index, and_imp,
    forall_apply_eq_imp_iff₂, implies_true, and_true]
  cases k <;> simp [clockCheck, unsafe_check_clean]

mutual
theorem stmt_unsafe (ff : Option Dom) : ∀ (s : Stmt) (conds : List Dom) (w : Walk), w.out = [] →
    (stmtWalk true ff conds w s).out = []
  | .assign dst rhs, conds, w, hw => by
    simp [stmtWalk, Walk.emit, unsafe_assign_clean, hw]
  | .ifs c thn elifs els, conds, w, hw => by
    simp only [stmtWalk, unsafe_expr_aux]
    exact block_unsafe ff els _ _ (arms_unsafe ff elifs _ _ (block_unsafe ff thn _ _ (by simpa [Walk.emit] using hw)))
  | .case c arms, conds, w, hw => by
    simp only [stmtWalk, unsafe_expr_aux]
    exact blocks_unsafe ff arms _ _ (by simpa [Walk.emit] using hw)
  | .switch arms dflt, conds, w, hw => by
    simp only [stmtWalk]
    exact block_unsafe ff dflt _ _ (arms_unsafe ff arms _ _ hw)
theorem block_unsafe (ff : Option Dom) : ∀ (b : Block) (conds : List Dom) (w : Walk), w.out = [] →
    (blockWalk true ff conds w b).out = []
  | .nil, _, _, hw => by simpa [blockWalk] using hw
  | .cons s b, conds, w, hw => by
    simp only [blockWalk]
    exact block_unsafe ff b conds _ (stmt_unsafe ff s conds w hw)
theorem arms_unsafe (ff : Option Dom) : ∀ (a : Arms) (conds : List Dom) (w : Walk), w.out = [] →
    (armsWalk true ff conds w a).out = []
  | .nil, _, _, hw => by simpa [armsWalk] using hw
  | .cons c b r, conds, w, hw => by
    simp only [armsWalk, unsafe_expr_aux]
    exact arms_unsafe ff r conds _ (block_unsafe ff b _ _ (by simpa [Walk.emit] using hw))
theorem blocks_unsafe (ff : Option Dom) : ∀ (bs : Blocks) (conds : List Dom) (w : Walk), w.out = [] →
    (blocksWalk true ff conds w bs).out = []
  | .nil, _, _, hw => by simpa [blocksWalk] using hw
  | .cons b r, conds, w, hw => by
    simp only [blocksWalk]
    exact blocks_unsafe ff r conds _ (block_unsafe ff b conds w hw)
end

theorem inst_unsafe : ∀ (conns : List (Nat × Expr Leaf)) (w : Walk) (table : InstTable), w.out = [] →
    (instWalk true w table conns).out = []
  | [], _, _, hw => by simpa [instWalk] using hw
  | (k, e) :: rest, w, table, hw => by
    simp only [instWalk, unsafe_expr_aux, unsafe_check_clean, List.append_nil]
    cases table.lookup k <;> exact inst_unsafe rest _ _ (by simpa [Walk.emit] using hw)

/-- A design whose every item sits inside `unsafe (cdc)` gets no clock-domain diagnostic from its
items; the only check left is the module-level default-clock / default-reset one (`hd`: it is
silent, e.g. because the module does not have exactly one clock and one reset port). -/
theorem unsafe_design_clean (env : Env) (items : List Item) (h : ∀ it ∈ items, it.isUnsafe = true)
    (hd : ∀ w, w.out = [] → (defaultCheck w items).out = []) :
    designReports env items = [] := by
  have step : ∀ (it : Item) (w : Walk), it.isUnsafe = true → w.out = [] → (itemWalk w it).out = [] := by
    intro it w hu hw
    cases it with
    | assign u dst rhs => cases hu; exact stmt_unsafe _ _ _ _ hw
    | comb u body => cases hu; exact block_unsafe _ _ _ _ hw
    | ff u clock reset body =>
      cases hu
      simp only [itemWalk]
      apply block_unsafe
      cases reset with
      | none => exact hw
      | some r =>
        simp only [unsafe_check_clean, Walk.emitHeader]
        split <;> simp [hw]
    | inst u conns => cases hu; exact inst_unsafe _ _ _ hw
  have : ∀ (its : List Item) (w : Walk), (∀ it ∈ its, it.isUnsafe = true) → w.out = [] →
      (its.foldl itemWalk w).out = [] := by
    intro its
    induction its with
    | nil => intro w _ hw; exact hw
    | cons it its ih =>
      intro w hall hw
      exact ih _ (fun x hx => hall x (by simp [hx])) (step it w (hall it (by simp)) hw)
  have h' := this items { env := env, next := 1, out := [] } h rfl
  simp [designReports, designWalk, hd _ h']

end VerylModel.ClockDomain
