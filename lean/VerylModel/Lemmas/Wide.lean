import VerylModel.Core.Wide
/-! Helper lemmas for C18 (part A): carry chains, schoolbook product, word comparison. Core Lean only. -/
namespace VerylModel.Wide

/-- every word of the buffer is a `u64`. -/
def Words (a : List Nat) : Prop := ∀ x ∈ a, x < W

instance (a : List Nat) : Decidable (Words a) := by unfold Words; infer_instance

theorem W_eq : W = 2 ^ 64 := by decide
theorem W_pos : 0 < W := by decide
theorem one_lt_W : 1 < W := by decide

theorem Words.nil : Words [] := fun _ h => by simp at h
theorem Words.head {x : Nat} {a : List Nat} (h : Words (x :: a)) : x < W := h x (by simp)
theorem Words.tail {x : Nat} {a : List Nat} (h : Words (x :: a)) : Words a := fun y hy => h y (by simp [hy])
theorem Words.cons {x : Nat} {a : List Nat} (hx : x < W) (h : Words a) : Words (x :: a) := by
  intro y hy
  cases hy with
  | head => exact hx
  | tail _ h' => exact h y h'

@[simp] theorem rd_nil (i : Nat) : rd [] i = 0 := by simp [rd]
@[simp] theorem rd_cons_zero (x : Nat) (a : List Nat) : rd (x :: a) 0 = x := by simp [rd]
@[simp] theorem rd_cons_succ (x : Nat) (a : List Nat) (i : Nat) : rd (x :: a) (i + 1) = rd a i := by simp [rd]

theorem rd_lt {a : List Nat} (h : Words a) (i : Nat) : rd a i < W := by
  unfold rd
  rw [List.getD_eq_getElem?_getD]
  cases hi : a[i]? with
  | none => simpa using W_pos
  | some x => simpa using h x (List.mem_of_getElem? hi)

theorem toNat_lt {a : List Nat} (h : Words a) : toNat a < W ^ a.length := by
  induction a with
  | nil => simp [toNat]
  | cons x a ih =>
    have hx := h.head
    have := ih h.tail
    simp only [toNat, List.length_cons, Nat.pow_succ]
    have : W * toNat a + W ≤ W * W ^ a.length := by
      rw [← Nat.mul_succ]; exact Nat.mul_le_mul_left _ this
    rw [Nat.mul_comm (W ^ a.length) W]
    omega

theorem mod_mul_step (W n r q : Nat) (hW : 0 < W) (hr : r < W) :
    (r + W * q) % (W * n) = r + W * (q % n) := by
  rw [Nat.mod_mul]
  have h1 : (r + W * q) % W = r := by
    rw [Nat.add_mul_mod_self_left]; exact Nat.mod_eq_of_lt hr
  have h2 : (r + W * q) / W = q := by
    rw [Nat.add_mul_div_left _ _ hW, Nat.div_eq_of_lt hr]; simp
  rw [h1, h2]

-- ── add ─────────────────────────────────────────────────────────────────────────────────────

theorem addLoop_length (n : Nat) (a b : List Nat) (c : Nat) : (addLoop n a b c).length = n := by
  induction n generalizing a b c with
  | zero => simp [addLoop]
  | succ n ih => simp [addLoop, ih]

theorem addLoop_words (n : Nat) (a b : List Nat) (c : Nat) : Words (addLoop n a b c) := by
  induction n generalizing a b c with
  | zero => simpa [addLoop] using Words.nil
  | succ n ih =>
    simp only [addLoop]
    exact Words.cons (Nat.mod_lt _ W_pos) (ih _ _ _)

theorem addLoop_spec (n : Nat) (a b : List Nat) (c : Nat) (hla : a.length = n) (hlb : b.length = n)
    (ha : Words a) (hb : Words b) (hc : c ≤ 1) :
    toNat (addLoop n a b c) = (toNat a + toNat b + c) % W ^ n := by
  induction n generalizing a b c with
  | zero =>
    have : a = [] := List.length_eq_zero_iff.mp hla
    have : b = [] := List.length_eq_zero_iff.mp hlb
    subst_vars
    simp [addLoop, toNat, Nat.mod_one]
  | succ n ih =>
    match a, b, hla, hlb with
    | x :: a, y :: b, hla, hlb =>
      simp only [List.length_cons, Nat.add_right_cancel_iff] at hla hlb
      have hx := ha.head
      have hy := hb.head
      have hW0 := W_pos
      have hc' : (x + y) / W + ((x + y) % W + c) / W ≤ 1 := by
        have e1 := Nat.div_add_mod (x + y) W
        have e2 := Nat.div_add_mod ((x + y) % W + c) W
        have m2 := Nat.mod_lt ((x + y) % W + c) hW0
        have tot : x + y + c = W * ((x + y) / W + ((x + y) % W + c) / W) + ((x + y) % W + c) % W := by
          rw [Nat.mul_add]; omega
        have : W * ((x + y) / W + ((x + y) % W + c) / W) < W * 2 := by omega
        exact Nat.le_of_lt_succ (Nat.lt_of_mul_lt_mul_left this)
      simp only [addLoop, toNat, rd_cons_zero, List.tail_cons]
      rw [ih a b _ hla hlb ha.tail hb.tail hc']
      have tot : x + W * toNat a + (y + W * toNat b) + c
          = ((x + y) % W + c) % W + W * (toNat a + toNat b + ((x + y) / W + ((x + y) % W + c) / W)) := by
        have e1 := Nat.div_add_mod (x + y) W
        have e2 := Nat.div_add_mod ((x + y) % W + c) W
        simp only [Nat.mul_add]
        omega
      rw [tot, Nat.pow_succ, Nat.mul_comm (W ^ n) W]
      exact (mod_mul_step W _ _ _ hW0 (Nat.mod_lt _ hW0)).symm

-- ── sub ─────────────────────────────────────────────────────────────────────────────────────

theorem subLoop_length (n : Nat) (a b : List Nat) (c : Nat) : (subLoop n a b c).length = n := by
  induction n generalizing a b c with
  | zero => simp [subLoop]
  | succ n ih => simp [subLoop, ih]

theorem subLoop_words (n : Nat) (a b : List Nat) (c : Nat) : Words (subLoop n a b c) := by
  induction n generalizing a b c with
  | zero => simpa [subLoop] using Words.nil
  | succ n ih =>
    simp only [subLoop]
    exact Words.cons (Nat.mod_lt _ W_pos) (ih _ _ _)

/-- `a - b - borrow` modulo `W^n`, written without truncated subtraction going negative. -/
theorem subLoop_spec (n : Nat) (a b : List Nat) (c : Nat) (hla : a.length = n) (hlb : b.length = n)
    (ha : Words a) (hb : Words b) (hc : c ≤ 1) :
    toNat (subLoop n a b c) = (toNat a + W ^ n - toNat b - c) % W ^ n := by
  induction n generalizing a b c with
  | zero =>
    have : a = [] := List.length_eq_zero_iff.mp hla
    have : b = [] := List.length_eq_zero_iff.mp hlb
    subst_vars
    simp [subLoop, toNat, Nat.mod_one]
  | succ n ih =>
    match a, b, hla, hlb with
    | x :: a, y :: b, hla, hlb =>
      simp only [List.length_cons, Nat.add_right_cancel_iff] at hla hlb
      have hx := ha.head
      have hy := hb.head
      have hW0 := W_pos
      have hA := toNat_lt ha.tail
      have hB := toNat_lt hb.tail
      rw [hla] at hA
      rw [hlb] at hB
      simp only [subLoop, toNat, rd_cons_zero, List.tail_cons]
      -- the two wrapped differences and the new borrow
      have hd1 : (x + W - y) % W = if x < y then x + W - y else x - y := by
        split
        · exact Nat.mod_eq_of_lt (by omega)
        · rw [show x + W - y = (x - y) + W by omega, Nat.add_mod_right]; exact Nat.mod_eq_of_lt (by omega)
      have hbor : (if x < y then 1 else 0) + (if (x + W - y) % W < c then 1 else 0) ≤ 1 := by
        rw [hd1]; split <;> split <;> omega
      rw [ih a b _ hla hlb ha.tail hb.tail hbor]
      -- name the pieces
      generalize hP : W ^ n = P at *
      generalize hTa : toNat a = A at *
      generalize hTb : toNat b = B at *
      have hP0 : 0 < P := by omega
      rw [Nat.pow_succ, hP, Nat.mul_comm P W]
      -- the low word
      have hlow : ((x + W - y) % W + W - c) % W < W := Nat.mod_lt _ hW0
      have key : x + W * A + W * P - (y + W * B) - c
          = ((x + W - y) % W + W - c) % W
            + W * (A + P - B - ((if x < y then 1 else 0) + (if (x + W - y) % W < c then 1 else 0))) := by
        rw [hd1]
        have hBP : W * B + W ≤ W * P := by rw [← Nat.mul_succ]; exact Nat.mul_le_mul_left _ hB
        by_cases hxy : x < y
        · simp only [hxy, if_true]
          have h0 : ¬ (x + W - y < c) := by omega
          simp only [h0, if_false, Nat.add_zero]
          have : (x + W - y + W - c) % W = x + W - y - c := by
            rw [show x + W - y + W - c = (x + W - y - c) + W by omega, Nat.add_mod_right]
            exact Nat.mod_eq_of_lt (by omega)
          rw [this, Nat.mul_sub, Nat.mul_sub, Nat.mul_add, Nat.mul_one]
          omega
        · simp only [hxy, if_false, Nat.zero_add]
          by_cases hc2 : x - y < c
          · simp only [hc2, if_true]
            have : (x - y + W - c) % W = x - y + W - c := Nat.mod_eq_of_lt (by omega)
            rw [this, Nat.mul_sub, Nat.mul_sub, Nat.mul_add, Nat.mul_one]
            omega
          · simp only [hc2, if_false]
            have : (x - y + W - c) % W = x - y - c := by
              rw [show x - y + W - c = (x - y - c) + W by omega, Nat.add_mod_right]
              exact Nat.mod_eq_of_lt (by omega)
            rw [this, Nat.mul_sub, Nat.mul_sub, Nat.mul_add]
            omega
      rw [key]
      exact (mod_mul_step W _ _ _ hW0 hlow).symm

end VerylModel.Wide

namespace VerylModel.Wide

-- ── negate ──────────────────────────────────────────────────────────────────────────────────

theorem negLoop_length (n : Nat) (a : List Nat) (c : Nat) : (negLoop n a c).length = n := by
  induction n generalizing a c with
  | zero => simp [negLoop]
  | succ n ih => simp [negLoop, ih]

theorem negLoop_words (n : Nat) (a : List Nat) (c : Nat) : Words (negLoop n a c) := by
  induction n generalizing a c with
  | zero => simpa [negLoop] using Words.nil
  | succ n ih =>
    simp only [negLoop]
    exact Words.cons (Nat.mod_lt _ W_pos) (ih _ _)

/-- `!a + carry` modulo `W^n`. -/
theorem negLoop_spec (n : Nat) (a : List Nat) (c : Nat) (hla : a.length = n) (ha : Words a) (hc : c ≤ 1) :
    toNat (negLoop n a c) = (W ^ n - 1 - toNat a + c) % W ^ n := by
  induction n generalizing a c with
  | zero =>
    have : a = [] := List.length_eq_zero_iff.mp hla
    subst_vars
    simp [negLoop, toNat, Nat.mod_one]
  | succ n ih =>
    match a, hla with
    | x :: a, hla =>
      simp only [List.length_cons, Nat.add_right_cancel_iff] at hla
      have hx := ha.head
      have hW0 := W_pos
      have hA := toNat_lt ha.tail
      rw [hla] at hA
      simp only [negLoop, toNat, rd_cons_zero, List.tail_cons, notW]
      have hc' : (W - 1 - x + c) / W ≤ 1 := by
        have : W - 1 - x + c < W * 2 := by omega
        exact Nat.le_of_lt_succ (Nat.div_lt_of_lt_mul this)
      rw [ih a _ hla ha.tail hc']
      generalize hP : W ^ n = P at *
      generalize hTa : toNat a = A at *
      rw [Nat.pow_succ, hP, Nat.mul_comm P W]
      have e1 := Nat.div_add_mod (W - 1 - x + c) W
      have key : W * P - 1 - (x + W * A) + c
          = (W - 1 - x + c) % W + W * (P - 1 - A + (W - 1 - x + c) / W) := by
        rw [Nat.mul_add, Nat.mul_sub, Nat.mul_sub, Nat.mul_one]
        have : W * A + W ≤ W * P := by rw [← Nat.mul_succ]; exact Nat.mul_le_mul_left _ hA
        omega
      rw [key]
      exact (mod_mul_step W _ _ _ hW0 (Nat.mod_lt _ hW0)).symm

-- ── mul ─────────────────────────────────────────────────────────────────────────────────────

theorem mulRow_length (ai : Nat) (d b : List Nat) (c : Nat) : (mulRow ai d b c).length = d.length := by
  induction d generalizing b c with
  | nil => simp [mulRow]
  | cons dk d ih => simp [mulRow, ih]

theorem mulRow_words (ai : Nat) (d b : List Nat) (c : Nat) : Words (mulRow ai d b c) := by
  induction d generalizing b c with
  | nil => simpa [mulRow] using Words.nil
  | cons dk d ih =>
    simp only [mulRow]
    exact Words.cons (Nat.mod_lt _ W_pos) (ih _ _)

theorem toNat_rd_tail (b : List Nat) : toNat b = rd b 0 + W * toNat b.tail := by
  cases b <;> simp [toNat]

theorem mulRow_spec (ai : Nat) (d b : List Nat) (c : Nat) :
    toNat (mulRow ai d b c) = (toNat d + ai * toNat b + c) % W ^ d.length := by
  induction d generalizing b c with
  | nil => simp [mulRow, toNat, Nat.mod_one]
  | cons dk d ih =>
    simp only [mulRow, toNat, List.length_cons]
    rw [ih, Nat.pow_succ, Nat.mul_comm (W ^ d.length) W]
    have e1 := Nat.div_add_mod (ai * rd b 0 + dk + c) W
    have key : dk + W * toNat d + ai * toNat b + c
        = (ai * rd b 0 + dk + c) % W + W * (toNat d + ai * toNat b.tail + (ai * rd b 0 + dk + c) / W) := by
      rw [toNat_rd_tail b, Nat.mul_add, Nat.mul_add, Nat.mul_add, Nat.mul_left_comm ai W]
      omega
    rw [key]
    exact (mod_mul_step W _ _ _ W_pos (Nat.mod_lt _ W_pos)).symm

/-- no `u128` overflow in the inner loop of `wide_mul`. -/
theorem mulRow_prod_lt (ai bj dk carry : Nat) (h1 : ai < W) (h2 : bj < W) (h3 : dk < W) (h4 : carry < W) :
    ai * bj + dk + carry < W * W ∧ (ai * bj + dk + carry) / W < W := by
  have : ai * bj ≤ (W - 1) * (W - 1) := Nat.mul_le_mul (by omega) (by omega)
  have hW : (W - 1) * (W - 1) + (W - 1) + (W - 1) < W * W := by decide
  have h : ai * bj + dk + carry < W * W := by omega
  exact ⟨h, Nat.div_lt_of_lt_mul h⟩

theorem replicate_zero_words (n : Nat) : Words (List.replicate n 0) := fun x hx => by
  rw [List.mem_replicate] at hx; rw [hx.2]; exact W_pos

theorem toNat_replicate_zero (n : Nat) : toNat (List.replicate n 0) = 0 := by
  induction n with
  | zero => rfl
  | succ n ih => simp [List.replicate_succ, toNat, ih]

theorem mulOuter_length (k : Nat) (a b d : List Nat) (h : d.length = k) : (mulOuter k a b d).length = k := by
  induction k generalizing a d with
  | zero => simpa [mulOuter] using h
  | succ k ih =>
    match d, h with
    | dk :: d, h =>
      simp only [List.length_cons, Nat.add_right_cancel_iff] at h
      simp only [mulOuter]
      split
      · rename_i heq
        have := congrArg List.length heq
        split at this <;> simp [mulRow_length] at this
      · rename_i x rest heq
        have hl := congrArg List.length heq
        have : rest.length = k := by
          split at hl <;> simp [mulRow_length] at hl <;> omega
        simp [ih _ _ this]

theorem mulOuter_words (k : Nat) (a b d : List Nat) (h : Words d) : Words (mulOuter k a b d) := by
  induction k generalizing a d with
  | zero => simpa [mulOuter] using h
  | succ k ih =>
    simp only [mulOuter]
    split
    · exact Words.nil
    · rename_i x rest heq
      have hw : Words (x :: rest) := by
        rw [← heq]; split
        · exact h
        · exact mulRow_words _ _ _ _
      exact Words.cons hw.head (ih _ _ hw.tail)

theorem mulOuter_spec (k : Nat) (a b d : List Nat) (hla : a.length = k) (hld : d.length = k) (hd : Words d) :
    toNat (mulOuter k a b d) = (toNat d + toNat a * toNat b) % W ^ k := by
  induction k generalizing a d with
  | zero =>
    have : d = [] := List.length_eq_zero_iff.mp hld
    subst this
    simp [mulOuter, toNat, Nat.mod_one]
  | succ k ih =>
    match a, hla, d, hld, hd with
    | x :: a, hla, dk :: d, hld, hd =>
      simp only [List.length_cons, Nat.add_right_cancel_iff] at hla
      simp only [mulOuter, rd_cons_zero, List.tail_cons]
      generalize hrow : (if x = 0 then dk :: d else mulRow x (dk :: d) b 0) = row
      have hrowN : toNat row = (toNat (dk :: d) + x * toNat b) % W ^ (k + 1) := by
        rw [← hrow]; split
        · rename_i hx0
          have hlt := toNat_lt hd
          rw [hld] at hlt
          rw [hx0, Nat.zero_mul, Nat.add_zero, Nat.mod_eq_of_lt hlt]
        · rw [mulRow_spec, hld, Nat.add_zero]
      have hrowL : row.length = k + 1 := by
        rw [← hrow]; split
        · exact hld
        · rw [mulRow_length]; exact hld
      have hrowW : Words row := by
        rw [← hrow]; split
        · exact hd
        · exact mulRow_words _ _ _ _
      match row, hrowL, hrowW, hrowN with
      | y :: rest, hrowL, hrowW, hrowN =>
        simp only [List.length_cons, Nat.add_right_cancel_iff] at hrowL
        simp only [toNat]
        rw [ih a rest hla hrowL hrowW.tail]
        have hy := hrowW.head
        simp only [toNat] at hrowN
        rw [Nat.pow_succ, Nat.mul_comm (W ^ k) W] at hrowN ⊢
        rw [← mod_mul_step W _ _ _ W_pos hy]
        have e : y + W * (toNat rest + toNat a * toNat b) = (y + W * toNat rest) + W * toNat a * toNat b := by
          rw [Nat.mul_add, Nat.mul_assoc]; omega
        rw [e, hrowN, Nat.mod_add_mod]
        congr 1
        rw [Nat.add_mul, Nat.mul_assoc]
        omega

end VerylModel.Wide

namespace VerylModel.Wide

-- ── comparisons ─────────────────────────────────────────────────────────────────────────────

/-- three-way comparison as returned by `wide_ucmp`/`wide_scmp`. -/
def cmpNat (x y : Nat) : Int := if x < y then -1 else if x > y then 1 else 0
def cmpInt (x y : Int) : Int := if x < y then -1 else if x > y then 1 else 0

theorem Words.take {a : List Nat} (h : Words a) (i : Nat) : Words (a.take i) :=
  fun x hx => h x (List.mem_of_mem_take hx)

theorem toNat_take_succ (a : List Nat) (i : Nat) :
    toNat (a.take (i + 1)) = toNat (a.take i) + W ^ i * rd a i := by
  induction a generalizing i with
  | nil => simp [toNat]
  | cons x a ih =>
    cases i with
    | zero => simp [toNat]
    | succ i =>
      simp only [List.take_succ_cons, toNat, rd_cons_succ]
      rw [ih i, Nat.mul_add, Nat.pow_succ, Nat.mul_comm (W ^ i) W, Nat.mul_assoc]
      omega

theorem toNat_take_lt {a : List Nat} (h : Words a) (i : Nat) : toNat (a.take i) < W ^ i := by
  have h1 := toNat_lt (h.take i)
  have h2 : (a.take i).length ≤ i := by simp [List.length_take]; omega
  exact Nat.lt_of_lt_of_le h1 (Nat.pow_le_pow_right W_pos h2)

theorem ucmp_take (i : Nat) (a b : List Nat) (ha : Words a) (hb : Words b) :
    ucmp i a b = cmpNat (toNat (a.take i)) (toNat (b.take i)) := by
  induction i with
  | zero => simp [ucmp, cmpNat, toNat]
  | succ i ih =>
    have hA := toNat_take_lt ha i
    have hB := toNat_take_lt hb i
    simp only [ucmp]
    rw [toNat_take_succ a i, toNat_take_succ b i, ih]
    generalize toNat (a.take i) = A at *
    generalize toNat (b.take i) = B at *
    generalize W ^ i = P at *
    generalize rd a i = x
    generalize rd b i = y
    by_cases h1 : x < y
    · have : P * (x + 1) ≤ P * y := Nat.mul_le_mul_left _ h1
      rw [Nat.mul_add, Nat.mul_one] at this
      simp only [h1, if_true, cmpNat]
      have : A + P * x < B + P * y := by omega
      simp [this]
    · by_cases h2 : x > y
      · have : P * (y + 1) ≤ P * x := Nat.mul_le_mul_left _ h2
        rw [Nat.mul_add, Nat.mul_one] at this
        have h3 : ¬ (A + P * x < B + P * y) := by omega
        have h4 : A + P * x > B + P * y := by omega
        simp only [h1, h2, if_true, if_false, cmpNat, h3, h4]
      · have : x = y := by omega
        subst this
        simp only [h1, if_false, cmpNat]
        by_cases h5 : A < B
        · have : A + P * x < B + P * x := by omega
          simp [h5, this]
        · by_cases h6 : A > B
          · have h7 : ¬ (A + P * x < B + P * x) := by omega
            have h8 : A + P * x > B + P * x := by omega
            simp only [h5, h6, if_true, if_false, h7, h8]
          · have : A = B := by omega
            subst this
            simp

theorem cons_inj {x y A B : Nat} (hx : x < W) (hy : y < W) : x + W * A = y + W * B ↔ x = y ∧ A = B := by
  constructor
  · intro h
    have h1 : (x + W * A) % W = (y + W * B) % W := by rw [h]
    rw [Nat.add_mul_mod_self_left, Nat.add_mul_mod_self_left, Nat.mod_eq_of_lt hx, Nat.mod_eq_of_lt hy] at h1
    subst h1
    exact ⟨rfl, Nat.eq_of_mul_eq_mul_left W_pos (by omega)⟩
  · rintro ⟨rfl, rfl⟩; rfl

theorem eqLoop_spec (n : Nat) (a b : List Nat) (hla : a.length = n) (hlb : b.length = n)
    (ha : Words a) (hb : Words b) : eqLoop n a b = if toNat a = toNat b then 1 else 0 := by
  induction n generalizing a b with
  | zero =>
    have : a = [] := List.length_eq_zero_iff.mp hla
    have : b = [] := List.length_eq_zero_iff.mp hlb
    subst_vars
    simp [eqLoop]
  | succ n ih =>
    match a, b, hla, hlb with
    | x :: a, y :: b, hla, hlb =>
      simp only [List.length_cons, Nat.add_right_cancel_iff] at hla hlb
      simp only [eqLoop, rd_cons_zero, List.tail_cons, toNat, cons_inj ha.head hb.head]
      rw [ih a b hla hlb ha.tail hb.tail]
      by_cases h : x = y <;> simp [h]

theorem neLoop_spec (n : Nat) (a b : List Nat) (hla : a.length = n) (hlb : b.length = n)
    (ha : Words a) (hb : Words b) : neLoop n a b = if toNat a = toNat b then 0 else 1 := by
  induction n generalizing a b with
  | zero =>
    have : a = [] := List.length_eq_zero_iff.mp hla
    have : b = [] := List.length_eq_zero_iff.mp hlb
    subst_vars
    simp [neLoop]
  | succ n ih =>
    match a, b, hla, hlb with
    | x :: a, y :: b, hla, hlb =>
      simp only [List.length_cons, Nat.add_right_cancel_iff] at hla hlb
      simp only [neLoop, rd_cons_zero, List.tail_cons, toNat, cons_inj ha.head hb.head]
      rw [ih a b hla hlb ha.tail hb.tail]
      by_cases h : x = y <;> simp [h]

theorem isNonzeroLoop_spec (n : Nat) (a : List Nat) (hla : a.length = n) :
    isNonzeroLoop n a = if toNat a = 0 then 0 else 1 := by
  induction n generalizing a with
  | zero =>
    have : a = [] := List.length_eq_zero_iff.mp hla
    subst_vars
    simp [isNonzeroLoop, toNat]
  | succ n ih =>
    match a, hla with
    | x :: a, hla =>
      simp only [List.length_cons, Nat.add_right_cancel_iff] at hla
      simp only [isNonzeroLoop, rd_cons_zero, List.tail_cons, toNat]
      rw [ih a hla]
      have hW := W_pos
      by_cases h : x = 0
      · subst h
        have : (W * toNat a = 0) ↔ toNat a = 0 := by
          rw [Nat.mul_eq_zero]; omega
        simp [this]
      · have : ¬ (x + W * toNat a = 0) := by omega
        simp [h]

end VerylModel.Wide
