import VerylModel.Core.Sim
import VerylModel.Lemmas.SimFrame
/-!
Nonblocking assignment (C02, T2): the `always_ff` bodies are evaluated on the pre-edge state
into an event list, which is committed afterwards. The committed value of a variable depends only
on the old value of that variable and on the events that target it, in their order; hence blocks
with disjoint targets commute, and a block of full assignments to distinct registers is a
simultaneous update.
-/
namespace VerylModel.Sim

variable {D : Dom}

def hits (x : Nat) : Ev D.Val → Bool
  | .write l _ => l.var == x
  | .poisonVar y => y == x
  | .disp _ _ => false
  | .dispDc => false

theorem commit_nil (σ : Store D) : commit D [] σ = σ := rfl

theorem commit_cons (e : Ev D.Val) (evs : List (Ev D.Val)) (σ : Store D) :
    commit D (e :: evs) σ = commit D evs (applyEv D σ e) := rfl

theorem commit_append (e1 e2 : List (Ev D.Val)) (σ : Store D) : commit D (e1 ++ e2) σ = commit D e2 (commit D e1 σ) := by
  simp [commit, List.foldl_append]

theorem applyEv_miss (σ : Store D) (e : Ev D.Val) (x : Nat) (h : hits x e = false) : applyEv D σ e x = σ x := by
  cases e with
  | write l v =>
    simp only [hits, beq_eq_false_iff_ne, ne_eq] at h
    exact upd_other _ _ _ _ (fun hx => h hx.symm)
  | poisonVar y =>
    simp only [hits, beq_eq_false_iff_ne, ne_eq] at h
    exact upd_other _ _ _ _ (fun hx => h hx.symm)
  | disp _ _ => rfl
  | dispDc => rfl

/-- the new value of `x` depends only on the old value of `x` -/
theorem applyEv_pt (σ σ' : Store D) (e : Ev D.Val) (x : Nat) (h : σ x = σ' x) : applyEv D σ e x = applyEv D σ' e x := by
  cases e with
  | write l v =>
    simp only [applyEv, upd, updF]
    split
    · rename_i hx
      subst hx
      rw [h]
    · exact h
  | poisonVar y =>
    simp only [applyEv, upd, updF]
    split
    · rfl
    · exact h
  | disp _ _ => exact h
  | dispDc => exact h

theorem commit_pt : ∀ (evs : List (Ev D.Val)) (σ σ' : Store D) (x : Nat), σ x = σ' x → commit D evs σ x = commit D evs σ' x
  | [], _, _, _, h => h
  | e :: evs, σ, σ', x, h => by
    rw [commit_cons, commit_cons]
    exact commit_pt evs _ _ x (applyEv_pt σ σ' e x h)

/-- T2 (locality): the committed value of `x` is determined by the events that target `x` -/
theorem commit_local : ∀ (evs : List (Ev D.Val)) (σ : Store D) (x : Nat),
    commit D evs σ x = commit D (evs.filter (hits x)) σ x
  | [], _, _ => rfl
  | e :: evs, σ, x => by
    rw [commit_cons]
    cases h : hits x e with
    | true =>
      rw [List.filter_cons_of_pos (by simpa using h), commit_cons]
      exact commit_local evs _ x
    | false =>
      rw [List.filter_cons_of_neg (by simp [h]), commit_local evs _ x]
      exact commit_pt _ _ _ x (applyEv_miss σ e x h)

theorem commit_eq_of_filter {evs evs' : List (Ev D.Val)} (h : ∀ x, evs.filter (hits x) = evs'.filter (hits x)) (σ : Store D) :
    commit D evs σ = commit D evs' σ := by
  apply Store.ext'
  intro x
  rw [commit_local evs σ x, commit_local evs' σ x, h x]

/-- the variables an event list may write -/
def evTargets : List (Ev D.Val) → List Nat
  | [] => []
  | .write l _ :: evs => l.var :: evTargets evs
  | .poisonVar y :: evs => y :: evTargets evs
  | _ :: evs => evTargets evs

theorem filter_hits_nil : ∀ (evs : List (Ev D.Val)) (x : Nat), x ∉ evTargets evs → evs.filter (hits x) = []
  | [], _, _ => rfl
  | .write l v :: evs, x, h => by
    simp only [evTargets, List.mem_cons, not_or] at h
    rw [List.filter_cons_of_neg (by simp [hits]; exact fun e => h.1 e.symm)]
    exact filter_hits_nil evs x h.2
  | .poisonVar y :: evs, x, h => by
    simp only [evTargets, List.mem_cons, not_or] at h
    rw [List.filter_cons_of_neg (by simp [hits]; exact fun e => h.1 e.symm)]
    exact filter_hits_nil evs x h.2
  | .disp _ _ :: evs, x, h => by
    rw [List.filter_cons_of_neg (by simp [hits])]
    exact filter_hits_nil evs x h
  | .dispDc :: evs, x, h => by
    rw [List.filter_cons_of_neg (by simp [hits])]
    exact filter_hits_nil evs x h

theorem commit_frame (evs : List (Ev D.Val)) (σ : Store D) (x : Nat) (h : x ∉ evTargets evs) : commit D evs σ x = σ x := by
  rw [commit_local, filter_hits_nil evs x h]
  rfl

/-- T2 (commutation): event lists with disjoint targets can be committed in either order -/
theorem commit_comm (e1 e2 : List (Ev D.Val)) (hd : ∀ x, x ∈ evTargets e1 → x ∉ evTargets e2) (σ : Store D) :
    commit D (e1 ++ e2) σ = commit D (e2 ++ e1) σ := by
  apply commit_eq_of_filter
  intro x
  rw [List.filter_append, List.filter_append]
  by_cases h1 : x ∈ evTargets e1
  · rw [filter_hits_nil e2 x (hd x h1)]
    simp
  · rw [filter_hits_nil e1 x h1]
    simp

/-! ### the events of a statement list target only its syntactic targets -/

theorem evTargets_append (a b : List (Ev D.Val)) : evTargets (a ++ b) = evTargets a ++ evTargets b := by
  induction a with
  | nil => rfl
  | cons e a ih =>
    cases e <;> simp [evTargets, ih]

theorem evTargets_poisonEvs (xs : List Nat) (d : Bool) : evTargets (poisonEvs D xs d) = xs := by
  simp only [poisonEvs, evTargets_append]
  have h1 : ∀ (ys : List Nat), evTargets (ys.map (Ev.poisonVar (V := D.Val))) = ys := by
    intro ys
    induction ys with
    | nil => rfl
    | cons y ys ih => simp [evTargets, ih]
  rw [h1]
  cases d <;> simp [evTargets]

mutual
theorem nbS_targets (D : Dom) (x : Nat) : ∀ (s : Stmt) (σ : Store D), x ∈ evTargets (nbS D s σ) → x ∈ targetsS s
  | .set l r, σ, h => by
    simpa [nbS, evTargets, targetsS] using h
  | .setDyn v vw w idx r, σ, h => by
    simp only [nbS] at h
    simp only [targetsS, List.mem_singleton]
    cases hi : D.idx σ.get idx with
    | none =>
      simp only [hi, evTargets, List.mem_singleton, List.mem_cons, List.not_mem_nil, or_false] at h
      exact h
    | some i =>
      simp only [hi] at h
      split at h
      · simpa [evTargets, dynLhs] using h
      · simp [evTargets] at h
  | .ite c t e, σ, h => by
    simp only [nbS] at h
    simp only [targetsS, List.mem_append]
    cases hc : D.cond σ c with
    | none =>
      simp only [hc, evTargets_poisonEvs, List.mem_append] at h
      exact h
    | some b =>
      cases b with
      | true =>
        simp only [hc] at h
        exact Or.inl (nbSs_targets D x t σ h)
      | false =>
        simp only [hc] at h
        exact Or.inr (nbSs_targets D x e σ h)
  | .case sel arms d, σ, h => by
    simp only [nbS] at h
    simp only [targetsS, List.mem_append]
    cases ha : nbArms D sel (targetsSs d) (hasDispSs d) arms σ with
    | none =>
      simp only [ha] at h
      exact Or.inr (nbSs_targets D x d σ h)
    | some evs =>
      simp only [ha] at h
      cases nbArms_targets D x sel (targetsSs d) (hasDispSs d) arms σ evs ha h with
      | inl h1 => exact Or.inl h1
      | inr h1 => exact Or.inr h1
  | .disp _ _, σ, h => by
    simp [nbS, evTargets] at h
theorem nbSs_targets (D : Dom) (x : Nat) : ∀ (ss : Stmts) (σ : Store D), x ∈ evTargets (nbSs D ss σ) → x ∈ targetsSs ss
  | .nil, σ, h => by simp [nbSs, evTargets] at h
  | .cons s ss, σ, h => by
    simp only [nbSs, evTargets_append, List.mem_append] at h
    simp only [targetsSs, List.mem_append]
    cases h with
    | inl h => exact Or.inl (nbS_targets D x s σ h)
    | inr h => exact Or.inr (nbSs_targets D x ss σ h)
theorem nbArms_targets (D : Dom) (x : Nat) (sel : Rhs) (dt : List Nat) (dd : Bool) : ∀ (arms : Arms) (σ : Store D)
    (evs : List (Ev D.Val)), nbArms D sel dt dd arms σ = some evs → x ∈ evTargets evs → x ∈ targetsArms arms ∨ x ∈ dt
  | .nil, σ, evs, h, _ => by simp [nbArms] at h
  | .cons lw lv b rest, σ, evs, h, hx => by
    simp only [nbArms] at h
    simp only [targetsArms, List.mem_append]
    cases hc : D.arm σ sel lw lv with
    | none =>
      simp only [hc] at h
      cases h
      simp only [evTargets_poisonEvs, List.mem_append] at hx
      cases hx with
      | inl h1 =>
        cases h1 with
        | inl h2 => exact Or.inl (Or.inl h2)
        | inr h2 => exact Or.inl (Or.inr h2)
      | inr h1 => exact Or.inr h1
    | some c =>
      cases c with
      | true =>
        simp only [hc] at h
        cases h
        exact Or.inl (Or.inl (nbSs_targets D x b σ hx))
      | false =>
        simp only [hc] at h
        cases nbArms_targets D x sel dt dd rest σ evs h hx with
        | inl h1 => exact Or.inl (Or.inr h1)
        | inr h1 => exact Or.inr h1
end

end VerylModel.Sim
