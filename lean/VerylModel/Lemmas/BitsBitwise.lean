import VerylModel.Lemmas.BitsArith
set_option linter.unusedSimpArgs false
set_option linter.unusedVariables false
/-! Bitwise arms of M-Bits: per-bit truth tables vs. the mask formulas of op.rs. -/
namespace VerylModel.Bits
open Ref Impl

theorem testBit_ge_false {v : V4} {w i : Nat} (hv : v.wf) (hw : v.width = w) (hi : ¬ i < w) :
    v.payload.testBit i = false ∧ v.mask.testBit i = false := by
  have : w ≤ i := Nat.le_of_not_lt hi
  exact ⟨testBit_of_lt hv.1 (hw ▸ this), testBit_of_lt hv.2 (hw ▸ this)⟩

/-- Generic per-bit argument for a bitwise arm of the BigUint representation. -/
theorem bitwise_big_eq_ref (f : B4 → B4 → B4) (a b : V4) (w : Nat) (P M : Nat)
    (ha : a.wf) (hb : b.wf) (hwa : a.width = w) (hwb : b.width = w)
    (hP : ∀ i, P.testBit i = (decide (i < w) &&
        (f (B4.ofPM (a.payload.testBit i) (a.mask.testBit i)) (B4.ofPM (b.payload.testBit i) (b.mask.testBit i))).p))
    (hM : ∀ i, M.testBit i = (decide (i < w) &&
        (f (B4.ofPM (a.payload.testBit i) (a.mask.testBit i)) (B4.ofPM (b.payload.testBit i) (b.mask.testBit i))).m)) :
    (⟨w, P, M⟩ : BV) = bitwiseBV f a.toBV b.toBV w := by
  unfold bitwiseBV
  apply BV.eq_ofFn (w := w) rfl
  · apply lt_of_testBit_false; intro i hi; rw [hP]; simp; omega
  · apply lt_of_testBit_false; intro i hi; rw [hM]; simp; omega
  · intro i hi
    simp [hP, hM, hi, BV.bit, bitOf, V4.toBV]

theorem Big.andOp_eq_ref (a b : V4) (w : Nat) (ha : a.wf) (hb : b.wf) (hwa : a.width = w)
    (hwb : b.width = w) : (Big.andOp a b w).toBV = bitwiseBV B4.and a.toBV b.toBV w := by
  unfold Big.andOp
  apply bitwise_big_eq_ref B4.and a b w _ _ ha hb hwa hwb
  · intro i
    simp only [Nat.testBit_and, Nat.testBit_or, Nat.testBit_xor, Big.genMask, testBit_mask]
    by_cases h : i < w
    · simp only [h, decide_true, Bool.true_and]
      cases a.payload.testBit i <;> cases a.mask.testBit i <;> cases b.payload.testBit i <;>
        cases b.mask.testBit i <;> rfl
    · simp [h, testBit_ge_false ha hwa h]
  · intro i
    simp only [Nat.testBit_and, Nat.testBit_or, Nat.testBit_xor, Big.genMask, testBit_mask]
    by_cases h : i < w
    · simp only [h, decide_true, Bool.true_and]
      cases a.payload.testBit i <;> cases a.mask.testBit i <;> cases b.payload.testBit i <;>
        cases b.mask.testBit i <;> rfl
    · simp [h, testBit_ge_false ha hwa h, testBit_ge_false hb hwb h]

theorem Big.orOp_eq_ref (a b : V4) (w : Nat) (ha : a.wf) (hb : b.wf) (hwa : a.width = w)
    (hwb : b.width = w) : (Big.orOp a b w).toBV = bitwiseBV B4.or a.toBV b.toBV w := by
  unfold Big.orOp
  apply bitwise_big_eq_ref B4.or a b w _ _ ha hb hwa hwb
  · intro i
    simp only [Nat.testBit_and, Nat.testBit_or, Nat.testBit_xor, Big.genMask, testBit_mask]
    by_cases h : i < w
    · simp only [h, decide_true, Bool.true_and]
      cases a.payload.testBit i <;> cases a.mask.testBit i <;> cases b.payload.testBit i <;>
        cases b.mask.testBit i <;> rfl
    · simp [h, testBit_ge_false ha hwa h, testBit_ge_false hb hwb h]
  · intro i
    simp only [Nat.testBit_and, Nat.testBit_or, Nat.testBit_xor, Big.genMask, testBit_mask]
    by_cases h : i < w
    · simp only [h, decide_true, Bool.true_and]
      cases a.payload.testBit i <;> cases a.mask.testBit i <;> cases b.payload.testBit i <;>
        cases b.mask.testBit i <;> rfl
    · simp [h, testBit_ge_false ha hwa h, testBit_ge_false hb hwb h]

theorem Big.xorOp_eq_ref (a b : V4) (w : Nat) (ha : a.wf) (hb : b.wf) (hwa : a.width = w)
    (hwb : b.width = w) : (Big.xorOp a b w).toBV = bitwiseBV B4.xor a.toBV b.toBV w := by
  unfold Big.xorOp
  apply bitwise_big_eq_ref B4.xor a b w _ _ ha hb hwa hwb
  · intro i
    simp only [Nat.testBit_and, Nat.testBit_or, Nat.testBit_xor, Big.genMask, testBit_mask]
    by_cases h : i < w
    · simp only [h, decide_true, Bool.true_and]
      cases a.payload.testBit i <;> cases a.mask.testBit i <;> cases b.payload.testBit i <;>
        cases b.mask.testBit i <;> rfl
    · simp [h, testBit_ge_false ha hwa h, testBit_ge_false hb hwb h]
  · intro i
    simp only [Nat.testBit_and, Nat.testBit_or, Nat.testBit_xor, Big.genMask, testBit_mask]
    by_cases h : i < w
    · simp only [h, decide_true, Bool.true_and]
      cases a.payload.testBit i <;> cases a.mask.testBit i <;> cases b.payload.testBit i <;>
        cases b.mask.testBit i <;> rfl
    · simp [h, testBit_ge_false ha hwa h, testBit_ge_false hb hwb h]

theorem Big.xnorOp_eq_ref (a b : V4) (w : Nat) (ha : a.wf) (hb : b.wf) (hwa : a.width = w)
    (hwb : b.width = w) : (Big.xnorOp a b w).toBV = bitwiseBV B4.xnor a.toBV b.toBV w := by
  unfold Big.xnorOp
  apply bitwise_big_eq_ref B4.xnor a b w _ _ ha hb hwa hwb
  · intro i
    simp only [Nat.testBit_and, Nat.testBit_or, Nat.testBit_xor, Big.genMask, testBit_mask]
    by_cases h : i < w
    · simp only [h, decide_true, Bool.true_and]
      cases a.payload.testBit i <;> cases a.mask.testBit i <;> cases b.payload.testBit i <;>
        cases b.mask.testBit i <;> rfl
    · simp [h, testBit_ge_false ha hwa h, testBit_ge_false hb hwb h]
  · intro i
    simp only [Nat.testBit_and, Nat.testBit_or, Nat.testBit_xor, Big.genMask, testBit_mask]
    by_cases h : i < w
    · simp only [h, decide_true, Bool.true_and]
      cases a.payload.testBit i <;> cases a.mask.testBit i <;> cases b.payload.testBit i <;>
        cases b.mask.testBit i <;> rfl
    · simp [h, testBit_ge_false ha hwa h, testBit_ge_false hb hwb h]

theorem Big.bitNot_eq_ref (a : V4) (w : Nat) (ha : a.wf) (hwa : a.width = w) :
    (Big.bitNot a w).toBV = bnotBV a.toBV w := by
  unfold Big.bitNot bnotBV
  apply BV.eq_ofFn (w := w) hwa
  · apply lt_of_testBit_false; intro i hi
    have h : ¬ i < w := by omega
    simp [V4.toBV, Nat.testBit_and, Nat.testBit_xor, Big.genMask, testBit_mask, h, testBit_ge_false ha hwa h]
  · rw [← hwa]; exact ha.2
  · intro i hi
    simp only [V4.toBV, Nat.testBit_and, Nat.testBit_xor, Big.genMask, testBit_mask, BV.bit, bitOf, hi,
      decide_true]
    cases a.payload.testBit i <;> cases a.mask.testBit i <;> exact ⟨rfl, rfl⟩

/-! ### U64 arms agree with the BigUint arms -/

theorem testBit_not64 (a i : Nat) : (U64.not a).testBit i = (a.testBit i ^^ decide (i < 64)) := by
  unfold U64.not U64.MAX
  rw [Nat.testBit_xor, testBit_mask]

theorem U64.andOp_eq_big (a b : V4) (w : Nat) (h64 : w ≤ 64) (ha : a.wf) (hb : b.wf)
    (hwa : a.width = w) (hwb : b.width = w) : U64.andOp a b w = Big.andOp a b w := by
  unfold U64.andOp Big.andOp
  have hM : (a.mask &&& b.mask) ||| (a.mask &&& U64.not b.mask &&& b.payload) ||| (b.mask &&& U64.not a.mask &&& a.payload) = (a.mask &&& b.mask) ||| (a.mask &&& (b.mask ^^^ Big.genMask w) &&& b.payload) ||| (b.mask &&& (a.mask ^^^ Big.genMask w) &&& a.payload) := by
    apply Nat.eq_of_testBit_eq; intro i
    simp only [Nat.testBit_and, Nat.testBit_or, Nat.testBit_xor, testBit_not64, Big.genMask, testBit_mask,
      U64.genMask_eq h64]
    by_cases h : i < w
    · have : i < 64 := by omega
      simp [h, this]
    · simp [h, testBit_ge_false ha hwa h, testBit_ge_false hb hwb h]
  have hP : (a.payload &&& b.payload) &&& U64.not ((a.mask &&& b.mask) ||| (a.mask &&& (b.mask ^^^ Big.genMask w) &&& b.payload) ||| (b.mask &&& (a.mask ^^^ Big.genMask w) &&& a.payload)) = (a.payload &&& b.payload) &&& (((a.mask &&& b.mask) ||| (a.mask &&& (b.mask ^^^ Big.genMask w) &&& b.payload) ||| (b.mask &&& (a.mask ^^^ Big.genMask w) &&& a.payload)) ^^^ Big.genMask w) := by
    apply Nat.eq_of_testBit_eq; intro i
    simp only [Nat.testBit_and, Nat.testBit_or, Nat.testBit_xor, testBit_not64, Big.genMask, testBit_mask,
      U64.genMask_eq h64]
    by_cases h : i < w
    · have : i < 64 := by omega
      simp [h, this]
    · simp [h, testBit_ge_false ha hwa h, testBit_ge_false hb hwb h]
  simp only [hM, hP]

theorem U64.orOp_eq_big (a b : V4) (w : Nat) (h64 : w ≤ 64) (ha : a.wf) (hb : b.wf)
    (hwa : a.width = w) (hwb : b.width = w) : U64.orOp a b w = Big.orOp a b w := by
  unfold U64.orOp Big.orOp
  have hM : (a.mask &&& b.mask) ||| (a.mask &&& U64.not b.mask &&& U64.not b.payload) ||| (b.mask &&& U64.not a.mask &&& U64.not a.payload) = (a.mask &&& b.mask) ||| (a.mask &&& (b.mask ^^^ Big.genMask w) &&& (b.payload ^^^ Big.genMask w)) ||| (b.mask &&& (a.mask ^^^ Big.genMask w) &&& (a.payload ^^^ Big.genMask w)) := by
    apply Nat.eq_of_testBit_eq; intro i
    simp only [Nat.testBit_and, Nat.testBit_or, Nat.testBit_xor, testBit_not64, Big.genMask, testBit_mask,
      U64.genMask_eq h64]
    by_cases h : i < w
    · have : i < 64 := by omega
      simp [h, this]
    · simp [h, testBit_ge_false ha hwa h, testBit_ge_false hb hwb h]
  have hP : (a.payload ||| b.payload) &&& U64.not ((a.mask &&& b.mask) ||| (a.mask &&& (b.mask ^^^ Big.genMask w) &&& (b.payload ^^^ Big.genMask w)) ||| (b.mask &&& (a.mask ^^^ Big.genMask w) &&& (a.payload ^^^ Big.genMask w))) = (a.payload ||| b.payload) &&& (((a.mask &&& b.mask) ||| (a.mask &&& (b.mask ^^^ Big.genMask w) &&& (b.payload ^^^ Big.genMask w)) ||| (b.mask &&& (a.mask ^^^ Big.genMask w) &&& (a.payload ^^^ Big.genMask w))) ^^^ Big.genMask w) := by
    apply Nat.eq_of_testBit_eq; intro i
    simp only [Nat.testBit_and, Nat.testBit_or, Nat.testBit_xor, testBit_not64, Big.genMask, testBit_mask,
      U64.genMask_eq h64]
    by_cases h : i < w
    · have : i < 64 := by omega
      simp [h, this]
    · simp [h, testBit_ge_false ha hwa h, testBit_ge_false hb hwb h]
  simp only [hM, hP]

theorem U64.xorOp_eq_big (a b : V4) (w : Nat) (h64 : w ≤ 64) (ha : a.wf) (hb : b.wf)
    (hwa : a.width = w) (hwb : b.width = w) : U64.xorOp a b w = Big.xorOp a b w := by
  unfold U64.xorOp Big.xorOp
  have hM : a.mask ||| b.mask = a.mask ||| b.mask := rfl
  have hP : (a.payload ^^^ b.payload) &&& U64.not (a.mask ||| b.mask) = (a.payload ^^^ b.payload) &&& ((a.mask ||| b.mask) ^^^ Big.genMask w) := by
    apply Nat.eq_of_testBit_eq; intro i
    simp only [Nat.testBit_and, Nat.testBit_or, Nat.testBit_xor, testBit_not64, Big.genMask, testBit_mask,
      U64.genMask_eq h64]
    by_cases h : i < w
    · have : i < 64 := by omega
      simp [h, this]
    · simp [h, testBit_ge_false ha hwa h, testBit_ge_false hb hwb h]
  simp only [hM, hP]

theorem U64.xnorOp_eq_big (a b : V4) (w : Nat) (h64 : w ≤ 64) (ha : a.wf) (hb : b.wf)
    (hwa : a.width = w) (hwb : b.width = w) : U64.xnorOp a b w = Big.xnorOp a b w := by
  unfold U64.xnorOp Big.xnorOp
  have hM : a.mask ||| b.mask = a.mask ||| b.mask := rfl
  have hP : (a.payload ^^^ b.payload ^^^ U64.genMask w) &&& U64.not (a.mask ||| b.mask) = (a.payload ^^^ b.payload ^^^ Big.genMask w) &&& ((a.mask ||| b.mask) ^^^ Big.genMask w) := by
    apply Nat.eq_of_testBit_eq; intro i
    simp only [Nat.testBit_and, Nat.testBit_or, Nat.testBit_xor, testBit_not64, Big.genMask, testBit_mask,
      U64.genMask_eq h64]
    by_cases h : i < w
    · have : i < 64 := by omega
      simp [h, this]
    · simp [h, testBit_ge_false ha hwa h, testBit_ge_false hb hwb h]
  simp only [hM, hP]

theorem U64.bitNot_eq_big (a : V4) (w : Nat) (h64 : w ≤ 64) : U64.bitNot a w = Big.bitNot a w := by
  simp [U64.bitNot, Big.bitNot, U64.genMask_eq h64, Big.genMask]

end VerylModel.Bits
