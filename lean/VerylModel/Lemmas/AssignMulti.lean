import VerylModel.Lemmas.AssignTable
/-! Lemmas for `multi_assign_exact`: the left-to-right fold of `merge_by_or_from` over the
declarations equals the pairwise test on the per-process write summaries. -/
namespace VerylModel.AssignTable

theorem may_eq_def_or_dyn (ws : List (Nat × Bool)) : mayMask ws = defMask ws ||| dynMask ws := by
  induction ws with
  | nil => rfl
  | cons w ws ih =>
    obtain ⟨m, d⟩ := w
    cases d
    · simp only [mayMask, defMask, dynMask, List.map_cons, List.filter_cons, foldOr_cons] at *
      simp only [Bool.not_false, if_true, Bool.false_eq_true, if_false, List.map_cons, foldOr_cons]
      rw [ih, Nat.or_assoc]
    · simp only [mayMask, defMask, dynMask, List.map_cons, List.filter_cons, foldOr_cons] at *
      simp only [Bool.not_true, Bool.false_eq_true, if_false, if_true, List.map_cons, foldOr_cons]
      rw [ih]
      apply Nat.eq_of_testBit_eq
      intro i
      simp only [Nat.testBit_or]
      cases m.testBit i <;> cases (foldOr (List.map (fun x => x.fst) (List.filter (fun w => !w.snd) ws))).testBit i <;> simp

/-- Pairwise conflict on summaries. -/
def c3 (X S : M3) : Bool := ov X.2.1 S.2.1 || ov X.2.2 S.1 || ov S.2.2 X.1

theorem procConflict_eq_c3 (a b : List (Nat × Bool)) : procConflict a b = c3 (sum3 a) (sum3 b) := by
  rfl

theorem c3_or_left (X Y S : M3) : c3 (X.or Y) S = (c3 X S || c3 Y S) := by
  simp only [c3, M3.or, ov_or_left, ov_or_right]
  cases ov X.2.1 S.2.1 <;> cases ov Y.2.1 S.2.1 <;> cases ov X.2.2 S.1 <;> cases ov Y.2.2 S.1 <;>
    cases ov S.2.2 X.1 <;> cases ov S.2.2 Y.1 <;> rfl

theorem c3_zero_left (S : M3) : c3 (0, 0, 0) S = false := by
  simp [c3, ov_zero_left, ov_zero_right]

/-- Well-formed accumulated entry: every written bit is a definite or a dynamic one, and the
process flag records whether anything was written that way. -/
def Entry.Wf (x : Entry) : Prop :=
  x.mask = x.definite ||| x.dynamic ∧ x.processWrite = (x.dynamic ≠ 0 || x.definite ≠ 0)

theorem ov_ne_zero_left {a b : Nat} (h : ov a b = true) : a ≠ 0 := by
  intro h0; rw [h0, ov_zero_left] at h; cases h

theorem ov_ne_zero_right {a b : Nat} (h : ov a b = true) : b ≠ 0 := by
  intro h0; rw [h0, ov_zero_right] at h; cases h

theorem conflict_eq_c3 {x val : Entry} (hx : x.Wf) (hv : val.Wf) : conflict x val = c3 x.m3 val.m3 := by
  unfold conflict c3 Entry.m3
  simp only
  show ((val.processWrite && x.processWrite) && (ov x.dynamic val.mask || ov val.dynamic x.mask)
      || ov x.definite val.definite) = (ov x.definite val.definite || ov x.dynamic val.mask || ov val.dynamic x.mask)
  have key : (ov x.dynamic val.mask || ov val.dynamic x.mask) = true →
      (val.processWrite && x.processWrite) = true := by
    intro h
    rw [hx.2, hv.2]
    rcases Bool.or_eq_true _ _ |>.mp h with h | h
    · have h1 := ov_ne_zero_left h
      have h2 := ov_ne_zero_right h
      rw [hv.1] at h2
      have : val.definite ≠ 0 ∨ val.dynamic ≠ 0 := by
        apply Classical.byContradiction
        intro hn
        apply h2
        rw [Nat.or_eq_zero_iff]
        constructor
        · exact Classical.byContradiction (fun h => hn (Or.inl h))
        · exact Classical.byContradiction (fun h => hn (Or.inr h))
      rcases this with h3 | h3 <;> simp [h1, h3]
    · have h1 := ov_ne_zero_left h
      have h2 := ov_ne_zero_right h
      rw [hx.1] at h2
      have : x.definite ≠ 0 ∨ x.dynamic ≠ 0 := by
        apply Classical.byContradiction
        intro hn
        apply h2
        rw [Nat.or_eq_zero_iff]
        constructor
        · exact Classical.byContradiction (fun h => hn (Or.inl h))
        · exact Classical.byContradiction (fun h => hn (Or.inr h))
      rcases this with h3 | h3 <;> simp [h1, h3]
  cases hd : (ov x.dynamic val.mask || ov val.dynamic x.mask)
  · have h1 : ov x.dynamic val.mask = false := by
      cases h : ov x.dynamic val.mask
      · rfl
      · rw [h] at hd; simp at hd
    have h2 : ov val.dynamic x.mask = false := by
      cases h : ov val.dynamic x.mask
      · rfl
      · rw [h] at hd; simp at hd
    simp [h1, h2]
  · rw [key hd]
    rcases Bool.or_eq_true _ _ |>.mp hd with h | h <;> simp [h]

theorem Entry.Wf.zero : ({} : Entry).Wf := by simp [Entry.Wf]

theorem Entry.Wf.merge {a b : Entry} (ha : a.Wf) (hb : b.Wf) : (a.mergeByOr b).Wf := by
  constructor
  · simp only [Entry.mergeByOr, ha.1, hb.1]
    apply Nat.eq_of_testBit_eq
    intro i
    simp only [Nat.testBit_or]
    cases a.definite.testBit i <;> cases a.dynamic.testBit i <;> cases b.definite.testBit i <;>
      cases b.dynamic.testBit i <;> rfl
  · simp only [Entry.mergeByOr, ha.2, hb.2]
    by_cases h1 : a.dynamic = 0 <;> by_cases h2 : a.definite = 0 <;> by_cases h3 : b.dynamic = 0 <;>
      by_cases h4 : b.definite = 0 <;> simp [h1, h2, h3, h4, Nat.or_eq_zero_iff]

/-- Summary of one declaration. -/
def S (v : Nat) (p : Proc) : M3 := sum3 (procWrites v p)

theorem procEval_inst_aux (v : Nat) (outs : List (Nat × Nat)) (st : St) :
    (outs.foldl (fun st (o : Nat × Nat) => if o.1 = v then { st with e := st.e.add o.2 false false } else st) st).e.m3
      = st.e.m3.or (sum3 ((outs.filter (·.1 = v)).map (fun o => (o.2, false)))) ∧
    ((outs.foldl (fun st (o : Nat × Nat) => if o.1 = v then { st with e := st.e.add o.2 false false } else st) st).e.processWrite
      = st.e.processWrite) := by
  induction outs generalizing st with
  | nil => simp [sum3_nil, M3.or_zero]
  | cons o outs ih =>
    simp only [List.foldl_cons]
    by_cases h : o.1 = v
    · simp only [h, if_true, List.filter_cons, decide_true, List.map_cons]
      have := ih { st with e := st.e.add o.2 false false }
      rw [this.1, this.2]
      refine ⟨?_, rfl⟩
      rw [m3_add, M3.or_assoc]
      congr 1
      rw [← sum3_append]
      rfl
    · simp only [h, if_false, List.filter_cons, decide_false, Bool.false_eq_true]
      exact ih st

theorem procEval_m3 (a : Bool) (v : Nat) (p : Proc) :
    (procEval a v p).e.m3 = S v p ∧ (procEval a v p).e.processWrite = false := by
  cases p with
  | comb body =>
    refine ⟨?_, pw_block _ v 0 {} body rfl⟩
    simp [procEval, S, procWrites, m3_block, m3_zero, M3.zero_or]
  | ff body =>
    refine ⟨?_, pw_block _ v 0 {} body rfl⟩
    simp [procEval, S, procWrites, m3_block, m3_zero, M3.zero_or]
  | inst outs ins =>
    have := procEval_inst_aux v outs {}
    simp only [procEval, S, procWrites]
    constructor
    · have h := this.1
      simp only [m3_zero, M3.zero_or] at h
      exact h
    · exact this.2

theorem markProcess_m3 (e : Entry) : e.markProcess.m3 = e.m3 := by
  unfold Entry.markProcess
  split <;> rfl

theorem sum3_wf (ws : List (Nat × Bool)) : (sum3 ws).1 = (sum3 ws).2.1 ||| (sum3 ws).2.2 :=
  may_eq_def_or_dyn ws

theorem markProcess_wf {e : Entry} (hm : e.mask = e.definite ||| e.dynamic) (hp : e.processWrite = false) :
    e.markProcess.Wf := by
  unfold Entry.markProcess
  split
  · rename_i h
    refine ⟨hm, ?_⟩
    simpa using h
  · rename_i h
    refine ⟨hm, ?_⟩
    rw [hp]
    simp only [Bool.or_eq_true, decide_eq_true_eq, not_or, ne_eq, Decidable.not_not] at h
    simp [h.1, h.2]

theorem any_or {α : Type} (l : List α) (f g : α → Bool) :
    l.any (fun x => f x || g x) = (l.any f || l.any g) := by
  induction l with
  | nil => rfl
  | cons a l ih =>
    simp only [List.any_cons, ih]
    cases f a <;> cases g a <;> cases l.any f <;> cases l.any g <;> rfl

theorem moduleStep_spec (a : Bool) (v : Nat) (m : MSt) (p : Proc) (hx : m.x.Wf) :
    (moduleStep a v m p).x.m3 = m.x.m3.or (S v p) ∧ (moduleStep a v m p).x.Wf ∧
    (moduleStep a v m p).multi = (m.multi || c3 m.x.m3 (S v p)) := by
  have hp := procEval_m3 a v p
  have hm : (procEval a v p).e.mask = (procEval a v p).e.definite ||| (procEval a v p).e.dynamic := by
    have h1 := hp.1
    have h2 := sum3_wf (procWrites v p)
    simp only [Entry.m3, S] at h1
    have e1 : (procEval a v p).e.mask = (sum3 (procWrites v p)).1 := by rw [← h1]
    have e2 : (procEval a v p).e.definite = (sum3 (procWrites v p)).2.1 := by rw [← h1]
    have e3 : (procEval a v p).e.dynamic = (sum3 (procWrites v p)).2.2 := by rw [← h1]
    rw [e1, e2, e3]; exact h2
  have hv := markProcess_wf hm hp.2
  refine ⟨?_, hx.merge hv, ?_⟩
  · simp [moduleStep, m3_mergeByOr, markProcess_m3, hp.1]
  · simp only [moduleStep]
    rw [conflict_eq_c3 hx hv, markProcess_m3, hp.1]

theorem moduleFold_multi (a : Bool) (v : Nat) : ∀ (ps : List Proc) (m : MSt), m.x.Wf →
    (ps.foldl (moduleStep a v) m).multi
      = (m.multi || ps.any (fun q => c3 m.x.m3 (S v q)) || refMulti v ps)
  | [], m, _ => by simp [refMulti]
  | p :: ps, m, hx => by
    have hs := moduleStep_spec a v m p hx
    simp only [List.foldl_cons]
    rw [moduleFold_multi a v ps _ hs.2.1, hs.2.2, hs.1]
    simp only [c3_or_left, any_or, List.any_cons, refMulti, procConflict_eq_c3, S]
    cases m.multi <;> cases c3 m.x.m3 (sum3 (procWrites v p)) <;>
      cases ps.any (fun q => c3 m.x.m3 (sum3 (procWrites v q))) <;>
      cases ps.any (fun q => c3 (sum3 (procWrites v p)) (sum3 (procWrites v q))) <;>
      cases refMulti v ps <;> rfl

/-- The assigned mask the module ends with is the union of everything any declaration may write. -/
theorem moduleFold_mask (a : Bool) (v : Nat) : ∀ (ps : List Proc) (m : MSt), m.x.Wf →
    (ps.foldl (moduleStep a v) m).x.mask = m.x.mask ||| foldOr (ps.map (fun p => mayMask (procWrites v p)))
  | [], m, _ => by simp [foldOr_nil]
  | p :: ps, m, hx => by
    have hs := moduleStep_spec a v m p hx
    simp only [List.foldl_cons, List.map_cons, foldOr_cons]
    rw [moduleFold_mask a v ps _ hs.2.1]
    have : (moduleStep a v m p).x.mask = m.x.mask ||| mayMask (procWrites v p) := by
      have := congrArg Prod.fst hs.1
      simpa [Entry.m3, M3.or, S, sum3] using this
    rw [this, Nat.or_assoc]

end VerylModel.AssignTable
