import VerylModel.Core.Bits
set_option linter.unusedSimpArgs false
set_option linter.unusedVariables false
/-! Helper lemmas for M-Bits (core Lean only). -/
namespace VerylModel.Bits
open Ref Impl

/-! ### packN / anyLt -/

theorem packN_lt (n : Nat) (f : Nat → Bool) : packN n f < 2 ^ n := by
  induction n with
  | zero => simp [packN]
  | succ n ih =>
    simp only [packN, Nat.pow_succ]
    split <;> omega

theorem testBit_of_lt {x w i : Nat} (h : x < 2 ^ w) (hi : w ≤ i) : x.testBit i = false :=
  Nat.testBit_lt_two_pow (Nat.lt_of_lt_of_le h (Nat.pow_le_pow_right (by decide) hi))

theorem testBit_packN (n : Nat) (f : Nat → Bool) (i : Nat) :
    (packN n f).testBit i = (decide (i < n) && f i) := by
  induction n with
  | zero => simp [packN]
  | succ n ih =>
    simp only [packN]
    by_cases hf : f n
    · simp only [hf, if_true]
      rw [Nat.add_comm]
      by_cases h1 : i < n
      · rw [Nat.testBit_two_pow_add_gt h1, ih]; simp [h1, Nat.lt_succ_of_lt h1]
      · by_cases h2 : i = n
        · subst h2
          rw [Nat.testBit_two_pow_add_eq, testBit_of_lt (packN_lt _ f) (Nat.le_refl _)]; simp [hf]
        · have h3 : n + 1 ≤ i := by omega
          have : 2 ^ i ≤ 2 ^ i := Nat.le_refl _
          have hlt : 2 ^ n + packN n f < 2 ^ (n + 1) := by
            have := packN_lt n f; rw [Nat.pow_succ]; omega
          rw [testBit_of_lt hlt h3]
          have : ¬ i < n + 1 := by omega
          simp [this]
    · simp only [hf, Bool.false_eq_true, if_false, Nat.add_zero, ih]
      by_cases h1 : i < n
      · simp [h1, Nat.lt_succ_of_lt h1]
      · by_cases h2 : i = n
        · subst h2; simp [hf]
        · have : ¬ i < n + 1 := by omega
          simp [h1, this]

theorem anyLt_iff (n : Nat) (p : Nat → Bool) : anyLt n p = true ↔ ∃ i, i < n ∧ p i = true := by
  induction n with
  | zero => simp [anyLt]
  | succ n ih =>
    simp only [anyLt, Bool.or_eq_true, ih]
    constructor
    · rintro (⟨i, hi, hp⟩ | hp)
      · exact ⟨i, Nat.lt_succ_of_lt hi, hp⟩
      · exact ⟨n, Nat.lt_succ_self n, hp⟩
    · rintro ⟨i, hi, hp⟩
      by_cases h : i = n
      · subst h; exact Or.inr hp
      · exact Or.inl ⟨i, by omega, hp⟩

theorem anyLt_eq_false_iff (n : Nat) (p : Nat → Bool) :
    anyLt n p = false ↔ ∀ i, i < n → p i = false := by
  rw [← Bool.not_eq_true, anyLt_iff]
  constructor
  · intro h i hi
    cases hp : p i with
    | false => rfl
    | true => exact absurd ⟨i, hi, hp⟩ h
  · rintro h ⟨i, hi, hp⟩
    rw [h i hi] at hp; cases hp

/-! ### masks -/

theorem U64.genMask_eq {w : Nat} (h : w ≤ 64) : U64.genMask w = 2 ^ w - 1 := by
  unfold U64.genMask U64.MAX
  by_cases h64 : w ≥ 64
  · have : w = 64 := by omega
    subst this; simp
  · simp [h64, Nat.one_shiftLeft]

theorem testBit_mask (w i : Nat) : (2 ^ w - 1).testBit i = decide (i < w) :=
  Nat.testBit_two_pow_sub_one w i

theorem lt_of_testBit_false {x w : Nat} (h : ∀ i, w ≤ i → x.testBit i = false) : x < 2 ^ w :=
  Nat.lt_pow_two_of_testBit x h

end VerylModel.Bits

namespace VerylModel.Bits
open Ref Impl

/-! ### B4 packing -/

@[simp] theorem B4.ofPM_p (p m : Bool) : (B4.ofPM p m).p = p := by cases p <;> cases m <;> rfl
@[simp] theorem B4.ofPM_m (p m : Bool) : (B4.ofPM p m).m = m := by cases p <;> cases m <;> rfl
@[simp] theorem B4.ofPM_p_m (b : B4) : B4.ofPM b.p b.m = b := by cases b <;> rfl

theorem BV.ext_iff {a b : BV} : a = b ↔ a.width = b.width ∧ a.payload = b.payload ∧ a.mask = b.mask := by
  cases a; cases b; simp

theorem ofFn_payload_testBit (w : Nat) (f : Nat → B4) (i : Nat) :
    (BV.ofFn w f).payload.testBit i = (decide (i < w) && (f i).p) := by
  simp [BV.ofFn, testBit_packN]

theorem ofFn_mask_testBit (w : Nat) (f : Nat → B4) (i : Nat) :
    (BV.ofFn w f).mask.testBit i = (decide (i < w) && (f i).m) := by
  simp [BV.ofFn, testBit_packN]

theorem ofFn_bit (w : Nat) (f : Nat → B4) (i : Nat) (h : i < w) : (BV.ofFn w f).bit i = f i := by
  simp [BV.bit, bitOf, ofFn_payload_testBit, ofFn_mask_testBit, h]

theorem ofFn_wf (w : Nat) (f : Nat → B4) :
    (BV.ofFn w f).payload < 2 ^ w ∧ (BV.ofFn w f).mask < 2 ^ w :=
  ⟨packN_lt _ _, packN_lt _ _⟩

@[simp] theorem ofFn_width (w : Nat) (f : Nat → B4) : (BV.ofFn w f).width = w := rfl

/-- A BV is determined by its width and its bits below the width (given well-formedness). -/
theorem BV.eq_ofFn {a : BV} {w : Nat} {f : Nat → B4} (hw : a.width = w)
    (hp : a.payload < 2 ^ w) (hm : a.mask < 2 ^ w)
    (hb : ∀ i, i < w → a.payload.testBit i = (f i).p ∧ a.mask.testBit i = (f i).m) :
    a = BV.ofFn w f := by
  rw [BV.ext_iff]
  refine ⟨hw, ?_, ?_⟩
  · apply Nat.eq_of_testBit_eq; intro i
    rw [ofFn_payload_testBit]
    by_cases h : i < w
    · simp [h, (hb i h).1]
    · simp [h, testBit_of_lt hp (Nat.le_of_not_lt h)]
  · apply Nat.eq_of_testBit_eq; intro i
    rw [ofFn_mask_testBit]
    by_cases h : i < w
    · simp [h, (hb i h).2]
    · simp [h, testBit_of_lt hm (Nat.le_of_not_lt h)]

/-! ### expand = ext -/

/-- Operand as the property speaks about it. -/
def V4.wfIn (v : V4) : Prop :=
  if v.width = 0 then v.payload ≤ 1 ∧ v.mask ≤ 1 else v.wf

theorem ext_wf (x : V4) (w : Nat) (s : Bool) :
    (ext x w s).payload < 2 ^ w ∧ (ext x w s).mask < 2 ^ w := ofFn_wf _ _

@[simp] theorem ext_width (x : V4) (w : Nat) (s : Bool) : (ext x w s).width = w := rfl

/-- The >64 arm of `Value::expand` computes the IEEE extension (any target width). -/
theorem Big.signExt_eq_ext (x : V4) (w : Nat) (us : Bool) (hx : x.wf) (h0 : 0 < x.width)
    (hw : x.width ≤ w) :
    ∃ v, Big.signExt x w us = some v ∧ v.toBV = ext x w us ∧
         v.signed = (if us then x.signed else false) := by
  obtain ⟨hp, hm⟩ := hx
  unfold Big.signExt
  by_cases hs : (x.signed && us) = true
  · simp only [hs, if_true, usub, show 1 ≤ x.width from h0, Option.bind_eq_bind, Option.bind_some]
    refine ⟨_, rfl, ?_, ?_⟩
    · apply BV.eq_ofFn (w := w) rfl
      · apply lt_of_testBit_false; intro i hi
        have h1 : x.payload.testBit i = false := testBit_of_lt hp (Nat.le_trans hw hi)
        have h2 : ¬ i < w := by omega
        have h3 : ¬ i < x.width := by omega
        simp only [V4.toBV]
        split <;> simp [Nat.testBit_or, Nat.testBit_xor, Big.genMask, testBit_mask, h1, h2, h3]
      · apply lt_of_testBit_false; intro i hi
        have h1 : x.mask.testBit i = false := testBit_of_lt hm (Nat.le_trans hw hi)
        have h2 : ¬ i < w := by omega
        have h3 : ¬ i < x.width := by omega
        simp only [V4.toBV]
        split <;> simp [Nat.testBit_or, Nat.testBit_xor, Big.genMask, testBit_mask, h1, h2, h3]
      · intro i hi
        have hne : x.width ≠ 0 := by omega
        have hsu : us = true := by simp at hs; exact hs.2
        have hss : x.signed = true := by simp at hs; exact hs.1
        by_cases h3 : i < x.width
        · simp only [V4.toBV, extBit, hne, if_false, h3, if_true, V4.bit, bitOf, B4.ofPM_p, B4.ofPM_m]
          constructor <;> split <;>
            simp [Nat.testBit_or, Nat.testBit_xor, Big.genMask, testBit_mask, hi, h3]
        · have h1 : x.payload.testBit i = false := testBit_of_lt hp (Nat.le_of_not_lt h3)
          have h1m : x.mask.testBit i = false := testBit_of_lt hm (Nat.le_of_not_lt h3)
          simp only [V4.toBV, extBit, hne, if_false, h3, hsu, hss, Bool.and_self, if_true, V4.bit,
            bitOf, B4.ofPM_p, B4.ofPM_m]
          constructor <;> split <;>
            simp_all [Nat.testBit_or, Nat.testBit_xor, Big.genMask, testBit_mask]
    · simp at hs; simp [hs.2]
  · simp only [hs, Bool.false_eq_true, if_false]
    refine ⟨_, rfl, ?_, rfl⟩
    apply BV.eq_ofFn (w := w) rfl
    · exact Nat.lt_of_lt_of_le hp (Nat.pow_le_pow_right (by decide) hw)
    · exact Nat.lt_of_lt_of_le hm (Nat.pow_le_pow_right (by decide) hw)
    · intro i hi
      have hne : x.width ≠ 0 := by omega
      have hs' : (us && x.signed) = false := by
        cases us <;> cases hxs : x.signed <;> simp_all
      by_cases h3 : i < x.width
      · simp [V4.toBV, extBit, hne, h3, V4.bit, bitOf]
      · have h1 : x.payload.testBit i = false := testBit_of_lt hp (Nat.le_of_not_lt h3)
        have h1m : x.mask.testBit i = false := testBit_of_lt hm (Nat.le_of_not_lt h3)
        simp [V4.toBV, extBit, hne, h3, hs', h1, h1m, B4.p, B4.m]

end VerylModel.Bits

namespace VerylModel.Bits
open Ref Impl

theorem and_one_beq_one (q : Nat) : (q &&& 1 == 1) = q.testBit 0 := by
  rw [Nat.and_one_is_mod, Nat.testBit_zero]
  by_cases h : q % 2 = 1 <;> simp [h]

theorem U64.msb_eq {v width : Nat} (h0 : 0 < width) (h64 : width ≤ 64) :
    U64.msb v width = some (v.testBit (width - 1)) := by
  unfold U64.msb
  have h1 : 1 ≤ width := h0
  have h2 : width - 1 < 64 := by omega
  simp only [usub, h1, U64.shr, h2, if_true, Option.bind_eq_bind, Option.bind_some, and_one_beq_one,
    Nat.testBit_shiftRight, Nat.add_zero]

/-- The ≤64 arm of `Value::expand` agrees with the >64 arm on every value both can hold. -/
theorem U64.signExt_eq_big (x : V4) (w : Nat) (us : Bool) (h0 : 0 < x.width)
    (hw : x.width ≤ w) (h64 : w ≤ 64) : U64.signExt x w us = Big.signExt x w us := by
  unfold U64.signExt Big.signExt
  have hx64 : x.width ≤ 64 := by omega
  have h1 : 1 ≤ x.width := h0
  simp [U64.msb_eq h0 hx64, U64.genMask_eq h64, U64.genMask_eq hx64, Big.genMask, usub, h1]

end VerylModel.Bits

namespace VerylModel.Bits
open Ref Impl

/-- Representation invariant of `Value`: `U64` iff width ≤ 64; payload/mask within the width
    (width 0 = unsized fill literal, 1-bit pattern). -/
def Impl.Val.canon : Val → Prop
  | .u64 v => v.width ≤ 64 ∧ V4.wfIn v
  | .big v => 64 < v.width ∧ v.wf

theorem le_one_testBit {p : Nat} (h : p ≤ 1) : p.testBit 0 = decide (p ≠ 0) := by
  have : p = 0 ∨ p = 1 := by omega
  rcases this with h | h <;> subst h <;> decide

/-- A well-formed value of width `w ≥ 1` is its own extension to `w`. -/
theorem toBV_eq_ext_self (x : V4) (us : Bool) (hx : x.wf) (h0 : x.width ≠ 0) :
    x.toBV = ext x x.width us := by
  apply BV.eq_ofFn (w := x.width) rfl hx.1 hx.2
  intro i hi
  simp [V4.toBV, extBit, h0, hi, V4.bit, bitOf]

theorem fill_eq_ext (x : V4) (w : Nat) (us : Bool) (hx : V4.wfIn x) (h0 : x.width = 0) :
    (fill x w).v.toBV = ext x w us ∧ (fill x w).isBig = decide (64 < w) ∧ (fill x w).v.width = w ∧
    (fill x w).v.wf ∧ (fill x w).v.signed = false := by
  simp only [V4.wfIn, h0, if_true] at hx
  have hp := le_one_testBit hx.1
  have hm := le_one_testBit hx.2
  unfold fill
  by_cases hw : w > 64
  · simp only [hw, if_true, Val.v, Val.isBig, decide_true, V4.wf, Big.genMask]
    have hlt : 2 ^ w - 1 < 2 ^ w := Nat.sub_lt (Nat.two_pow_pos w) (by decide)
    refine ⟨?_, trivial, trivial, ⟨by split <;> simp [hlt, Nat.two_pow_pos], by split <;> simp [hlt, Nat.two_pow_pos]⟩, trivial⟩
    apply BV.eq_ofFn (w := w) rfl
    · simp only [V4.toBV]; split <;> simp [hlt, Nat.two_pow_pos]
    · simp only [V4.toBV]; split <;> simp [hlt, Nat.two_pow_pos]
    · intro i hi
      simp only [V4.toBV, extBit, h0, if_true, V4.bit, bitOf, B4.ofPM_p, B4.ofPM_m, hp, hm]
      constructor <;> split <;> simp_all [testBit_mask]
  · have h64 : w ≤ 64 := by omega
    simp only [hw, if_false, Val.v, Val.isBig, V4.wf, U64.genMask_eq h64]
    have hlt : 2 ^ w - 1 < 2 ^ w := Nat.sub_lt (Nat.two_pow_pos w) (by decide)
    refine ⟨?_, by simp [hw], trivial, ⟨by split <;> simp [hlt, Nat.two_pow_pos], by split <;> simp [hlt, Nat.two_pow_pos]⟩, trivial⟩
    apply BV.eq_ofFn (w := w) rfl
    · simp only [V4.toBV]; split <;> simp [hlt, Nat.two_pow_pos]
    · simp only [V4.toBV]; split <;> simp [hlt, Nat.two_pow_pos]
    · intro i hi
      simp only [V4.toBV, extBit, h0, if_true, V4.bit, bitOf, B4.ofPM_p, B4.ofPM_m, hp, hm]
      constructor <;> split <;> simp_all [testBit_mask]

@[simp] theorem Val.v_u64 (v : V4) : (Val.u64 v).v = v := rfl
@[simp] theorem Val.v_big (v : V4) : (Val.big v).v = v := rfl
@[simp] theorem Val.width_u64 (v : V4) : (Val.u64 v).width = v.width := rfl
@[simp] theorem Val.width_big (v : V4) : (Val.big v).width = v.width := rfl
@[simp] theorem Val.signed_u64 (v : V4) : (Val.u64 v).signed = v.signed := rfl
@[simp] theorem Val.signed_big (v : V4) : (Val.big v).signed = v.signed := rfl
@[simp] theorem Val.isBig_u64 (v : V4) : (Val.u64 v).isBig = false := rfl
@[simp] theorem Val.isBig_big (v : V4) : (Val.big v).isBig = true := rfl

theorem expand_u64_eq (v : V4) (w : Nat) (us : Bool) :
    expand (.u64 v) w us =
      if v.width ≥ w ∧ v.width ≠ 0 then some (.u64 v)
      else if v.width = 0 then some (fill v w)
      else if w > 64 then (Big.signExt v w us).map .big
      else (U64.signExt v w us).map .u64 := rfl

theorem expand_big_eq (v : V4) (w : Nat) (us : Bool) :
    expand (.big v) w us =
      if v.width ≥ w ∧ v.width ≠ 0 then some (.big v)
      else if v.width = 0 then none
      else if w > 64 then (Big.signExt v w us).map .big
      else none := rfl

theorem signExt_wf {x r : V4} {w : Nat} {us : Bool} (hb : r.toBV = ext x w us) :
    r.width = w ∧ r.wf := by
  have hrw : r.width = w := by have := congrArg BV.width hb; simpa [V4.toBV] using this
  have h := ext_wf x w us
  rw [← hb] at h
  simp only [V4.toBV] at h
  exact ⟨hrw, by rw [V4.wf, hrw]; exact h⟩

/-- `Value::expand` computes the IEEE extension, never panics on canonical values, and returns
    the representation that belongs to the target width. -/
theorem expand_spec (x : Val) (w : Nat) (us : Bool) (hc : x.canon) (hw : x.width ≤ w) (hw0 : 0 < w) :
    ∃ v, expand x w us = some v ∧ v.v.toBV = ext x.v w us ∧ v.isBig = decide (64 < w) ∧
         v.v.width = w ∧ v.v.wf ∧
         (x.v.width = w → v.v.signed = x.v.signed) ∧
         (x.v.width ≠ w → x.v.width = 0 → v.v.signed = false) ∧
         (x.v.width ≠ w → x.v.width ≠ 0 → v.v.signed = (us && x.v.signed)) := by
  cases x with
  | u64 v =>
    simp only [Val.canon, V4.wfIn] at hc
    dsimp only [Val.width_u64, Val.v_u64] at hw ⊢
    rw [expand_u64_eq]
    by_cases hz : v.width = 0
    · have h1 : ¬ (v.width ≥ w ∧ v.width ≠ 0) := by omega
      rw [if_neg h1, if_pos hz]
      have hwf : V4.wfIn v := by simp only [V4.wfIn, hz, if_true]; simpa [hz] using hc.2
      obtain ⟨a, b, c, d, e⟩ := fill_eq_ext v w us hwf hz
      exact ⟨_, rfl, a, b, c, d, fun h => by omega, fun _ _ => e, fun _ h => absurd hz h⟩
    · simp only [hz, if_false] at hc
      by_cases he : v.width = w
      · have h1 : v.width ≥ w ∧ v.width ≠ 0 := ⟨by omega, hz⟩
        rw [if_pos h1]
        refine ⟨_, rfl, ?_, ?_, he, hc.2, fun _ => rfl, fun h => absurd he h, fun h => absurd he h⟩
        · rw [← he]; exact toBV_eq_ext_self v us hc.2 hz
        · simp; omega
      · have h1 : ¬ (v.width ≥ w ∧ v.width ≠ 0) := by omega
        have hpos : 0 < v.width := Nat.pos_of_ne_zero hz
        rw [if_neg h1, if_neg hz]
        obtain ⟨r, hr, hb, hs⟩ := Big.signExt_eq_ext v w us hc.2 hpos hw
        obtain ⟨hrw, hwf⟩ := signExt_wf hb
        by_cases h64 : w > 64
        · rw [if_pos h64, hr]
          exact ⟨_, rfl, hb, by simp [h64], hrw, hwf, fun h => absurd h he, fun _ h => absurd h hz, fun _ _ => by cases us <;> simp [hs]⟩
        · have h64' : w ≤ 64 := by omega
          rw [if_neg h64, U64.signExt_eq_big v w us hpos hw h64', hr]
          exact ⟨_, rfl, hb, by simp [h64], hrw, hwf, fun h => absurd h he, fun _ h => absurd h hz, fun _ _ => by cases us <;> simp [hs]⟩
  | big v =>
    simp only [Val.canon] at hc
    dsimp only [Val.width_big, Val.v_big] at hw ⊢
    rw [expand_big_eq]
    have hz : v.width ≠ 0 := by omega
    have h64 : w > 64 := by omega
    by_cases he : v.width = w
    · have h1 : v.width ≥ w ∧ v.width ≠ 0 := ⟨by omega, hz⟩
      rw [if_pos h1]
      refine ⟨_, rfl, ?_, ?_, he, hc.2, fun _ => rfl, fun h => absurd he h, fun h => absurd he h⟩
      · rw [← he]; exact toBV_eq_ext_self v us hc.2 hz
      · simp; omega
    · have h1 : ¬ (v.width ≥ w ∧ v.width ≠ 0) := by omega
      have hpos : 0 < v.width := Nat.pos_of_ne_zero hz
      rw [if_neg h1, if_neg hz]
      obtain ⟨r, hr, hb, hs⟩ := Big.signExt_eq_ext v w us hc.2 hpos hw
      obtain ⟨hrw, hwf⟩ := signExt_wf hb
      rw [if_pos h64, hr]
      exact ⟨_, rfl, hb, by simp [h64], hrw, hwf, fun h => absurd h he, fun _ h => absurd h hz, fun _ _ => by cases us <;> simp [hs]⟩

end VerylModel.Bits
