import VerylModel.Core.Netlist
/-!
Lemmas about M-Net (`Core/Netlist.lean`): array access, the timing sweep (`nodeStep`, `pass`,
`iterate`) against the declarative longest-path specification `PathTo`/`IsLongest`, soundness of
the decidable well-formedness test, the area loop, the endpoint choice.
-/
namespace VerylModel.Netlist
open VerylModel.Gen

/-! ## arrays -/

theorem aget_aset (a : Array Nat) (i v j : Nat) :
    aget (aset a i v) j = if i = j ∧ i < a.size then v else aget a j := by
  unfold aget aset
  simp only [Array.getD_eq_getD_getElem?, Array.getElem?_setIfInBounds]
  by_cases h : i = j
  · subst h
    by_cases h2 : i < a.size
    · simp [h2]
    · simp [h2]
  · simp [h]

@[simp] theorem size_aset (a : Array Nat) (i v : Nat) : (aset a i v).size = a.size := by
  simp [aset]

theorem aget_aset_self (a : Array Nat) (i v : Nat) (h : i < a.size) : aget (aset a i v) i = v := by
  rw [aget_aset]; simp [h]

theorem aget_aset_ne (a : Array Nat) (i v j : Nat) (h : i ≠ j) : aget (aset a i v) j = aget a j := by
  rw [aget_aset]; simp [h]

theorem aget_replicate (n i : Nat) : aget (Array.replicate n 0) i = 0 := by
  unfold aget
  simp only [Array.getD_eq_getD_getElem?, Array.getElem?_replicate]
  split <;> rfl

theorem bget_bset (a : Array Bool) (i : Nat) (v : Bool) (j : Nat) :
    bget (bset a i v) j = if i = j ∧ i < a.size then v else bget a j := by
  unfold bget bset
  simp only [Array.getD_eq_getD_getElem?, Array.getElem?_setIfInBounds]
  by_cases h : i = j
  · subst h
    by_cases h2 : i < a.size
    · simp [h2]
    · simp [h2]
  · simp [h]

@[simp] theorem size_bset (a : Array Bool) (i : Nat) (v : Bool) : (bset a i v).size = a.size := by
  simp [bset]

/-! ## `maxIn` -/

theorem foldl_max_ge_init (a : Array Nat) (ins : List Nat) (init : Nat) :
    init ≤ ins.foldl (fun acc i => max acc (aget a i)) init := by
  induction ins generalizing init with
  | nil => exact Nat.le_refl _
  | cons x xs ih => exact Nat.le_trans (Nat.le_max_left _ _) (ih _)

theorem foldl_max_ge_mem (a : Array Nat) (ins : List Nat) (init i : Nat) (h : i ∈ ins) :
    aget a i ≤ ins.foldl (fun acc i => max acc (aget a i)) init := by
  induction ins generalizing init with
  | nil => cases h
  | cons x xs ih =>
    cases h with
    | head => exact Nat.le_trans (Nat.le_max_right _ _) (foldl_max_ge_init a xs _)
    | tail _ h' => exact ih _ h'

theorem foldl_max_cases (a : Array Nat) (ins : List Nat) (init : Nat) :
    ins.foldl (fun acc i => max acc (aget a i)) init = init ∨
    ∃ i ∈ ins, ins.foldl (fun acc i => max acc (aget a i)) init = aget a i := by
  induction ins generalizing init with
  | nil => exact Or.inl rfl
  | cons x xs ih =>
    simp only [List.foldl_cons]
    rcases ih (max init (aget a x)) with h | ⟨i, hi, h⟩
    · rw [h]
      rcases Nat.le_total init (aget a x) with h1 | h1
      · right; exact ⟨x, List.mem_cons_self, by rw [Nat.max_eq_right h1]⟩
      · left; rw [Nat.max_eq_left h1]
    · right; exact ⟨i, List.mem_cons_of_mem _ hi, h⟩

theorem maxIn_ge (a : Array Nat) (ins : List Nat) (i : Nat) (h : i ∈ ins) : aget a i ≤ maxIn a ins :=
  foldl_max_ge_mem a ins 0 i h

/-- On a non-empty fan-in the maximum is attained. -/
theorem maxIn_attained (a : Array Nat) (ins : List Nat) (h : ins ≠ []) :
    ∃ i ∈ ins, maxIn a ins = aget a i := by
  rcases foldl_max_cases a ins 0 with h0 | h1
  · cases ins with
    | nil => exact absurd rfl h
    | cons x xs =>
      refine ⟨x, List.mem_cons_self, ?_⟩
      have := maxIn_ge a (x :: xs) x List.mem_cons_self
      unfold maxIn at *
      omega
  · exact h1

theorem maxIn_congr (a b : Array Nat) (ins : List Nat) (h : ∀ i ∈ ins, aget a i = aget b i) :
    maxIn a ins = maxIn b ins := by
  unfold maxIn
  generalize 0 = init
  induction ins generalizing init with
  | nil => rfl
  | cons x xs ih =>
    simp only [List.foldl_cons]
    rw [h x List.mem_cons_self]
    exact ih (fun i hi => h i (List.mem_cons_of_mem _ hi)) _

/-! ## one node of the sweep -/

/-- The two arrays of a timing state have the same length `n` (`vec![…; n_nets]`). -/
def TState.Sized (st : TState) (n : Nat) : Prop := st.arrival.size = n ∧ st.depth.size = n

theorem writeOut_spec (newA newD N : Nat) (sc : TState × Bool) (o : Nat) (hsz : sc.1.Sized N) :
    let r := writeOut newA newD sc o
    r.1.Sized N ∧
    (∀ n, (aget r.1.arrival n = aget sc.1.arrival n ∧ aget r.1.depth n = aget sc.1.depth n) ∨
          (n = o ∧ aget r.1.arrival n = newA ∧ aget r.1.depth n = newD)) ∧
    (o < N → newA ≤ aget r.1.arrival o ∧ newD ≤ aget r.1.depth o) ∧
    (r.2 = true ∨ r = sc) ∧ (sc.2 = true → r.2 = true) := by
  obtain ⟨hs1, hs2⟩ := hsz
  by_cases hc : (newA > aget sc.1.arrival o || newD > aget sc.1.depth o) = true
  · have hw : writeOut newA newD sc o =
        ({ arrival := aset sc.1.arrival o newA, depth := aset sc.1.depth o newD }, true) := by
      unfold writeOut; rw [if_pos hc]
    simp only [hw]
    refine ⟨⟨by simp [hs1], by simp [hs2]⟩, ?_, ?_, Or.inl trivial, fun _ => trivial⟩
    · intro n
      by_cases hn : o = n
      · subst hn
        by_cases hlt : o < N
        · right
          exact ⟨rfl, aget_aset_self _ _ _ (by omega), aget_aset_self _ _ _ (by omega)⟩
        · left
          constructor
          · rw [aget_aset]; simp; intro h; omega
          · rw [aget_aset]; simp; intro h; omega
      · left
        exact ⟨aget_aset_ne _ _ _ _ hn, aget_aset_ne _ _ _ _ hn⟩
    · intro hlt
      rw [aget_aset_self _ _ _ (by omega), aget_aset_self _ _ _ (by omega)]
      exact ⟨Nat.le_refl _, Nat.le_refl _⟩
  · have hw : writeOut newA newD sc o = sc := by
      unfold writeOut; rw [if_neg hc]
    simp only [hw]
    refine ⟨⟨hs1, hs2⟩, fun n => Or.inl ⟨trivial, trivial⟩, ?_, Or.inr trivial, fun h => h⟩
    intro _
    simp only [Bool.or_eq_true, decide_eq_true_eq, not_or] at hc
    omega

/-- What the inner `for &d in &rp.data` loop (one iteration for a cell) does to the two arrays. -/
theorem outs_spec (newA newD N : Nat) (os : List Nat) (sc : TState × Bool) (hsz : sc.1.Sized N) :
    let r := os.foldl (writeOut newA newD) sc
    r.1.Sized N ∧
    (∀ n, (aget r.1.arrival n = aget sc.1.arrival n ∧ aget r.1.depth n = aget sc.1.depth n) ∨
          (n ∈ os ∧ aget r.1.arrival n = newA ∧ aget r.1.depth n = newD)) ∧
    (∀ o ∈ os, o < N → newA ≤ aget r.1.arrival o ∧ newD ≤ aget r.1.depth o) ∧
    (r.2 = true ∨ r = sc) ∧ (sc.2 = true → r.2 = true) := by
  induction os generalizing sc with
  | nil => exact ⟨hsz, fun n => Or.inl ⟨rfl, rfl⟩, fun o h => absurd h List.not_mem_nil, Or.inr rfl, fun h => h⟩
  | cons o os ih =>
    simp only [List.foldl_cons]
    obtain ⟨wsz, wval, wge, wflag, wst⟩ := writeOut_spec newA newD N sc o hsz
    obtain ⟨hs, hval, hge, hflag, hst⟩ := ih (writeOut newA newD sc o) wsz
    refine ⟨hs, ?_, ?_, ?_, fun h => hst (wst h)⟩
    · intro n
      rcases hval n with ⟨h1, h2⟩ | ⟨hm, h1, h2⟩
      · rcases wval n with ⟨g1, g2⟩ | ⟨hn, g1, g2⟩
        · exact Or.inl ⟨h1.trans g1, h2.trans g2⟩
        · exact Or.inr ⟨hn ▸ List.mem_cons_self, h1.trans g1, h2.trans g2⟩
      · exact Or.inr ⟨List.mem_cons_of_mem _ hm, h1, h2⟩
    · intro o' ho' hlt
      cases ho' with
      | head =>
        rcases hval o with ⟨h1, h2⟩ | ⟨_, h1, h2⟩
        · rw [h1, h2]; exact wge hlt
        · rw [h1, h2]; exact ⟨Nat.le_refl _, Nat.le_refl _⟩
      | tail _ hm => exact hge o' hm hlt
    · rcases hflag with h | h
      · exact Or.inl h
      · rw [h]
        rcases wflag with g | g
        · exact Or.inl g
        · exact Or.inr g

theorem outs_nofire (newA newD : Nat) (os : List Nat) (sc : TState × Bool)
    (h : ∀ o ∈ os, newA ≤ aget sc.1.arrival o ∧ newD ≤ aget sc.1.depth o) :
    os.foldl (writeOut newA newD) sc = sc := by
  induction os with
  | nil => rfl
  | cons o os ih =>
    simp only [List.foldl_cons]
    have hw : writeOut newA newD sc o = sc := by
      unfold writeOut
      have := h o List.mem_cons_self
      rw [if_neg]
      simp only [Bool.or_eq_true, decide_eq_true_eq, not_or]
      omega
    rw [hw]
    exact ih (fun o' ho' => h o' (List.mem_cons_of_mem _ ho'))

/-- A channel of the sweep: which array it is about and which weight it accumulates. -/
structure Chan where
  get : TState → Array Nat
  wt : TNode → Nat

def chArr : Chan := ⟨fun st => st.arrival, fun nd => nd.delay⟩
def chDep : Chan := ⟨fun st => st.depth, fun nd => nd.dinc⟩

def Chan.val (c : Chan) (st : TState) (n : Nat) : Nat := aget (c.get st) n
/-- `new_arr` / `new_depth` of a node in a state. -/
def Chan.new (c : Chan) (st : TState) (nd : TNode) : Nat := maxIn (c.get st) nd.inputs + c.wt nd

/-- What `nodeStep` does to a channel: every entry is kept or (on a driven net) set to the new
    value, and after the step every driven net carries at least the new value. -/
def Chan.Ok (c : Chan) : Prop :=
  ∀ (N : Nat) (sc : TState × Bool) (nd : TNode), sc.1.Sized N →
    (∀ n, c.val (nodeStep sc nd).1 n = c.val sc.1 n ∨
          (n ∈ nd.outputs ∧ c.val (nodeStep sc nd).1 n = c.new sc.1 nd)) ∧
    (∀ o ∈ nd.outputs, o < N → c.new sc.1 nd ≤ c.val (nodeStep sc nd).1 o)

theorem chArr_ok : chArr.Ok := by
  intro N sc nd hsz
  obtain ⟨_, hval, hge, _, _⟩ :=
    outs_spec (maxIn sc.1.arrival nd.inputs + nd.delay) (maxIn sc.1.depth nd.inputs + nd.dinc) N nd.outputs sc hsz
  refine ⟨fun n => ?_, fun o ho hlt => (hge o ho hlt).1⟩
  rcases hval n with ⟨h1, _⟩ | ⟨hm, h1, _⟩
  · exact Or.inl h1
  · exact Or.inr ⟨hm, h1⟩

theorem chDep_ok : chDep.Ok := by
  intro N sc nd hsz
  obtain ⟨_, hval, hge, _, _⟩ :=
    outs_spec (maxIn sc.1.arrival nd.inputs + nd.delay) (maxIn sc.1.depth nd.inputs + nd.dinc) N nd.outputs sc hsz
  refine ⟨fun n => ?_, fun o ho hlt => (hge o ho hlt).2⟩
  rcases hval n with ⟨_, h2⟩ | ⟨hm, _, h2⟩
  · exact Or.inl h2
  · exact Or.inr ⟨hm, h2⟩

theorem nodeStep_sized (N : Nat) (sc : TState × Bool) (nd : TNode) (h : sc.1.Sized N) :
    (nodeStep sc nd).1.Sized N :=
  (outs_spec _ _ N nd.outputs sc h).1

theorem nodeStep_flag (N : Nat) (sc : TState × Bool) (nd : TNode) (h : sc.1.Sized N) :
    (nodeStep sc nd).2 = true ∨ nodeStep sc nd = sc :=
  (outs_spec _ _ N nd.outputs sc h).2.2.2.1

theorem nodeStep_sticky (N : Nat) (sc : TState × Bool) (nd : TNode) (h : sc.1.Sized N) (hf : sc.2 = true) :
    (nodeStep sc nd).2 = true :=
  (outs_spec _ _ N nd.outputs sc h).2.2.2.2 hf

/-- A node whose driven nets already carry its new values changes nothing. -/
theorem nodeStep_nofire (sc : TState × Bool) (nd : TNode)
    (h : ∀ o ∈ nd.outputs, chArr.new sc.1 nd ≤ chArr.val sc.1 o ∧ chDep.new sc.1 nd ≤ chDep.val sc.1 o) :
    nodeStep sc nd = sc :=
  outs_nofire _ _ nd.outputs sc h

/-! ## paths -/

/-- `PathTo nodes wt n w`: there is a path of total weight `w` ending at net `n` (every hop goes
    from an input of a node to one of its outputs and costs the node's weight). -/
inductive PathTo (nodes : List TNode) (wt : TNode → Nat) : Nat → Nat → Prop
  | start (n : Nat) : PathTo nodes wt n 0
  | step {nd : TNode} {i o w : Nat} : nd ∈ nodes → i ∈ nd.inputs → o ∈ nd.outputs →
      PathTo nodes wt i w → PathTo nodes wt o (w + wt nd)

/-- `v` is the weight of the heaviest path ending at `n`. -/
def IsLongest (nodes : List TNode) (wt : TNode → Nat) (n v : Nat) : Prop :=
  PathTo nodes wt n v ∧ ∀ w, PathTo nodes wt n w → w ≤ v

/-- Every entry of the channel is the weight of some path (an invariant of the sweep). -/
def Ach (c : Chan) (nodes : List TNode) (st : TState) : Prop :=
  ∀ n, PathTo nodes c.wt n (c.val st n)

/-- No node would raise an entry (what `changed = false` means for one channel). -/
def Closed (c : Chan) (nodes : List TNode) (st : TState) : Prop :=
  ∀ nd ∈ nodes, ∀ o ∈ nd.outputs, c.new st nd ≤ c.val st o

theorem ach_step (c : Chan) (hc : c.Ok) (nodes : List TNode) (N : Nat) (sc : TState × Bool) (nd : TNode)
    (hsz : sc.1.Sized N) (hnd : nd ∈ nodes) (hne : nd.inputs ≠ []) (h : Ach c nodes sc.1) :
    Ach c nodes (nodeStep sc nd).1 := by
  intro n
  rcases (hc N sc nd hsz).1 n with h1 | ⟨hm, h1⟩
  · rw [h1]; exact h n
  · rw [h1]
    obtain ⟨i, hi, hmax⟩ := maxIn_attained (c.get sc.1) nd.inputs hne
    unfold Chan.new
    rw [hmax]
    exact PathTo.step hnd hi hm (h i)

theorem closed_longest (c : Chan) (nodes : List TNode) (st : TState) (h : Closed c nodes st)
    (n w : Nat) (p : PathTo nodes c.wt n w) : w ≤ c.val st n := by
  induction p with
  | start n => exact Nat.zero_le _
  | @step nd i o w hnd hi ho _ ih =>
    have h1 := h nd hnd o ho
    have h2 := maxIn_ge (c.get st) nd.inputs i hi
    unfold Chan.new at h1
    unfold Chan.val at ih
    omega

theorem ach_closed_longest (c : Chan) (nodes : List TNode) (st : TState)
    (ha : Ach c nodes st) (hcl : Closed c nodes st) (n : Nat) :
    IsLongest nodes c.wt n (c.val st n) :=
  ⟨ha n, fun w p => closed_longest c nodes st hcl n w p⟩

/-! ## one pass -/

theorem foldl_nodeStep_sized (N : Nat) (l : List TNode) (sc : TState × Bool) (h : sc.1.Sized N) :
    (l.foldl nodeStep sc).1.Sized N := by
  induction l generalizing sc with
  | nil => exact h
  | cons nd l ih => exact ih _ (nodeStep_sized N sc nd h)

/-- `changed = false` after the pass: nothing was written and no node would fire. -/
theorem foldl_unchanged (N : Nat) (l : List TNode) (st st' : TState) (b : Bool) (hsz : st.Sized N)
    (h : l.foldl nodeStep (st, b) = (st', false)) :
    b = false ∧ st' = st ∧ ∀ nd ∈ l, nodeStep (st, false) nd = (st, false) := by
  induction l generalizing st b with
  | nil =>
    simp only [List.foldl_nil, Prod.mk.injEq] at h
    exact ⟨h.2, h.1.symm, fun nd hnd => absurd hnd List.not_mem_nil⟩
  | cons nd l ih =>
    simp only [List.foldl_cons] at h
    have hr : nodeStep (st, b) nd = ((nodeStep (st, b) nd).1, (nodeStep (st, b) nd).2) := rfl
    rw [hr] at h
    obtain ⟨h1, h2, h3⟩ := ih _ _ (nodeStep_sized N (st, b) nd hsz) h
    rcases nodeStep_flag N (st, b) nd hsz with hf | hf
    · rw [hf] at h1; exact absurd h1 (by simp)
    · rw [hf] at h1 h2 h3
      simp only at h1 h2 h3
      subst h1
      refine ⟨rfl, h2, fun nd' hnd' => ?_⟩
      cases hnd' with
      | head => exact hf
      | tail _ hm => exact h3 nd' hm

theorem pass_unchanged_closed (c : Chan) (hc : c.Ok) (N : Nat) (nodes : List TNode) (st st' : TState)
    (hsz : st.Sized N) (hr : ∀ nd ∈ nodes, ∀ o ∈ nd.outputs, o < N)
    (h : pass nodes st = (st', false)) : st' = st ∧ Closed c nodes st := by
  obtain ⟨_, h2, h3⟩ := foldl_unchanged N nodes st st' false hsz h
  refine ⟨h2, fun nd hnd o ho => ?_⟩
  have := (hc N (st, false) nd hsz).2 o ho (hr nd hnd o ho)
  rw [h3 nd hnd] at this
  exact this

/-- The facts about the graph the termination argument uses. -/
structure Layered (nodes : List TNode) (N : Nat) (rank : Nat → Nat) : Prop where
  ranked : ∀ nd ∈ nodes, ∀ i ∈ nd.inputs, ∀ o ∈ nd.outputs, rank i < rank o
  unique : ∀ nd ∈ nodes, ∀ nd' ∈ nodes, ∀ o, o ∈ nd.outputs → o ∈ nd'.outputs → nd = nd'
  nonempty : ∀ nd ∈ nodes, nd.inputs ≠ []
  inRange : ∀ nd ∈ nodes, ∀ o ∈ nd.outputs, o < N

/-- The equation of every node holds on the nets of rank below `k`. -/
def Settled (c : Chan) (nodes : List TNode) (rank : Nat → Nat) (k : Nat) (st : TState) : Prop :=
  ∀ nd ∈ nodes, ∀ o ∈ nd.outputs, rank o < k → c.val st o = c.new st nd

theorem settled_longest (c : Chan) (nodes : List TNode) (N : Nat) (rank : Nat → Nat)
    (g : Layered nodes N rank) (k : Nat) (st : TState) (hq : Settled c nodes rank k st)
    (n w : Nat) (p : PathTo nodes c.wt n w) (hn : rank n < k) : w ≤ c.val st n := by
  induction p with
  | start n => exact Nat.zero_le _
  | @step nd i o w hnd hi ho _ ih =>
    have hlt := g.ranked nd hnd i hi o ho
    have h1 := ih (by omega)
    have h2 := maxIn_ge (c.get st) nd.inputs i hi
    have h3 := hq nd hnd o ho hn
    unfold Chan.new at h3
    unfold Chan.val at h1 h3 ⊢
    omega

theorem new_congr (c : Chan) (s t : TState) (nd : TNode)
    (h : ∀ i ∈ nd.inputs, c.val s i = c.val t i) : c.new s nd = c.new t nd := by
  unfold Chan.new
  rw [maxIn_congr (c.get s) (c.get t) nd.inputs h]

/-- The pass, node by node: nets below rank `k` stay as they are, and every processed node whose
    outputs have rank `≤ k` ends with its equation satisfied. -/
theorem layer_fold (c : Chan) (hc : c.Ok) (nodes : List TNode) (N : Nat) (rank : Nat → Nat)
    (g : Layered nodes N rank) (k : Nat) (st0 : TState) (hq : Settled c nodes rank k st0)
    (suf pre : List TNode) (s : TState × Bool) (hsplit : nodes = pre ++ suf)
    (hsz : s.1.Sized N) (ha : Ach c nodes s.1)
    (hfr : ∀ n, rank n < k → c.val s.1 n = c.val st0 n)
    (hdone : ∀ nd ∈ pre, ∀ o ∈ nd.outputs, rank o < k + 1 → c.val s.1 o = c.new s.1 nd) :
    Ach c nodes (suf.foldl nodeStep s).1 ∧
    (∀ n, rank n < k → c.val (suf.foldl nodeStep s).1 n = c.val st0 n) ∧
    (∀ nd ∈ nodes, ∀ o ∈ nd.outputs, rank o < k + 1 →
        c.val (suf.foldl nodeStep s).1 o = c.new (suf.foldl nodeStep s).1 nd) := by
  induction suf generalizing pre s with
  | nil =>
    simp only [List.foldl_nil]
    rw [List.append_nil] at hsplit
    exact ⟨ha, hfr, fun nd hnd => hdone nd (hsplit ▸ hnd)⟩
  | cons nd suf ih =>
    simp only [List.foldl_cons]
    have hnd : nd ∈ nodes := by rw [hsplit]; simp
    obtain ⟨hval, hge⟩ := hc N s nd hsz
    -- frozen nets stay frozen
    have hfr' : ∀ n, rank n < k → c.val (nodeStep s nd).1 n = c.val st0 n := by
      intro n hn
      rcases hval n with h1 | ⟨hm, h1⟩
      · rw [h1]; exact hfr n hn
      · rw [h1, ← hfr n hn]
        have e0 := hq nd hnd n hm hn
        rw [hfr n hn, e0]
        exact new_congr c s.1 st0 nd (fun i hi => hfr i (by have := g.ranked nd hnd i hi n hm; omega))
    have hfrz : ∀ nd' ∈ nodes, ∀ o ∈ nd'.outputs, rank o < k + 1 →
        c.new (nodeStep s nd).1 nd' = c.new s.1 nd' := by
      intro nd' hnd' o ho hk
      apply new_congr
      intro i hi
      have := g.ranked nd' hnd' i hi o ho
      rw [hfr' i (by omega), hfr i (by omega)]
    refine ih (pre ++ [nd]) (nodeStep s nd) (by rw [hsplit]; simp) (nodeStep_sized N s nd hsz)
      (ach_step c hc nodes N s nd hsz hnd (g.nonempty nd hnd) ha) hfr' ?_
    intro nd' hnd' o ho hk
    rw [hfrz nd' (by rw [hsplit]; simp at hnd' ⊢; rcases hnd' with h | h; exact Or.inl h; exact Or.inr (Or.inl h)) o ho hk]
    rcases List.mem_append.mp hnd' with hp | hp
    · -- processed earlier: only `nd` itself could write `o`, with the same value
      rcases hval o with h1 | ⟨hm, h1⟩
      · rw [h1]; exact hdone nd' hp o ho hk
      · have : nd' = nd := g.unique nd' (by rw [hsplit]; exact List.mem_append_left _ hp) nd hnd o ho hm
        rw [h1, this]
    · -- the node just processed
      have hnd'eq : nd' = nd := by simpa using hp
      subst hnd'eq
      rcases hval o with h1 | ⟨_, h1⟩
      · -- not written: it already carried at least the new value; it cannot carry more
        have hlow := hge o ho (g.inRange nd' hnd o ho)
        rw [h1] at hlow ⊢
        apply Nat.le_antisymm _ hlow
        -- the stored value is the weight of a path, whose last hop is through `nd'`
        have hpath := ha o
        generalize hv : c.val s.1 o = v at hpath
        cases hpath with
        | start => exact Nat.zero_le _
        | @step nd2 i _ w hnd2 hi2 ho2 p2 =>
          have e : nd2 = nd' := g.unique nd2 hnd2 nd' hnd o ho2 ho
          subst e
          have hri := g.ranked nd2 hnd i hi2 o ho
          have hset : Settled c nodes rank k s.1 := by
            intro nd3 hnd3 o3 ho3 hk3
            rw [hfr o3 hk3, hq nd3 hnd3 o3 ho3 hk3]
            exact (new_congr c s.1 st0 nd3 (fun i3 hi3 => hfr i3 (by
              have := g.ranked nd3 hnd3 i3 hi3 o3 ho3; omega))).symm
          have hw := settled_longest c nodes N rank g k s.1 hset i w p2 (by omega)
          have hmx := maxIn_ge (c.get s.1) nd2.inputs i hi2
          unfold Chan.new
          unfold Chan.val at hw
          omega
      · exact h1

theorem layer_pass (c : Chan) (hc : c.Ok) (nodes : List TNode) (N : Nat) (rank : Nat → Nat)
    (g : Layered nodes N rank) (k : Nat) (st0 : TState) (hsz : st0.Sized N)
    (ha : Ach c nodes st0) (hq : Settled c nodes rank k st0) :
    Ach c nodes (pass nodes st0).1 ∧ Settled c nodes rank (k + 1) (pass nodes st0).1 := by
  obtain ⟨h1, _, h3⟩ := layer_fold c hc nodes N rank g k st0 hq nodes [] (st0, false) rfl hsz ha
    (fun _ _ => rfl) (fun nd hnd => absurd hnd List.not_mem_nil)
  exact ⟨h1, h3⟩

theorem foldl_fixed {α β : Type} (f : α → β → α) (l : List β) (a : α) (h : ∀ b ∈ l, f a b = a) :
    l.foldl f a = a := by
  induction l with
  | nil => rfl
  | cons b l ih =>
    simp only [List.foldl_cons]
    rw [h b List.mem_cons_self]
    exact ih (fun b' hb' => h b' (List.mem_cons_of_mem _ hb'))

/-- Once every equation holds, a pass changes nothing. -/
theorem pass_settled (nodes : List TNode) (rank : Nat → Nat) (K : Nat) (st : TState)
    (hK : ∀ nd ∈ nodes, ∀ o ∈ nd.outputs, rank o < K)
    (h1 : Settled chArr nodes rank K st) (h2 : Settled chDep nodes rank K st) :
    pass nodes st = (st, false) := by
  unfold pass
  apply foldl_fixed
  intro nd hnd
  apply nodeStep_nofire
  intro o ho
  have e1 := h1 nd hnd o ho (hK nd hnd o ho)
  have e2 := h2 nd hnd o ho (hK nd hnd o ho)
  exact ⟨Nat.le_of_eq e1.symm, Nat.le_of_eq e2.symm⟩

theorem pass_sized (N : Nat) (nodes : List TNode) (st : TState) (h : st.Sized N) :
    (pass nodes st).1.Sized N := foldl_nodeStep_sized N nodes (st, false) h

/-- The `while changed` loop stops within `R + 2` sweeps when all ranks of driven nets are `≤ R`,
    in a state where no node would fire and every entry is the weight of a path. -/
theorem iterate_terminates (nodes : List TNode) (N : Nat) (rank : Nat → Nat) (g : Layered nodes N rank)
    (R : Nat) (hR : ∀ nd ∈ nodes, ∀ o ∈ nd.outputs, rank o ≤ R)
    (fuel j : Nat) (st0 : TState) (hfuel : 1 ≤ fuel) (hj : R + 2 ≤ fuel + j) (hsz : st0.Sized N)
    (ha1 : Ach chArr nodes st0) (ha2 : Ach chDep nodes st0)
    (hq1 : Settled chArr nodes rank j st0) (hq2 : Settled chDep nodes rank j st0) :
    ∃ st, iterate nodes fuel st0 = some st ∧ st.Sized N ∧
      Ach chArr nodes st ∧ Ach chDep nodes st ∧ Closed chArr nodes st ∧ Closed chDep nodes st := by
  induction fuel generalizing j st0 with
  | zero => omega
  | succ fuel ih =>
    unfold iterate
    simp only
    have hps := pass_sized N nodes st0 hsz
    obtain ⟨hb1, hs1⟩ := layer_pass chArr chArr_ok nodes N rank g j st0 hsz ha1 hq1
    obtain ⟨hb2, hs2⟩ := layer_pass chDep chDep_ok nodes N rank g j st0 hsz ha2 hq2
    by_cases hch : (pass nodes st0).2 = true
    · rw [if_pos hch]
      -- a change means that not all equations held yet: j ≤ R
      have hjR : j ≤ R := by
        apply Nat.le_of_not_lt
        intro hlt
        have := pass_settled nodes rank j st0 (fun nd hnd o ho => by have := hR nd hnd o ho; omega) hq1 hq2
        rw [this] at hch
        exact absurd hch (by simp)
      exact ih (j + 1) (pass nodes st0).1 (by omega) (by omega) hps hb1 hb2 hs1 hs2
    · rw [if_neg hch]
      have hfalse : (pass nodes st0).2 = false := by
        cases h : (pass nodes st0).2 with
        | true => exact absurd h hch
        | false => rfl
      have heq : pass nodes st0 = ((pass nodes st0).1, false) := by rw [← hfalse]
      obtain ⟨e1, c1⟩ := pass_unchanged_closed chArr chArr_ok N nodes st0 _ hsz g.inRange heq
      obtain ⟨_, c2⟩ := pass_unchanged_closed chDep chDep_ok N nodes st0 _ hsz g.inRange heq
      refine ⟨(pass nodes st0).1, rfl, hps, hb1, hb2, ?_, ?_⟩
      · rw [e1]; exact c1
      · rw [e1]; exact c2

theorem initT_sized (n : Nat) : (initT n).Sized n := by
  unfold initT TState.Sized; simp

theorem initT_ach (c : Chan) (hc : c = chArr ∨ c = chDep) (nodes : List TNode) (n : Nat) :
    Ach c nodes (initT n) := by
  intro k
  have : c.val (initT n) k = 0 := by
    rcases hc with h | h <;> subst h <;> simp [Chan.val, chArr, chDep, initT, aget_replicate]
  rw [this]
  exact PathTo.start k

/-- **The sweep on an abstract node list.** With a rank certificate bounded by the number of nodes,
    one writer per net, non-empty fan-ins and in-range outputs, the fuel of `timingFuel` suffices
    and the result holds the heaviest path weight of both channels at every net. -/
theorem sweep_nodes (nodes : List TNode) (N : Nat) (rank : Nat → Nat) (g : Layered nodes N rank)
    (hR : ∀ nd ∈ nodes, ∀ o ∈ nd.outputs, rank o ≤ nodes.length) (fuel : Nat)
    (hfuel : timingFuel nodes ≤ fuel) :
    ∃ st, iterate nodes fuel (initT N) = some st ∧
      ∀ n, IsLongest nodes (fun nd => nd.delay) n (aget st.arrival n) ∧
           IsLongest nodes (fun nd => nd.dinc) n (aget st.depth n) := by
  unfold timingFuel at hfuel
  obtain ⟨st, h1, _, a1, a2, c1, c2⟩ := iterate_terminates nodes N rank g nodes.length hR fuel 0 (initT N)
    (by omega) (by omega) (initT_sized N) (initT_ach chArr (Or.inl rfl) nodes N)
    (initT_ach chDep (Or.inr rfl) nodes N)
    (fun nd hnd o ho hk => absurd hk (Nat.not_lt_zero _))
    (fun nd hnd o ho hk => absurd hk (Nat.not_lt_zero _))
  exact ⟨st, h1, fun n => ⟨ach_closed_longest chArr nodes st a1 c1 n, ach_closed_longest chDep nodes st a2 c2 n⟩⟩

/-! ## soundness of the decidable well-formedness test -/

theorem markAll_sound (seen seen' : Array Bool) (l : List Nat) (h : markAll seen l = some seen') :
    l.Nodup ∧ (∀ n ∈ l, n < seen.size ∧ bget seen n = false) ∧ seen'.size = seen.size ∧
    (∀ n, bget seen' n = true ↔ (n ∈ l ∨ bget seen n = true)) := by
  induction l generalizing seen with
  | nil =>
    simp only [markAll, Option.some.injEq] at h
    subst h
    exact ⟨List.nodup_nil, fun n hn => absurd hn List.not_mem_nil, rfl, fun n => by simp⟩
  | cons n ns ih =>
    unfold markAll at h
    by_cases hlt : n < seen.size
    · rw [if_pos hlt] at h
      by_cases hs : bget seen n = true
      · rw [if_pos hs] at h; cases h
      · rw [if_neg hs] at h
        have hsf : bget seen n = false := by cases hb : bget seen n <;> simp_all
        obtain ⟨hnd, hall, hsize, hiff⟩ := ih (bset seen n true) h
        have hk : ∀ k ∈ ns, k ≠ n ∧ k < seen.size ∧ bget seen k = false := by
          intro k hk
          obtain ⟨h1, h2⟩ := hall k hk
          rw [size_bset] at h1
          rw [bget_bset] at h2
          by_cases e : n = k
          · subst e; simp [hlt] at h2
          · simp [e] at h2; exact ⟨fun e' => e e'.symm, h1, h2⟩
        refine ⟨List.nodup_cons.mpr ⟨fun hm => (hk n hm).1 rfl, hnd⟩, ?_, by rw [hsize, size_bset], ?_⟩
        · intro k hkm
          cases hkm with
          | head => exact ⟨hlt, hsf⟩
          | tail _ hm => exact (hk k hm).2
        · intro k
          rw [hiff k, bget_bset]
          by_cases e : n = k
          · subst e; simp [hlt]
          · simp only [e, false_and, if_false, List.mem_cons]
            constructor
            · rintro (h1 | h1)
              · exact Or.inl (Or.inr h1)
              · exact Or.inr h1
            · rintro ((h1 | h1) | h1)
              · exact absurd h1.symm e
              · exact Or.inl h1
              · exact Or.inr h1
    · rw [if_neg hlt] at h; cases h

theorem bget_replicate_false (n i : Nat) : bget (Array.replicate n false) i = false := by
  unfold bget
  simp only [Array.getD_eq_getD_getElem?, Array.getElem?_replicate]
  split <;> rfl

/-- The combinational graph of a module: (fan-in, driven nets) of every cell, then of every
    asynchronous RAM read port — the node list of the timing sweep without its weights. -/
def ramsEdges : List Ram → List (List Nat × List Nat)
  | [] => []
  | r :: rest => ((r.reads.filter (fun rp => !rp.sync)).map (fun rp => (rp.addr, rp.data))) ++ ramsEdges rest

def combGraph (m : Module) : List (List Nat × List Nat) :=
  m.cells.map (fun c => (c.inputs, [c.output])) ++ ramsEdges m.rams

theorem ramsNodes_edges (p : TParams) (ri : Nat) (rams : List Ram) :
    (ramsNodes p ri rams).map (fun nd => (nd.inputs, nd.outputs)) = ramsEdges rams := by
  induction rams generalizing ri with
  | nil => rfl
  | cons r rest ih =>
    simp only [ramsNodes, ramsEdges, List.map_append, ih, ramNodes, List.map_map]
    rfl

theorem timingNodes_edges (p : TParams) (m : Module) :
    (timingNodes p m).map (fun nd => (nd.inputs, nd.outputs)) = combGraph m := by
  simp only [timingNodes, combGraph, List.map_append, ramsNodes_edges, List.map_map]
  rfl

theorem timingNodes_length (p : TParams) (m : Module) : (timingNodes p m).length = (combGraph m).length := by
  rw [← timingNodes_edges p m, List.length_map]

theorem timingNodes_edge_mem (p : TParams) (m : Module) (nd : TNode) (h : nd ∈ timingNodes p m) :
    (nd.inputs, nd.outputs) ∈ combGraph m := by
  rw [← timingNodes_edges p m]
  exact List.mem_map_of_mem h

/-- Declarative well-formedness (the meaning of `wf m = true`). -/
structure WF (m : Module) : Prop where
  consts : 2 ≤ m.nNets
  /-- every reading pin names an existing net -/
  usedInRange : ∀ n ∈ usedNets m, n < m.nNets
  /-- every driving pin names an existing net -/
  driverInRange : ∀ n ∈ driverNets m, n < m.nNets
  /-- no net is driven twice (the list of driving pins has no repetition) … -/
  oneDriver : (driverNets m).Nodup
  /-- … and every used net is driven: exactly one driver per used net -/
  usedDriven : ∀ n ∈ usedNets m, n ∈ driverNets m
  arity : ∀ c ∈ m.cells, c.inputs.length = c.kind.arity
  ramShape : ∀ r ∈ m.rams, ramShapeOk r = true
  table : tableOk m = true
  /-- no combinational cycle: a rank function strictly increasing along every cell and every
      asynchronous RAM read, bounded by the number of such nodes -/
  acyclic : ∃ rank : Nat → Nat, ∀ e ∈ combGraph m,
      (∀ o ∈ e.2, rank o ≤ (combGraph m).length) ∧ (∀ i ∈ e.1, ∀ o ∈ e.2, rank i < rank o)

theorem rankedBy_sound (lv : Array Nat) (nodes : List TNode) (h : rankedBy lv nodes = true) :
    ∀ nd ∈ nodes, (∀ o ∈ nd.outputs, aget lv o ≤ nodes.length) ∧
      (∀ i ∈ nd.inputs, ∀ o ∈ nd.outputs, aget lv i < aget lv o) := by
  intro nd hnd
  unfold rankedBy at h
  rw [List.all_eq_true] at h
  have h1 := h nd hnd
  rw [List.all_eq_true] at h1
  constructor
  · intro o ho
    have h2 := h1 o ho
    simp only [Bool.and_eq_true, decide_eq_true_eq] at h2
    exact h2.1
  · intro i hi o ho
    have h2 := h1 o ho
    simp only [Bool.and_eq_true, decide_eq_true_eq, List.all_eq_true] at h2
    exact h2.2 i hi

theorem wf_sound (m : Module) (h : wf m = true) : WF m := by
  unfold wf at h
  simp only [Bool.and_eq_true, decide_eq_true_eq] at h
  obtain ⟨⟨⟨⟨⟨⟨h1, h2⟩, h3⟩, h4⟩, h5⟩, h6⟩, h7⟩ := h
  -- drivers
  unfold driversOk at h4
  cases hm : markAll (Array.replicate m.nNets false) (driverNets m) with
  | none => rw [hm] at h4; cases h4
  | some seen =>
    rw [hm] at h4
    simp only at h4
    obtain ⟨hnd, hall, _, hiff⟩ := markAll_sound _ _ _ hm
    -- acyclicity
    unfold acyclicCheck at h7
    cases hl : levels m with
    | none => rw [hl] at h7; cases h7
    | some lv =>
      rw [hl] at h7
      simp only at h7
      have hr := rankedBy_sound lv _ h7
      refine
        { consts := h1
          usedInRange := ?_
          driverInRange := ?_
          oneDriver := hnd
          usedDriven := ?_
          arity := ?_
          ramShape := ?_
          table := h6
          acyclic := ⟨fun n => aget lv n, ?_⟩ }
      · intro n hn
        unfold inRangeOk at h2
        rw [List.all_eq_true] at h2
        simpa using h2 n hn
      · intro n hn
        have := (hall n hn).1
        simpa using this
      · intro n hn
        rw [List.all_eq_true] at h4
        have := (hiff n).mp (h4 n hn)
        rcases this with h | h
        · exact h
        · rw [bget_replicate_false] at h; cases h
      · intro c hc
        unfold arityOk at h3
        rw [List.all_eq_true] at h3
        simpa using h3 c hc
      · intro r hr'
        rw [List.all_eq_true] at h5
        exact h5 r hr'
      · intro e he
        rw [← timingNodes_edges unitParams m] at he
        obtain ⟨nd, hnd', rfl⟩ := List.mem_map.mp he
        have := hr nd hnd'
        rw [timingNodes_length] at this
        exact this

/-! ## from `WF` to the hypotheses of the sweep theorem -/

theorem flatMap_filter_sublist {α β : Type} (p : α → Bool) (f : α → List β) (l : List α) :
    ((l.filter p).flatMap f).Sublist (l.flatMap f) := by
  induction l with
  | nil => exact List.Sublist.refl _
  | cons a l ih =>
    simp only [List.filter_cons, List.flatMap_cons]
    split
    · simp only [List.flatMap_cons]
      exact List.Sublist.append (List.Sublist.refl _) ih
    · exact ih.trans (List.sublist_append_right _ _)

theorem ramsEdges_outputs_sublist (rams : List Ram) :
    ((ramsEdges rams).flatMap (·.2)).Sublist (rams.flatMap (fun r => r.reads.flatMap (·.data))) := by
  induction rams with
  | nil => exact List.Sublist.refl _
  | cons r rest ih =>
    simp only [ramsEdges, List.flatMap_append, List.flatMap_cons, List.flatMap_map]
    exact List.Sublist.append (flatMap_filter_sublist _ _ _) ih

theorem combGraph_outputs_sublist (m : Module) :
    ((combGraph m).flatMap (·.2)).Sublist (driverNets m) := by
  unfold combGraph driverNets
  simp only [List.flatMap_append, List.flatMap_map]
  have h1 : (List.flatMap (fun a : Cell => [a.output]) m.cells) = m.cells.map (·.output) := by
    induction m.cells with
    | nil => rfl
    | cons c cs ih => simp [List.flatMap_cons, ih]
  rw [h1]
  have hA : (m.cells.map (·.output)).Sublist ([0, 1] ++ m.cells.map (·.output) ++ m.ffs.map (·.q)) :=
    (List.sublist_append_right _ _).trans (List.sublist_append_left _ _)
  have hC := (ramsEdges_outputs_sublist m.rams).trans
    (List.sublist_append_left _ ((m.ports.filter (fun p => p.dir != .output)).flatMap (·.nets)))
  have := List.Sublist.append hA hC
  simpa [List.append_assoc] using this

theorem nodup_flatMap_unique {α β : Type} (f : α → List β) (l : List α) (h : (l.flatMap f).Nodup)
    (a b : α) (ha : a ∈ l) (hb : b ∈ l) (o : β) (hoa : o ∈ f a) (hob : o ∈ f b) : a = b := by
  induction l with
  | nil => cases ha
  | cons x xs ih =>
    simp only [List.flatMap_cons] at h
    obtain ⟨_, h2, h3⟩ := List.nodup_append.mp h
    cases ha with
    | head =>
      cases hb with
      | head => rfl
      | tail _ hb' => exact absurd rfl (h3 o hoa o (List.mem_flatMap.mpr ⟨b, hb', hob⟩))
    | tail _ ha' =>
      cases hb with
      | head => exact absurd rfl (h3 o hob o (List.mem_flatMap.mpr ⟨a, ha', hoa⟩))
      | tail _ hb' => exact ih h2 ha' hb'

theorem timingNodes_outputs (p : TParams) (m : Module) :
    (timingNodes p m).flatMap (·.outputs) = (combGraph m).flatMap (·.2) := by
  rw [← timingNodes_edges p m, List.flatMap_map]

theorem arity_pos (k : CellKind) : 1 ≤ k.arity := by cases k <;> decide

theorem ramsEdges_addr_nonempty (rams : List Ram) (h : ∀ r ∈ rams, ramShapeOk r = true) :
    ∀ e ∈ ramsEdges rams, e.1 ≠ [] := by
  induction rams with
  | nil => intro e he; cases he
  | cons r rest ih =>
    intro e he
    simp only [ramsEdges, List.mem_append, List.mem_map, List.mem_filter] at he
    rcases he with ⟨rp, ⟨hrp, _⟩, rfl⟩ | he
    · have hs := h r List.mem_cons_self
      unfold ramShapeOk at hs
      simp only [Bool.and_eq_true, List.all_eq_true, decide_eq_true_eq] at hs
      have := (hs.1 rp hrp).1
      intro hnil
      simp only at hnil
      rw [hnil] at this
      simp at this
    · exact ih (fun r' hr' => h r' (List.mem_cons_of_mem _ hr')) e he

/-- A well-formed module gives the sweep what it needs, for every timing data `p`. -/
theorem wf_layered (m : Module) (h : WF m) (p : TParams) :
    ∃ rank : Nat → Nat, Layered (timingNodes p m) m.nNets rank ∧
      ∀ nd ∈ timingNodes p m, ∀ o ∈ nd.outputs, rank o ≤ (timingNodes p m).length := by
  obtain ⟨rank, hr⟩ := h.acyclic
  have hnd : ((timingNodes p m).flatMap (·.outputs)).Nodup := by
    rw [timingNodes_outputs]
    exact (combGraph_outputs_sublist m).nodup h.oneDriver
  refine ⟨rank, ⟨?_, ?_, ?_, ?_⟩, ?_⟩
  · intro nd hn i hi o ho
    exact (hr _ (timingNodes_edge_mem p m nd hn)).2 i hi o ho
  · intro nd hn nd' hn' o ho ho'
    exact nodup_flatMap_unique _ _ hnd nd nd' hn hn' o ho ho'
  · intro nd hn
    have he := timingNodes_edge_mem p m nd hn
    unfold combGraph at he
    rcases List.mem_append.mp he with hc | hrm
    · obtain ⟨c, hc', hceq⟩ := List.mem_map.mp hc
      have ha := h.arity c hc'
      have hp := arity_pos c.kind
      simp only [Prod.mk.injEq] at hceq
      intro hnil
      rw [← hceq.1] at hnil
      rw [hnil] at ha
      simp at ha
      omega
    · exact ramsEdges_addr_nonempty m.rams h.ramShape _ hrm
  · intro nd hn o ho
    apply h.driverInRange
    apply (combGraph_outputs_sublist m).subset
    rw [← timingNodes_outputs p m]
    exact List.mem_flatMap.mpr ⟨nd, hn, ho⟩
  · intro nd hn o ho
    rw [timingNodes_length]
    exact (hr _ (timingNodes_edge_mem p m nd hn)).1 o ho

theorem isLongest_unique (nodes : List TNode) (wt : TNode → Nat) (n v w : Nat)
    (hv : IsLongest nodes wt n v) (hw : IsLongest nodes wt n w) : v = w :=
  Nat.le_antisymm (hw.2 v hv.1) (hv.2 w hw.1)

/-! ## endpoint choice -/

theorem pickEndpoint_none (arr : Array Nat) (l : List Nat) : pickEndpoint arr l = none ↔ l = [] := by
  cases l with
  | nil => simp [pickEndpoint]
  | cons e rest =>
    simp only [pickEndpoint]
    cases pickEndpoint arr rest with
    | none => simp
    | some b => by_cases h : better arr b e = true <;> simp [h]

/-- The chosen endpoint has the largest arrival, and the smallest net id among those. -/
theorem pickEndpoint_spec (arr : Array Nat) (l : List Nat) (e : Nat) (h : pickEndpoint arr l = some e) :
    e ∈ l ∧ ∀ e' ∈ l, aget arr e' ≤ aget arr e ∧ (aget arr e' = aget arr e → e ≤ e') := by
  induction l generalizing e with
  | nil => simp [pickEndpoint] at h
  | cons x rest ih =>
    simp only [pickEndpoint] at h
    cases hp : pickEndpoint arr rest with
    | none =>
      rw [hp] at h
      simp only [Option.some.injEq] at h
      subst h
      have : rest = [] := (pickEndpoint_none arr rest).mp hp
      subst this
      refine ⟨List.mem_cons_self, fun e' he' => ?_⟩
      cases he' with
      | head => exact ⟨Nat.le_refl _, fun _ => Nat.le_refl _⟩
      | tail _ hm => cases hm
    | some b =>
      rw [hp] at h
      simp only at h
      obtain ⟨hb, hall⟩ := ih b hp
      by_cases hbt : better arr b x = true
      · rw [if_pos hbt] at h
        simp only [Option.some.injEq] at h
        subst h
        refine ⟨List.mem_cons_of_mem _ hb, fun e' he' => ?_⟩
        cases he' with
        | head =>
          unfold better at hbt
          simp only [Bool.or_eq_true, decide_eq_true_eq, Bool.and_eq_true, beq_iff_eq] at hbt
          rcases hbt with h1 | ⟨h1, h2⟩
          · exact ⟨by omega, fun h' => by omega⟩
          · exact ⟨by omega, fun _ => by omega⟩
        | tail _ hm => exact hall e' hm
      · rw [if_neg hbt] at h
        simp only [Option.some.injEq] at h
        subst h
        unfold better at hbt
        simp only [Bool.or_eq_true, decide_eq_true_eq, Bool.and_eq_true, beq_iff_eq, not_or, not_and] at hbt
        refine ⟨List.mem_cons_self, fun e' he' => ?_⟩
        cases he' with
        | head => exact ⟨Nat.le_refl _, fun _ => Nat.le_refl _⟩
        | tail _ hm =>
          obtain ⟨h1, h2⟩ := hall e' hm
          refine ⟨by omega, fun h' => ?_⟩
          have hbe : aget arr b = aget arr x := by omega
          have := h2 (by omega)
          have := hbt.2 hbe
          omega

/-! ## the area loop -/

def rowsArea (l : List (CellKind × Nat × Nat)) : Nat := (l.map (fun r => r.2.2)).sum
def rowsCount (l : List (CellKind × Nat × Nat)) : Nat := (l.map (fun r => r.2.1)).sum

theorem bump_area (k : CellKind) (a : Nat) (l : List (CellKind × Nat × Nat)) :
    rowsArea (bump k a l) = rowsArea l + a := by
  induction l with
  | nil => simp [bump, rowsArea]
  | cons x xs ih =>
    obtain ⟨k', c, s⟩ := x
    unfold bump
    by_cases h : k' = k
    · rw [if_pos h]; simp only [rowsArea, List.map_cons, List.sum_cons]; omega
    · rw [if_neg h]; simp only [rowsArea, List.map_cons, List.sum_cons] at ih ⊢; omega

theorem bump_count (k : CellKind) (a : Nat) (l : List (CellKind × Nat × Nat)) :
    rowsCount (bump k a l) = rowsCount l + 1 := by
  induction l with
  | nil => simp [bump, rowsCount]
  | cons x xs ih =>
    obtain ⟨k', c, s⟩ := x
    unfold bump
    by_cases h : k' = k
    · rw [if_pos h]; simp only [rowsCount, List.map_cons, List.sum_cons]; omega
    · rw [if_neg h]; simp only [rowsCount, List.map_cons, List.sum_cons] at ih ⊢; omega

/-- Every row is (kind, n, n × area of the kind). -/
def RowsExact (lib : CellLib) (l : List (CellKind × Nat × Nat)) : Prop :=
  ∀ r ∈ l, r.2.2 = r.2.1 * lib.area r.1

theorem bump_exact (lib : CellLib) (k : CellKind) (l : List (CellKind × Nat × Nat))
    (h : RowsExact lib l) : RowsExact lib (bump k (lib.area k) l) := by
  induction l with
  | nil =>
    intro r hr
    simp only [bump, List.mem_singleton] at hr
    subst hr
    simp
  | cons x xs ih =>
    obtain ⟨k', c, s⟩ := x
    have hx := h (k', c, s) List.mem_cons_self
    simp only at hx
    unfold bump
    by_cases hk : k' = k
    · rw [if_pos hk]
      intro r hr
      cases hr with
      | head => simp only; subst hk; rw [hx, Nat.add_mul, Nat.one_mul]
      | tail _ hm => exact h r (List.mem_cons_of_mem _ hm)
    · rw [if_neg hk]
      intro r hr
      cases hr with
      | head => exact hx
      | tail _ hm => exact ih (fun r' hr' => h r' (List.mem_cons_of_mem _ hr')) r hm

theorem areaLoop_fold (lib : CellLib) (cells : List Cell) (acc : List (CellKind × Nat × Nat) × Nat)
    (he : RowsExact lib acc.1) :
    let r := cells.foldl (fun acc c => (bump c.kind (lib.area c.kind) acc.1, acc.2 + lib.area c.kind)) acc
    r.2 = acc.2 + (cells.map (fun c => lib.area c.kind)).sum ∧
    rowsArea r.1 = rowsArea acc.1 + (cells.map (fun c => lib.area c.kind)).sum ∧
    rowsCount r.1 = rowsCount acc.1 + cells.length ∧ RowsExact lib r.1 := by
  induction cells generalizing acc with
  | nil => simp; exact he
  | cons c cs ih =>
    simp only [List.foldl_cons]
    obtain ⟨h1, h2, h3, h4⟩ := ih (bump c.kind (lib.area c.kind) acc.1, acc.2 + lib.area c.kind)
      (bump_exact lib c.kind acc.1 he)
    simp only at h1 h2 h3
    rw [bump_area] at h2
    rw [bump_count] at h3
    refine ⟨?_, ?_, ?_, h4⟩
    · rw [h1]; simp only [List.map_cons, List.sum_cons]; omega
    · rw [h2]; simp only [List.map_cons, List.sum_cons]; omega
    · rw [h3]; simp only [List.length_cons]; omega

theorem insertRow_perm (r : CellKind × Nat × Nat) (l : List (CellKind × Nat × Nat)) :
    (insertRow r l).Perm (r :: l) := by
  induction l with
  | nil => exact List.Perm.refl _
  | cons x xs ih =>
    unfold insertRow
    split
    · exact List.Perm.refl _
    · exact (List.Perm.cons x ih).trans (List.Perm.swap r x xs)

theorem sortRows_perm (l : List (CellKind × Nat × Nat)) : (sortRows l).Perm l := by
  induction l with
  | nil => exact List.Perm.refl _
  | cons x xs ih =>
    unfold sortRows
    simp only [List.foldr_cons]
    exact (insertRow_perm x _).trans (List.Perm.cons x ih)

/-! ## the combinational sweep of `settle` ends in a solution of the cell equations -/

theorem setBits_flag (word : Nat) (b : Nat) (data : List Nat) (acc : Array Bool × Bool) :
    ((setBits word b data acc).2 = true ∨ setBits word b data acc = acc) ∧
    (acc.2 = true → (setBits word b data acc).2 = true) := by
  induction data generalizing b acc with
  | nil => exact ⟨Or.inr rfl, fun h => h⟩
  | cons n rest ih =>
    simp only [setBits]
    by_cases hc : (bget acc.1 n == word.testBit b) = true
    · rw [if_pos hc]; exact ih (b + 1) acc
    · rw [if_neg hc]
      obtain ⟨_, h2⟩ := ih (b + 1) (bset acc.1 n (word.testBit b), true)
      exact ⟨Or.inl (h2 rfl), fun _ => h2 rfl⟩

/-- If `setBits` reports no change, every data pin already carries its bit of the word. -/
theorem setBits_unchanged (word : Nat) (b : Nat) (data : List Nat) (env : Array Bool)
    (h : setBits word b data (env, false) = (env, false)) :
    ∀ j (hj : j < data.length), bget env data[j] = word.testBit (b + j) := by
  induction data generalizing b with
  | nil => intro j hj; cases hj
  | cons n rest ih =>
    simp only [setBits] at h
    by_cases hc : (bget env n == word.testBit b) = true
    · rw [if_pos hc] at h
      intro j hj
      cases j with
      | zero => simpa using hc
      | succ j =>
        have := ih (b + 1) h j (by simpa using hj)
        simp only [List.getElem_cons_succ]
        rw [this]
        congr 1
        omega
    · rw [if_neg hc] at h
      have := (setBits_flag word (b + 1) rest (bset env n (word.testBit b), true)).2 rfl
      rw [h] at this
      cases this

theorem cnodeStep_flag (st : State) (ec : Array Bool × Bool) (nd : CNode) :
    ((cnodeStep st ec nd).2 = true ∨ cnodeStep st ec nd = ec) ∧ (ec.2 = true → (cnodeStep st ec nd).2 = true) := by
  cases nd with
  | cell c =>
    simp only [cnodeStep]
    split
    · exact ⟨Or.inr rfl, fun h => h⟩
    · exact ⟨Or.inl rfl, fun _ => rfl⟩
  | read ri rp =>
    simp only [cnodeStep]
    exact setBits_flag _ 0 rp.data ec

theorem cfold_unchanged (st : State) (l : List CNode) (env env' : Array Bool) (b : Bool)
    (h : l.foldl (cnodeStep st) (env, b) = (env', false)) :
    b = false ∧ env' = env ∧ ∀ nd ∈ l, cnodeStep st (env, false) nd = (env, false) := by
  induction l generalizing env b with
  | nil =>
    simp only [List.foldl_nil, Prod.mk.injEq] at h
    exact ⟨h.2, h.1.symm, fun nd hnd => absurd hnd List.not_mem_nil⟩
  | cons nd l ih =>
    simp only [List.foldl_cons] at h
    have hr : cnodeStep st (env, b) nd = ((cnodeStep st (env, b) nd).1, (cnodeStep st (env, b) nd).2) := rfl
    rw [hr] at h
    obtain ⟨h1, h2, h3⟩ := ih _ _ h
    rcases (cnodeStep_flag st (env, b) nd).1 with hf | hf
    · rw [hf] at h1; exact absurd h1 (by simp)
    · rw [hf] at h1 h2 h3
      simp only at h1 h2 h3
      subst h1
      refine ⟨rfl, h2, fun nd' hnd' => ?_⟩
      cases hnd' with
      | head => exact hf
      | tail _ hm => exact h3 nd' hm

theorem citerate_fixpoint (st : State) (nodes : List CNode) (fuel : Nat) (env0 env : Array Bool)
    (h : citerate st nodes fuel env0 = some env) :
    ∀ nd ∈ nodes, cnodeStep st (env, false) nd = (env, false) := by
  induction fuel generalizing env0 with
  | zero => simp [citerate] at h
  | succ fuel ih =>
    simp only [citerate] at h
    by_cases hc : (cpass st nodes env0).2 = true
    · rw [if_pos hc] at h; exact ih _ h
    · rw [if_neg hc] at h
      simp only [Option.some.injEq] at h
      have hfalse : (cpass st nodes env0).2 = false := by
        cases hb : (cpass st nodes env0).2 with
        | true => exact absurd hb hc
        | false => rfl
      have heq : cpass st nodes env0 = (env, false) := by
        rw [← h, ← hfalse]
      obtain ⟨_, h2, h3⟩ := cfold_unchanged st nodes env0 env false heq
      rw [h2]
      exact h3

end VerylModel.Netlist
