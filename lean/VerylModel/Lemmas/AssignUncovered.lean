import VerylModel.Lemmas.AssignTable
/-! Lemmas for the uncovered-branch theorems of C15: bit-level reading of `check_uncoverd{,_n_way}`
and the path invariant behind `uncovered_complete`. -/
namespace VerylModel.AssignTable

theorem uncovered2_iff {s t b : Nat} :
    uncovered2 s t b = true ↔ ∃ i, b.testBit i = false ∧ s.testBit i ≠ t.testBit i := by
  unfold uncovered2
  rw [decide_eq_true_iff, xor_ne_zero_iff]
  constructor
  · rintro ⟨i, hi⟩
    refine ⟨i, ?_⟩
    simp only [Nat.testBit_or] at hi
    revert hi
    cases s.testBit i <;> cases t.testBit i <;> cases b.testBit i <;> simp
  · rintro ⟨i, hb, hi⟩
    refine ⟨i, ?_⟩
    simp only [Nat.testBit_or, hb]
    revert hi
    cases s.testBit i <;> cases t.testBit i <;> simp

theorem foldOr_map_or {ms : List Nat} (b : Nat) (h : ms ≠ []) :
    foldOr (ms.map (· ||| b)) = foldOr ms ||| b := by
  apply Nat.eq_of_testBit_eq
  intro i
  rw [Bool.eq_iff_iff, foldOr_testBit, Nat.testBit_or, Bool.or_eq_true, foldOr_testBit]
  constructor
  · rintro ⟨m, hm, hmi⟩
    obtain ⟨x, hx, rfl⟩ := List.mem_map.mp hm
    rw [Nat.testBit_or, Bool.or_eq_true] at hmi
    rcases hmi with hmi | hmi
    · exact Or.inl ⟨x, hx, hmi⟩
    · exact Or.inr hmi
  · rintro (⟨x, hx, hxi⟩ | hb)
    · exact ⟨x ||| b, List.mem_map.mpr ⟨x, hx, rfl⟩, by simp [Nat.testBit_or, hxi]⟩
    · match ms, h with
      | x :: _, _ => exact ⟨x ||| b, List.mem_map.mpr ⟨x, by simp, rfl⟩, by simp [Nat.testBit_or, hb]⟩

/-- No n-way diagnostic: every branch, joined with the base, equals the union. -/
theorem uncoveredN_false {ms : List Nat} {b : Nat} (h : uncoveredN ms b = false) :
    ∀ x ∈ ms, x ||| b = foldOr ms ||| b := by
  unfold uncoveredN at h
  intro x hx
  by_cases hl : ms.length < 2
  · match ms, hx, hl with
    | [y], hx, _ =>
      simp only [List.mem_singleton] at hx
      subst hx
      simp [foldOr_cons, foldOr_nil]
    | _ :: _ :: _, _, hl => simp at hl; omega
  · simp only [hl, if_false] at h
    have hne : ms ≠ [] := by intro h0; rw [h0] at hx; cases hx
    have hall := List.any_eq_false.mp h (x ||| b) (List.mem_map.mpr ⟨x, hx, rfl⟩)
    simp only [ne_eq, decide_eq_true_eq, Decidable.not_not] at hall
    rw [hall]
    exact foldOr_map_or b hne

theorem uncoveredN_iff {ms : List Nat} {b : Nat} :
    uncoveredN ms b = true ↔
      2 ≤ ms.length ∧ ∃ i, b.testBit i = false ∧ ∃ x ∈ ms, ∃ y ∈ ms, x.testBit i ≠ y.testBit i := by
  constructor
  · intro h
    unfold uncoveredN at h
    by_cases hl : ms.length < 2
    · simp [hl] at h
    · simp only [hl, if_false] at h
      refine ⟨by omega, ?_⟩
      obtain ⟨c, hc, hne⟩ := List.any_eq_true.mp h
      obtain ⟨x, hx, rfl⟩ := List.mem_map.mp hc
      have hne' : x ||| b ≠ foldOr (ms.map (· ||| b)) := by unfold foldOr; simpa using hne
      have hnem : ms ≠ [] := by intro h0; rw [h0] at hx; cases hx
      rw [foldOr_map_or b hnem] at hne'
      have : ∃ i, (x ||| b).testBit i ≠ (foldOr ms ||| b).testBit i := by
        apply Classical.byContradiction
        intro hn
        apply hne'
        apply Nat.eq_of_testBit_eq
        intro i
        apply Classical.byContradiction
        intro hi
        exact hn ⟨i, hi⟩
      obtain ⟨i, hi⟩ := this
      simp only [Nat.testBit_or] at hi
      have hb : b.testBit i = false := by
        cases hb : b.testBit i
        · rfl
        · simp [hb] at hi
      refine ⟨i, hb, x, hx, ?_⟩
      simp only [hb, Bool.or_false] at hi
      -- x_i differs from the union, so the union has the bit and x does not
      have hu : (foldOr ms).testBit i = true := by
        cases hu : (foldOr ms).testBit i
        · have : x.testBit i = true := by
            cases hx' : x.testBit i
            · rw [hu, hx'] at hi; exact absurd rfl hi
            · rfl
          have := (foldOr_testBit ms i).mpr ⟨x, hx, this⟩
          rw [hu] at this; cases this
        · rfl
      obtain ⟨y, hy, hyi⟩ := (foldOr_testBit ms i).mp hu
      refine ⟨y, hy, ?_⟩
      rw [hu] at hi
      rw [hyi]
      exact hi
  · rintro ⟨hl, i, hb, x, hx, y, hy, hxy⟩
    apply Classical.byContradiction
    intro hn
    have hf : uncoveredN ms b = false := by
      cases h : uncoveredN ms b
      · rfl
      · exact absurd h hn
    have h1 := uncoveredN_false hf x hx
    have h2 := uncoveredN_false hf y hy
    have e1 := congrArg (fun z => z.testBit i) h1
    have e2 := congrArg (fun z => z.testBit i) h2
    simp only [Nat.testBit_or, hb, Bool.or_false] at e1 e2
    exact hxy (e1.trans e2.symm)

/-! ### Masks after a walk -/

theorem mask_block (cx : Cx) (v base : Nat) (st : St) (b : Block) :
    (evalBlock cx v base st b).e.mask = st.e.mask ||| mayMask (writesBlock v b) := by
  have := congrArg Prod.fst (m3_block cx v base st b)
  simpa [Entry.m3, M3.or, sum3] using this

theorem mask_stmt (cx : Cx) (v base : Nat) (st : St) (s : Stmt) :
    (evalStmt cx v base st s).e.mask = st.e.mask ||| mayMask (writesStmt v s) := by
  have := congrArg Prod.fst (m3_stmt cx v base st s)
  simpa [Entry.m3, M3.or, sum3] using this

theorem mayMask_append (a b : List (Nat × Bool)) : mayMask (a ++ b) = mayMask a ||| mayMask b := by
  simp [mayMask, foldOr_append]

/-- May-masks of the arms of a `case`, in order. -/
def mayList (v : Nat) : Blocks → List Nat
  | Blocks.nil => []
  | Blocks.cons b r => mayMask (writesBlock v b) :: mayList v r

theorem arms_masks (cx : Cx) (v base : Nat) : ∀ (bs : Blocks) (st : St),
    (evalArms cx v base st bs).2.map (·.mask) = mayList v bs
  | .nil, _ => by simp [evalArms, mayList]
  | .cons b r, st => by
    simp only [evalArms, List.map_cons, mayList]
    rw [arms_masks cx v base r, mask_block]
    simp

theorem foldOr_mayList (v : Nat) : ∀ bs : Blocks, foldOr (mayList v bs) = mayMask (writesBlocks v bs)
  | .nil => rfl
  | .cons b r => by
    simp only [mayList, foldOr_cons, writesBlocks, mayMask_append, foldOr_mayList v r]

/-! ### Paths -/

theorem mem_pathsBlock_cons {v : Nat} {s : Stmt} {b : Block} {p : Nat} :
    p ∈ pathsBlock v (Block.cons s b) ↔ ∃ m ∈ pathsStmt v s, ∃ n ∈ pathsBlock v b, p = m ||| n := by
  simp only [pathsBlock, List.mem_flatMap, List.mem_map]
  constructor
  · rintro ⟨m, hm, n, hn, rfl⟩; exact ⟨m, hm, n, hn, rfl⟩
  · rintro ⟨m, hm, n, hn, rfl⟩; exact ⟨m, hm, n, hn, rfl⟩

theorem seq_paths {m n B ms mb : Nat} (h1 : m ||| B = ms ||| B)
    (h2 : n ||| (B ||| ms) = mb ||| (B ||| ms)) : (m ||| n) ||| B = (ms ||| mb) ||| B := by
  apply Nat.eq_of_testBit_eq
  intro i
  have e1 := congrArg (fun z => z.testBit i) h1
  have e2 := congrArg (fun z => z.testBit i) h2
  simp only [Nat.testBit_or] at e1 e2 ⊢
  revert e1 e2
  cases m.testBit i <;> cases n.testBit i <;> cases B.testBit i <;> cases ms.testBit i <;>
    cases mb.testBit i <;> simp

theorem branch_paths {p x t B : Nat} (h1 : p ||| B = x ||| B) (h2 : x ||| B = t ||| B) :
    p ||| B = t ||| B := h1.trans h2

/-! The path invariant: if the walk of a comb block raises no `uncovered_branch` for `v` (a variable
not declared inside an always block), every path through the block writes, modulo what was written
before, exactly the bits the block may write. -/
mutual
theorem cov_stmt (cx : Cx) (hc : cx.comb = true) (ha : cx.always = false) (v base : Nat) :
    ∀ (s : Stmt) (st : St), (evalStmt cx v base st s).unc = false →
      st.unc = false ∧ ∀ p ∈ pathsStmt v s,
        p ||| (base ||| st.e.mask) = mayMask (writesStmt v s) ||| (base ||| st.e.mask)
  | .assign reads w, st, h => by
    simp only [evalStmt] at h
    refine ⟨?_, ?_⟩
    · split at h <;> simpa using h
    · intro p hp
      simp only [pathsStmt, List.mem_singleton] at hp
      subst hp
      simp only [writesStmt]
      split <;> simp [mayMask, foldOr_cons, foldOr_nil]
  | .ifs c thn els, st, h => by
    simp only [evalStmt, hc, ha, Bool.not_false, Bool.true_and, Bool.or_eq_false_iff] at h
    obtain ⟨hF, hu⟩ := h
    have iF := cov_block cx hc ha v (base ||| st.e.mask) els _ hF
    have iT := cov_block cx hc ha v (base ||| st.e.mask) thn _ iF.1
    refine ⟨iT.1, ?_⟩
    -- masks of both sides
    have mT := mask_block cx v (base ||| st.e.mask) { st with e := {} } thn
    have mF := mask_block cx v (base ||| st.e.mask)
      { (evalBlock cx v (base ||| st.e.mask) { st with e := {} } thn) with e := {} } els
    simp only [Nat.zero_or] at mT mF
    rw [mT, mF] at hu
    have heq : mayMask (writesBlock v thn) ||| (base ||| st.e.mask)
        = mayMask (writesBlock v els) ||| (base ||| st.e.mask) := by
      have : ¬ (mayMask (writesBlock v thn) ||| (base ||| st.e.mask)) ^^^
          (mayMask (writesBlock v els) ||| (base ||| st.e.mask)) ≠ 0 := by
        simpa [uncovered2] using hu
      have h0 : (mayMask (writesBlock v thn) ||| (base ||| st.e.mask)) ^^^
          (mayMask (writesBlock v els) ||| (base ||| st.e.mask)) = 0 := by
        exact Classical.byContradiction this
      apply Nat.eq_of_testBit_eq
      intro i
      have := congrArg (fun z => z.testBit i) h0
      simp only [Nat.testBit_xor, Nat.zero_testBit] at this
      revert this
      cases (mayMask (writesBlock v thn) ||| (base ||| st.e.mask)).testBit i <;>
        cases (mayMask (writesBlock v els) ||| (base ||| st.e.mask)).testBit i <;> simp
    have hT : mayMask (writesBlock v thn) ||| (base ||| st.e.mask)
        = mayMask (writesStmt v (.ifs c thn els)) ||| (base ||| st.e.mask) := by
      simp only [writesStmt, mayMask_append]
      apply Nat.eq_of_testBit_eq
      intro i
      have := congrArg (fun z => z.testBit i) heq
      simp only [Nat.testBit_or] at this ⊢
      revert this
      cases (mayMask (writesBlock v thn)).testBit i <;> cases (mayMask (writesBlock v els)).testBit i <;>
        cases base.testBit i <;> cases st.e.mask.testBit i <;> simp
    intro p hp
    simp only [pathsStmt, List.mem_append] at hp
    have zT := iT.2
    have zF := iF.2
    simp only [Nat.or_zero] at zT zF
    rcases hp with hp | hp
    · exact (zT p hp).trans hT
    · exact ((zF p hp).trans heq.symm).trans hT
  | .case c arms dflt exh, st, h => by
    simp only [evalStmt, hc, ha, Bool.not_false, Bool.true_and, Bool.or_eq_false_iff] at h
    obtain ⟨hD, hu⟩ := h
    have iD := cov_block cx hc ha v (base ||| st.e.mask) dflt _ hD
    have iA := cov_arms cx hc ha v (base ||| st.e.mask) arms st iD.1
    refine ⟨iA.1, ?_⟩
    have mD := mask_block cx v (base ||| st.e.mask)
      { (evalArms cx v (base ||| st.e.mask) st arms).1 with e := {} } dflt
    simp only [Nat.zero_or] at mD
    rw [List.map_append, arms_masks, List.map_cons, List.map_nil, mD] at hu
    have hall := uncoveredN_false hu
    have htot : foldOr (mayList v arms ++ [mayMask (writesBlock v dflt)])
        = mayMask (writesStmt v (.case c arms dflt exh)) := by
      simp [foldOr_append, foldOr_cons, foldOr_nil, foldOr_mayList, writesStmt, mayMask_append]
    rw [htot] at hall
    intro p hp
    simp only [pathsStmt, List.mem_append] at hp
    rcases hp with hp | hp
    · obtain ⟨x, hx, hpx⟩ := iA.2 p hp
      exact hpx.trans (hall x (List.mem_append.mpr (Or.inl hx)))
    · have zD := iD.2
      simp only [Nat.or_zero] at zD
      cases exh with
      | true => simp at hp
      | false =>
        simp only [Bool.false_eq_true, if_false] at hp
        exact (zD p hp).trans (hall _ (List.mem_append.mpr (Or.inr (by simp))))
theorem cov_block (cx : Cx) (hc : cx.comb = true) (ha : cx.always = false) (v base : Nat) :
    ∀ (b : Block) (st : St), (evalBlock cx v base st b).unc = false →
      st.unc = false ∧ ∀ p ∈ pathsBlock v b,
        p ||| (base ||| st.e.mask) = mayMask (writesBlock v b) ||| (base ||| st.e.mask)
  | .nil, st, h => by
    refine ⟨by simpa [evalBlock] using h, ?_⟩
    intro p hp
    simp only [pathsBlock, List.mem_singleton] at hp
    subst hp
    simp [writesBlock, mayMask, foldOr_nil]
  | .cons s b, st, h => by
    simp only [evalBlock] at h
    have iB := cov_block cx hc ha v base b _ h
    have iS := cov_stmt cx hc ha v base s st iB.1
    refine ⟨iS.1, ?_⟩
    intro p hp
    obtain ⟨m, hm, n, hn, rfl⟩ := mem_pathsBlock_cons.mp hp
    have e1 := iS.2 m hm
    have e2 := iB.2 n hn
    rw [mask_stmt] at e2
    simp only [writesBlock, mayMask_append]
    have e2' : n ||| ((base ||| st.e.mask) ||| mayMask (writesStmt v s))
        = mayMask (writesBlock v b) ||| ((base ||| st.e.mask) ||| mayMask (writesStmt v s)) := by
      rw [Nat.or_assoc] ; exact e2
    exact seq_paths e1 e2'
theorem cov_arms (cx : Cx) (hc : cx.comb = true) (ha : cx.always = false) (v base : Nat) :
    ∀ (bs : Blocks) (st : St), (evalArms cx v base st bs).1.unc = false →
      st.unc = false ∧ ∀ p ∈ pathsBlocks v bs, ∃ x ∈ mayList v bs, p ||| base = x ||| base
  | .nil, st, h => by
    refine ⟨by simpa [evalArms] using h, ?_⟩
    intro p hp
    simp [pathsBlocks] at hp
  | .cons b r, st, h => by
    simp only [evalArms] at h
    have iR := cov_arms cx hc ha v base r _ h
    have iB := cov_block cx hc ha v base b _ iR.1
    refine ⟨iB.1, ?_⟩
    intro p hp
    simp only [pathsBlocks, List.mem_append] at hp
    rcases hp with hp | hp
    · refine ⟨mayMask (writesBlock v b), by simp [mayList], ?_⟩
      have := iB.2 p hp
      simpa [show ({} : Entry).mask = 0 from rfl] using this
    · obtain ⟨x, hx, hpx⟩ := iR.2 p hp
      exact ⟨x, by simp [mayList, hx], hpx⟩
end

end VerylModel.AssignTable
