import VerylModel.Core.EmitModel
/-! Precedence climbing: Veryl's `prec_climb` (`**` right-associative) and the IEEE reading
(everything left-associative) build the same tree for every operator chain that has no two
adjacent `**`. -/
namespace VerylModel.Emit
open VerylModel.SV

/-- no `a ** b ** c` (two adjacent power operators) in the operator list -/
def noPowPow : List BinOp → Bool
  | [] => true
  | [_] => true
  | a :: b :: t => !(a == .pow && b == .pow) && noPowPow (b :: t)

theorem prec_le_10_of_ne_pow (op : BinOp) (h : op ≠ .pow) : op.prec ≤ 10 := by
  cases op <;> simp [BinOp.prec] at *

theorem noPowPow_tail (a : BinOp) (t : List BinOp) (h : noPowPow (a :: t) = true) : noPowPow t = true := by
  cases t with
  | nil => rfl
  | cons b t => simp only [noPowPow, Bool.and_eq_true] at h; exact h.2

theorem noPowPow_head (a b : BinOp) (t : List BinOp) (h : noPowPow (a :: b :: t) = true) :
    ¬ (a = .pow ∧ b = .pow) := by
  simp only [noPowPow, Bool.and_eq_true, Bool.not_eq_true', Bool.and_eq_false_iff, beq_eq_false_iff_ne] at h
  intro ⟨h1, h2⟩
  rcases h.1 with h | h
  · exact h h1
  · exact h h2

theorem pickRootAux_eq (t : List BinOp) :
    ∀ (prev : BinOp) (i mi mp : Nat), noPowPow (prev :: t) = true → (mp ≤ 10 ∨ prev = .pow) →
      pickRootAux true t i mi mp = pickRootAux false t i mi mp := by
  induction t with
  | nil => intros; rfl
  | cons op t ih =>
    intro prev i mi mp hno hinv
    have hno' : noPowPow (op :: t) = true := noPowPow_tail prev _ hno
    have hadj := noPowPow_head prev op t hno
    unfold pickRootAux
    by_cases hp : op = .pow
    · subst hp
      have hmp10 : mp ≤ 10 := by
        rcases hinv with h | h
        · exact h
        · exact absurd ⟨h, rfl⟩ hadj
      have h1 : ¬ (BinOp.prec .pow < mp) := by simp [BinOp.prec]; omega
      have h2 : ¬ (BinOp.prec .pow ≤ mp) := by simp [BinOp.prec]; omega
      simp only [Bool.true_and, Bool.false_and, beq_self_eq_true, if_true, h1, h2, decide_false,
        Bool.false_eq_true, if_false]
      exact ih .pow (i + 1) mi mp hno' (Or.inr rfl)
    · have hb : (op == BinOp.pow) = false := by simpa using hp
      simp only [hb, Bool.and_false, Bool.false_eq_true, if_false]
      by_cases hle : op.prec ≤ mp
      · simp only [hle, decide_true, if_true]
        exact ih op (i + 1) i op.prec hno' (Or.inl (prec_le_10_of_ne_pow op hp))
      · simp only [hle, decide_false, Bool.false_eq_true, if_false]
        have := prec_le_10_of_ne_pow op hp
        exact ih op (i + 1) mi mp hno' (Or.inl (by omega))

theorem pickRoot_eq (ops : List BinOp) (h : noPowPow ops = true) : pickRoot true ops = pickRoot false ops := by
  cases ops with
  | nil => rfl
  | cons op t =>
    unfold pickRoot
    apply pickRootAux_eq t op 1 0 op.prec h
    by_cases hp : op = .pow
    · exact Or.inr hp
    · exact Or.inl (prec_le_10_of_ne_pow op hp)

theorem noPowPow_take (n : Nat) : ∀ (ops : List BinOp), noPowPow ops = true → noPowPow (ops.take n) = true := by
  induction n with
  | zero => intro ops _; simp [noPowPow]
  | succ n ih =>
    intro ops h
    match ops, h with
    | [], _ => simp [noPowPow]
    | [a], _ => simp [List.take, noPowPow]
    | a :: b :: t, h =>
      have ht := ih (b :: t) (noPowPow_tail a _ h)
      cases n with
      | zero => simp [List.take, noPowPow]
      | succ n =>
        simp only [List.take_succ_cons] at ht ⊢
        simp only [noPowPow, Bool.and_eq_true] at h ⊢
        exact ⟨h.1, ht⟩

theorem noPowPow_drop (n : Nat) : ∀ (ops : List BinOp), noPowPow ops = true → noPowPow (ops.drop n) = true := by
  induction n with
  | zero => intro ops h; simpa using h
  | succ n ih =>
    intro ops h
    cases ops with
    | nil => simp [noPowPow]
    | cons a t => simp only [List.drop_succ_cons]; exact ih t (noPowPow_tail a t h)

theorem buildF_eq {E : Type} (mk : BinOp → E → E → E) (dflt : E) (fuel : Nat) :
    ∀ (ops : List BinOp) (es : List E), noPowPow ops = true →
      buildF true mk dflt fuel ops es = buildF false mk dflt fuel ops es := by
  induction fuel with
  | zero => intro ops es _; cases ops <;> simp [buildF]
  | succ n ih =>
    intro ops es h
    cases ops with
    | nil => simp [buildF]
    | cons op t =>
      simp only [buildF]
      rw [pickRoot_eq (op :: t) h, ih _ _ (noPowPow_take _ _ h), ih _ _ (noPowPow_drop _ _ h)]

theorem build_eq {E : Type} (mk : BinOp → E → E → E) (dflt : E) (ops : List BinOp) (es : List E)
    (h : noPowPow ops = true) : build true mk dflt ops es = build false mk dflt ops es :=
  buildF_eq mk dflt ops.length ops es h

end VerylModel.Emit

namespace VerylModel.Emit
open VerylModel.SV

theorem buildF_map {E F : Type} (f : E → F) (mk : BinOp → E → E → E) (mk' : BinOp → F → F → F) (d : E) (d' : F)
    (hmk : ∀ op a b, f (mk op a b) = mk' op (f a) (f b)) (hd : f d = d') (pr : Bool) (fuel : Nat) :
    ∀ (ops : List BinOp) (es : List E), f (buildF pr mk d fuel ops es) = buildF pr mk' d' fuel ops (es.map f) := by
  induction fuel with
  | zero =>
    intro ops es
    cases ops <;> cases es <;> simp [buildF, hd]
  | succ n ih =>
    intro ops es
    cases ops with
    | nil => cases es <;> simp [buildF, hd]
    | cons op t => simp only [buildF, hmk, ih, List.map_take, List.map_drop]

theorem build_map {E F : Type} (f : E → F) (mk : BinOp → E → E → E) (mk' : BinOp → F → F → F) (d : E) (d' : F)
    (hmk : ∀ op a b, f (mk op a b) = mk' op (f a) (f b)) (hd : f d = d') (pr : Bool) (ops : List BinOp)
    (es : List E) : f (build pr mk d ops es) = build pr mk' d' ops (es.map f) :=
  buildF_map f mk mk' d d' hmk hd pr ops.length ops es

-- every operator chain of the expression is free of adjacent `**`
mutual
def noPP : VRaw → Bool
  | .var _ | .bitsel _ _ | .partsel _ _ _ | .lit _ _ _ | .dec _ | .fill _ => true
  | .un _ a => noPP a
  | .chain f r => noPP f && noPPRest r && noPowPow (vrestOps r)
  | .paren a => noPP a
  | .ifx c a b => noPP c && noPP a && noPP b
  | .cat a b => noPP a && noPP b
  | .rep _ a => noPP a
  | .asNum _ a => noPP a
  | .asInt _ _ a => noPP a
  | .sysSigned _ a => noPP a
def noPPRest : VRest → Bool
  | .nil => true
  | .cons _ e tl => noPP e && noPPRest tl
end

theorem restOps_emit : ∀ r : VRest, restOps (emitRest r) = vrestOps r
  | .nil => by simp [emitRest, restOps, vrestOps]
  | .cons op e tl => by simp [emitRest, restOps, vrestOps, restOps_emit tl]

theorem emitExpr_bin (op : BinOp) (a b : VExpr) : emitExpr (.bin op a b) = Expr.bin op (emitExpr a) (emitExpr b) := rfl

mutual
theorem resolve_emit : ∀ r : VRaw, noPP r = true → resolve (emitRaw r) = emitExpr (precClimb r)
  | .var _, _ | .bitsel _ _, _ | .partsel _ _ _, _ | .lit _ _ _, _ | .dec _, _ | .fill _, _ => by
    simp [emitRaw, resolve, precClimb, emitExpr]
  | .un op a, h => by
    simp only [noPP] at h
    simp [emitRaw, resolve, precClimb, emitExpr, resolve_emit a h]
  | .chain f r, h => by
    simp only [noPP, Bool.and_eq_true] at h
    simp only [emitRaw, resolve, precClimb]
    rw [build_eq VExpr.bin (.dec 0) _ _ h.2,
      build_map emitExpr VExpr.bin Expr.bin (.dec 0) (.dec 0) emitExpr_bin rfl false]
    rw [restOps_emit, resolve_emit f h.1.1, restExprs_emit r h.1.2]
    simp
  | .paren a, h => by
    simp only [noPP] at h
    simp [emitRaw, resolve, precClimb, resolve_emit a h]
  | .ifx c a b, h => by
    simp only [noPP, Bool.and_eq_true] at h
    simp [emitRaw, resolve, precClimb, emitExpr, resolve_emit c h.1.1, resolve_emit a h.1.2, resolve_emit b h.2]
  | .cat a b, h => by
    simp only [noPP, Bool.and_eq_true] at h
    simp [emitRaw, resolve, precClimb, emitExpr, resolve_emit a h.1, resolve_emit b h.2]
  | .rep n a, h => by
    simp only [noPP] at h
    simp [emitRaw, resolve, precClimb, emitExpr, resolve_emit a h]
  | .asNum n a, h => by
    simp only [noPP] at h
    simp [emitRaw, resolve, precClimb, emitExpr, resolve_emit a h]
  | .asInt sg w a, h => by
    simp only [noPP] at h
    cases sg <;> simp [emitRaw, resolve, precClimb, emitExpr, resolve_emit a h]
  | .sysSigned s a, h => by
    simp only [noPP] at h
    simp [emitRaw, resolve, precClimb, emitExpr, resolve_emit a h]
theorem restExprs_emit : ∀ r : VRest, noPPRest r = true → restExprs (emitRest r) = (vrestExprs r).map emitExpr
  | .nil, _ => by simp [emitRest, restExprs, vrestExprs]
  | .cons op e tl, h => by
    simp only [noPPRest, Bool.and_eq_true] at h
    simp [emitRest, restExprs, vrestExprs, resolve_emit e h.1, restExprs_emit tl h.2]
end

end VerylModel.Emit
