import VerylModel.Core.Resolve
/-! Helper lemmas for C31 (core Lean only). -/
namespace VerylModel.Resolve

variable {ρ : Type}

/-! ### fresh names -/

theorem dropName_length_lt {tbl : List Name} {n : Name} (h : n ∈ tbl) :
    (dropName tbl n).length < tbl.length := by
  unfold dropName
  induction tbl with
  | nil => cases h
  | cons a as ih =>
    by_cases ha : a = n
    · simp only [ha, ne_eq, not_true_eq_false, decide_false, Bool.false_eq_true,
        not_false_eq_true, List.filter_cons_of_neg, List.length_cons]
      exact Nat.lt_succ_of_le (List.length_filter_le _ _)
    · have hm : n ∈ as := by
        cases h with
        | head => exact absurd rfl ha
        | tail _ h => exact h
      simp only [ne_eq, ha, not_false_eq_true, decide_true, List.filter_cons_of_pos,
        List.length_cons]
      exact Nat.succ_lt_succ (ih hm)

theorem mem_dropName {tbl : List Name} {n m : Name} : m ∈ dropName tbl n ↔ m ∈ tbl ∧ m ≠ n := by
  simp [dropName]

theorem freshGo_ge (name : Name) : ∀ (fuel : Nat) (tbl : List Name) (s : Nat), s ≤ freshGo name fuel tbl s
  | 0, _, _ => Nat.le_refl _
  | fuel + 1, tbl, s => by
    unfold freshGo
    split
    · exact Nat.le_trans (Nat.le_succ s) (freshGo_ge name fuel _ (s + 1))
    · exact Nat.le_refl _

theorem freshGo_not_mem (name : Name) : ∀ (fuel : Nat) (tbl : List Name) (s : Nat), tbl.length ≤ fuel →
    (name ++ [freshGo name fuel tbl s]) ∉ tbl
  | 0, tbl, s, h => by
    have : tbl = [] := List.eq_nil_of_length_eq_zero (Nat.le_zero.mp h)
    simp [this]
  | fuel + 1, tbl, s, h => by
    unfold freshGo
    split
    · rename_i hm
      have hl : (dropName tbl (name ++ [s])).length ≤ fuel :=
        Nat.le_of_lt_succ (Nat.lt_of_lt_of_le (dropName_length_lt hm) h)
      have ih := freshGo_not_mem name fuel _ (s + 1) hl
      have hge := freshGo_ge name fuel (dropName tbl (name ++ [s])) (s + 1)
      intro hc
      apply ih
      rw [mem_dropName]
      refine ⟨hc, ?_⟩
      intro heq
      have := List.append_cancel_left heq
      simp only [List.cons.injEq, and_true] at this
      omega
    · assumption

theorem freshName_not_mem (name : Name) (tbl : List Name) : freshName name tbl ∉ tbl :=
  freshGo_not_mem name tbl.length tbl 0 (Nat.le_refl _)

/-! ### names of one `gen_locks` level -/

/-- Invariant of the loops: lock names are pairwise distinct, all recorded in the name table and
    none of them was in the table the traversal started from. -/
structure NamesOK (names0 : List Name) (locks : List Lock) (names : List Name) : Prop where
  nodup : (locks.map (·.name)).Nodup
  recorded : ∀ l ∈ locks, l.name ∈ names
  fresh : ∀ l ∈ locks, l.name ∉ names0
  mono : ∀ n ∈ names0, n ∈ names

theorem NamesOK.init (names0 : List Name) : NamesOK names0 [] names0 :=
  ⟨by simp, by simp, by simp, fun _ h => h⟩

theorem nodup_append_singleton {l : List Name} {a : Name} (h : l.Nodup) (ha : a ∉ l) : (l ++ [a]).Nodup := by
  rw [List.nodup_append]
  refine ⟨h, by simp, ?_⟩
  intro x hx y hy
  simp only [List.mem_singleton] at hy
  subst hy
  intro hxy
  exact ha (hxy ▸ hx)

/-- The names the loop state has handed out so far are tracked against a larger table `names0' ⊇ …`:
    we phrase the step lemma with an explicit base table. -/
theorem stepDep_names (w : World ρ) (t : Table) (force root : Bool) (names0 : List Name)
    (a a' : Acc ρ) (d : Dep ρ) (h : stepDep w t force root a d = .ok a')
    (inv : NamesOK names0 a.locks a.names) : NamesOK names0 a'.locks a'.names := by
  unfold stepDep at h
  split at h
  · cases h
  · rename_i dependency _
    split at h
    · cases h
    · rename_i m _
      simp only at h
      split at h
      · cases h
      · split at h
        · cases h
        · rename_i dependencies _
          -- the chosen name is not in the table
          have hfree : (if a.names.contains d.name = true then freshName d.name a.names else d.name) ∉ a.names := by
            split
            · exact freshName_not_mem _ _
            · rename_i hc
              simpa using hc
          split at h
          · split at h
            · cases h
            · cases h
              exact ⟨inv.nodup, fun l hl => List.mem_cons_of_mem _ (inv.recorded l hl), inv.fresh,
                fun n hn => List.mem_cons_of_mem _ (inv.mono n hn)⟩
          · cases h
            refine ⟨?_, ?_, ?_, fun n hn => List.mem_cons_of_mem _ (inv.mono n hn)⟩
            · simp only [List.map_append, List.map_cons, List.map_nil]
              apply nodup_append_singleton inv.nodup
              intro hc
              obtain ⟨l, hl, hn⟩ := List.mem_map.mp hc
              exact hfree (hn ▸ inv.recorded l hl)
            · intro l hl
              rcases List.mem_append.mp hl with hl | hl
              · exact List.mem_cons_of_mem _ (inv.recorded l hl)
              · simp only [List.mem_singleton] at hl
                subst hl
                exact List.mem_cons_self
            · intro l hl
              rcases List.mem_append.mp hl with hl | hl
              · exact inv.fresh l hl
              · simp only [List.mem_singleton] at hl
                subst hl
                intro hc
                exact hfree (inv.mono _ hc)

theorem levelLoop_names (w : World ρ) (t : Table) (force root : Bool) (names0 : List Name) :
    ∀ (ds : List (Dep ρ)) (a a' : Acc ρ), levelLoop w t force root ds a = .ok a' →
      NamesOK names0 a.locks a.names → NamesOK names0 a'.locks a'.names
  | [], a, a', h, inv => by
    simp only [levelLoop] at h
    cases h
    exact inv
  | d :: ds, a, a', h, inv => by
    simp only [levelLoop] at h
    split at h
    · cases h
    · rename_i a1 h1
      exact levelLoop_names w t force root names0 ds a1 a' h (stepDep_names w t force root names0 a a1 d h1 inv)

/-- Appending the locks of a sub-traversal that started from the current table. -/
theorem NamesOK.append {names0 names1 names2 : List Name} {l1 l2 : List Lock}
    (h1 : NamesOK names0 l1 names1) (h2 : NamesOK names1 l2 names2) : NamesOK names0 (l1 ++ l2) names2 := by
  refine ⟨?_, ?_, ?_, fun n hn => h2.mono n (h1.mono n hn)⟩
  · simp only [List.map_append]
    rw [List.nodup_append]
    refine ⟨h1.nodup, h2.nodup, ?_⟩
    intro x hx y hy hxy
    obtain ⟨la, hla, hna⟩ := List.mem_map.mp hx
    obtain ⟨lb, hlb, hnb⟩ := List.mem_map.mp hy
    apply h2.fresh lb hlb
    rw [hnb, ← hxy, ← hna]
    exact h1.recorded la hla
  · intro l hl
    rcases List.mem_append.mp hl with hl | hl
    · exact h2.mono _ (h1.recorded l hl)
    · exact h2.recorded l hl
  · intro l hl
    rcases List.mem_append.mp hl with hl | hl
    · exact h1.fresh l hl
    · intro hc
      exact h2.fresh l hl (h1.mono _ hc)

theorem genChildren_names (names0 : List Name)
    (rec : List (Dep ρ) → List Name → List Uuid → GenResult)
    (hrec : ∀ ds ns ss ls ns' ss', rec ds ns ss = .ok (ls, ns', ss') → NamesOK ns ls ns') :
    ∀ (ms : List (Meta ρ)) (ns : List Name) (ss : List Uuid) (acc : List Lock) (r : List Lock × List Name × List Uuid),
      genChildren rec ms ns ss acc = .ok r → NamesOK names0 acc ns → NamesOK names0 r.1 r.2.1
  | [], ns, ss, acc, r, h, inv => by
    simp only [genChildren] at h
    cases h
    exact inv
  | m :: ms, ns, ss, acc, r, h, inv => by
    simp only [genChildren] at h
    split at h
    · cases h
    · rename_i ls ns' ss' hr
      exact genChildren_names names0 rec hrec ms ns' ss' (acc ++ ls) r h (inv.append (hrec _ _ _ _ _ _ hr))

theorem genLocks_names (w : World ρ) (t : Table) (force : Bool) :
    ∀ (fuel : Nat) (root : Bool) (ds : List (Dep ρ)) (ns : List Name) (ss : List Uuid)
      (ls : List Lock) (ns' : List Name) (ss' : List Uuid),
      genLocks w t force fuel root ds ns ss = .ok (ls, ns', ss') → NamesOK ns ls ns'
  | 0, _, _, _, _, _, _, _, h => by simp [genLocks] at h
  | fuel + 1, root, ds, ns, ss, ls, ns', ss', h => by
    simp only [genLocks] at h
    split at h
    · cases h
    · rename_i a ha
      have inv := levelLoop_names w t force root ns ds _ a ha (NamesOK.init ns)
      exact genChildren_names ns _ (fun ds ns ss ls ns' ss' h => genLocks_names w t force fuel false ds ns ss ls ns' ss' h)
        a.metas a.names a.srcs a.locks (ls, ns', ss') h inv

/-! ### the lock table holds exactly the generated locks -/

theorem push_locks_perm : ∀ (t : Table) (k : Key) (l : Lock), (Table.push t k l).locks.Perm (t.locks ++ [l])
  | [], k, l => by simp [Table.push, Table.locks]
  | (k', ls) :: rest, k, l => by
    unfold Table.push
    split
    · simp only [Table.locks, List.flatMap_cons, List.append_assoc]
      apply List.Perm.append_left
      exact List.perm_append_comm
    · have ih := push_locks_perm rest k l
      simp only [Table.locks, List.flatMap_cons, List.append_assoc] at ih ⊢
      exact List.Perm.append_left _ ih

theorem foldl_push_locks_perm : ∀ (ls : List Lock) (t : Table),
    (ls.foldl (fun t l => Table.push t l.src.key l) t).locks.Perm (t.locks ++ ls)
  | [], t => by simp
  | l :: ls, t => by
    simp only [List.foldl_cons]
    refine (foldl_push_locks_perm ls _).trans ?_
    refine ((push_locks_perm t l.src.key l).append_right ls).trans ?_
    simp

theorem sortTable_locks_perm : ∀ (t : Table), (sortTable t).locks.Perm t.locks
  | [] => by simp [sortTable, Table.locks]
  | kv :: rest => by
    have ih := sortTable_locks_perm rest
    simp only [sortTable, Table.locks, List.map_cons, List.flatMap_cons] at ih ⊢
    exact (List.mergeSort_perm _ _).append ih

theorem buildTable_locks_perm (ls : List Lock) : (buildTable ls).locks.Perm ls := by
  unfold buildTable
  refine (sortTable_locks_perm _).trans ?_
  simpa [Table.locks] using foldl_push_locks_perm ls []

end VerylModel.Resolve

namespace VerylModel.Resolve
variable {ρ : Type}

/-! ### version selection -/

/-- `x.project == project && version_req.matches(&x.version)` on a repository lock. -/
def lockMatches (w : World ρ) (proj : Nat) (req : ρ) (l : Lock) : Bool :=
  match l.src with
  | .repo _ _ pr v _ => pr = proj && w.mt req v
  | .path _ => false

def lockPick (w : World ρ) (proj : Nat) (req : ρ) (l : Lock) : Option (Release × Nat) :=
  match l.src with
  | .repo _ p pr v r => if pr = proj && w.mt req v then some (⟨v, r⟩, p) else none
  | .path _ => none

theorem lockPick_some {w : World ρ} {proj : Nat} {req : ρ} {l : Lock} {rel : Release} {p : Nat}
    (h : lockPick w proj req l = some (rel, p)) :
    lockMatches w proj req l = true ∧ ∃ u, l.src = .repo u p proj rel.version rel.revision := by
  unfold lockPick at h
  unfold lockMatches
  split at h
  · rename_i u p' pr v r hs
    split at h
    · rename_i hc
      simp only [Option.some.injEq, Prod.mk.injEq] at h
      obtain ⟨h1, h2⟩ := h
      subst h1 h2
      simp only [Bool.and_eq_true, decide_eq_true_eq] at hc
      rw [hs]
      simp [hc.1, hc.2]
    · cases h
  · cases h

theorem lockPick_none {w : World ρ} {proj : Nat} {req : ρ} {l : Lock}
    (h : lockPick w proj req l = none) : lockMatches w proj req l = false := by
  unfold lockPick at h
  unfold lockMatches
  split at h
  · split at h
    · cases h
    · rename_i hc
      simpa using hc
  · rfl

/-- The lock chosen by `resolve_version_from_lockfile` is the first matching one of the bucket. -/
theorem findSome_lockPick (w : World ρ) (proj : Nat) (req : ρ) :
    ∀ (ls : List Lock),
      match ls.findSome? (lockPick w proj req) with
      | some (rel, p) => ∃ pre l post, ls = pre ++ l :: post ∧ (∀ x ∈ pre, lockMatches w proj req x = false) ∧
          lockMatches w proj req l = true ∧ ∃ u, l.src = .repo u p proj rel.version rel.revision
      | none => ∀ x ∈ ls, lockMatches w proj req x = false
  | [] => by simp
  | l :: ls => by
    simp only [List.findSome?_cons]
    cases hp : lockPick w proj req l with
    | some rp =>
      obtain ⟨rel, p⟩ := rp
      have := lockPick_some hp
      exact ⟨[], l, ls, rfl, by simp, this.1, this.2⟩
    | none =>
      have hn := lockPick_none hp
      have ih := findSome_lockPick w proj req ls
      simp only
      split
      · rename_i rel p heq
        rw [heq] at ih
        obtain ⟨pre, l', post, h1, h2, h3, h4⟩ := ih
        refine ⟨l :: pre, l', post, by simp [h1], ?_, h3, h4⟩
        intro x hx
        rcases List.mem_cons.mp hx with hx | hx
        · exact hx ▸ hn
        · exact h2 x hx
      · rename_i heq
        rw [heq] at ih
        intro x hx
        rcases List.mem_cons.mp hx with hx | hx
        · exact hx ▸ hn
        · exact ih x hx

theorem resolveFromLockfile_eq (w : World ρ) (t : Table) (url proj : Nat) (req : ρ) :
    resolveFromLockfile w t url proj req = (t.get (.url url)).findSome? (lockPick w proj req) := rfl

/-- `bestRelease`: the result matches, is one of the candidates, and no matching candidate is greater. -/
theorem bestRelease_spec (w : World ρ) (req : ρ) :
    ∀ (rs : List Release) (acc : Option Release), (∀ a, acc = some a → w.mt req a.version = true) →
      match bestRelease w req rs acc with
      | some r => w.mt req r.version = true ∧ (r ∈ rs ∨ acc = some r) ∧
          (∀ x ∈ rs, w.mt req x.version = true → x.version ≤ r.version) ∧
          (∀ a, acc = some a → a.version ≤ r.version)
      | none => acc = none ∧ ∀ x ∈ rs, w.mt req x.version = false
  | [], acc, hacc => by
    unfold bestRelease
    cases acc with
    | none => simp
    | some a => simp [hacc a rfl]
  | r :: rs, acc, hacc => by
    unfold bestRelease
    by_cases hm : w.mt req r.version = true
    · simp only [hm, if_true]
      cases acc with
      | none =>
        have ih := bestRelease_spec w req rs (some r) (by intro a ha; cases ha; exact hm)
        simp only
        split at ih
        · rename_i r' heq
          obtain ⟨h1, h2, h3, h4⟩ := ih
          refine ⟨h1, ?_, ?_, by simp⟩
          · rcases h2 with h2 | h2
            · exact Or.inl (List.mem_cons_of_mem _ h2)
            · cases h2; exact Or.inl List.mem_cons_self
          · intro x hx hxm
            rcases List.mem_cons.mp hx with hx | hx
            · subst hx; exact h4 _ rfl
            · exact h3 x hx hxm
        · rename_i heq
          exact absurd ih.1 (by simp)
      | some a =>
        simp only
        by_cases hlt : a.version < r.version
        · simp only [hlt, if_true]
          have ih := bestRelease_spec w req rs (some r) (by intro a ha; cases ha; exact hm)
          split at ih
          · rename_i r' heq
            obtain ⟨h1, h2, h3, h4⟩ := ih
            refine ⟨h1, ?_, ?_, ?_⟩
            · rcases h2 with h2 | h2
              · exact Or.inl (List.mem_cons_of_mem _ h2)
              · cases h2; exact Or.inl List.mem_cons_self
            · intro x hx hxm
              rcases List.mem_cons.mp hx with hx | hx
              · subst hx; exact h4 _ rfl
              · exact h3 x hx hxm
            · intro a' ha'
              cases ha'
              exact Nat.le_trans (Nat.le_of_lt hlt) (h4 _ rfl)
          · rename_i heq
            exact absurd ih.1 (by simp)
        · simp only [hlt, if_false]
          have ih := bestRelease_spec w req rs (some a) hacc
          split at ih
          · rename_i r' heq
            obtain ⟨h1, h2, h3, h4⟩ := ih
            refine ⟨h1, ?_, ?_, h4⟩
            · rcases h2 with h2 | h2
              · exact Or.inl (List.mem_cons_of_mem _ h2)
              · exact Or.inr h2
            · intro x hx hxm
              rcases List.mem_cons.mp hx with hx | hx
              · subst hx; exact Nat.le_trans (Nat.le_of_not_lt hlt) (h4 _ rfl)
              · exact h3 x hx hxm
          · rename_i heq
            exact absurd ih.1 (by simp)
    · simp only [hm, Bool.false_eq_true, if_false]
      have hmf : w.mt req r.version = false := by simpa using hm
      have ih := bestRelease_spec w req rs acc hacc
      split at ih
      · rename_i r' heq
        obtain ⟨h1, h2, h3, h4⟩ := ih
        refine ⟨h1, ?_, ?_, h4⟩
        · rcases h2 with h2 | h2
          · exact Or.inl (List.mem_cons_of_mem _ h2)
          · exact Or.inr h2
        · intro x hx hxm
          rcases List.mem_cons.mp hx with hx | hx
          · subst hx; rw [hmf] at hxm; cases hxm
          · exact h3 x hx hxm
      · rename_i heq
        refine ⟨ih.1, ?_⟩
        intro x hx
        rcases List.mem_cons.mp hx with hx | hx
        · subst hx; exact hmf
        · exact ih.2 x hx

end VerylModel.Resolve

namespace VerylModel.Resolve

/-! ### `impl Ord for LockSource` is a total preorder -/

theorem cmp_nat (a b : Nat) :
    (a < b ∧ compare a b = .lt) ∨ (a = b ∧ compare a b = .eq) ∨ (b < a ∧ compare a b = .gt) := by
  rcases Nat.lt_trichotomy a b with h | h | h
  · exact Or.inl ⟨h, Nat.compare_eq_lt.mpr h⟩
  · exact Or.inr (Or.inl ⟨h, Nat.compare_eq_eq.mpr h⟩)
  · exact Or.inr (Or.inr ⟨h, Nat.compare_eq_gt.mpr h⟩)

theorem lex3_ne_gt (a1 a2 b1 b2 c1 c2 : Nat) :
    ((compare a1 a2).then ((compare b1 b2).then (compare c1 c2)) ≠ .gt) ↔
      (a1 < a2 ∨ (a1 = a2 ∧ (b1 < b2 ∨ (b1 = b2 ∧ c1 ≤ c2)))) := by
  rcases cmp_nat a1 a2 with ⟨ha, ea⟩ | ⟨ha, ea⟩ | ⟨ha, ea⟩ <;>
  rcases cmp_nat b1 b2 with ⟨hb, eb⟩ | ⟨hb, eb⟩ | ⟨hb, eb⟩ <;>
  rcases cmp_nat c1 c2 with ⟨hc, ec⟩ | ⟨hc, ec⟩ | ⟨hc, ec⟩ <;>
  simp only [ea, eb, ec, Ordering.then, ne_eq, reduceCtorEq, not_false_eq_true, not_true_eq_false, true_iff, false_iff] <;>
  omega

theorem lex3_eq (a1 a2 b1 b2 c1 c2 : Nat) :
    ((compare a1 a2).then ((compare b1 b2).then (compare c1 c2)) = .eq) ↔ (a1 = a2 ∧ b1 = b2 ∧ c1 = c2) := by
  rcases cmp_nat a1 a2 with ⟨ha, ea⟩ | ⟨ha, ea⟩ | ⟨ha, ea⟩ <;>
  rcases cmp_nat b1 b2 with ⟨hb, eb⟩ | ⟨hb, eb⟩ | ⟨hb, eb⟩ <;>
  rcases cmp_nat c1 c2 with ⟨hc, ec⟩ | ⟨hc, ec⟩ | ⟨hc, ec⟩ <;>
  simp only [ea, eb, ec, Ordering.then, reduceCtorEq, true_iff, false_iff] <;>
  omega

/-- `a ≤ b` in the order of `LockSource`. -/
def srcLe (a b : Src) : Prop :=
  match a, b with
  | .repo u1 _ p1 v1 _, .repo u2 _ p2 v2 _ => u1 < u2 ∨ (u1 = u2 ∧ (p1 < p2 ∨ (p1 = p2 ∧ v1 ≤ v2)))
  | .path x, .path y => x ≤ y
  | .repo _ _ _ _ _, .path _ => True
  | .path _, .repo _ _ _ _ _ => False

theorem cmp_ne_gt_iff (a b : Src) : Src.cmp a b ≠ .gt ↔ srcLe a b := by
  cases a <;> cases b
  · simp only [Src.cmp, srcLe]; exact lex3_ne_gt _ _ _ _ _ _
  · simp [Src.cmp, srcLe]
  · simp [Src.cmp, srcLe]
  · rename_i x y
    simp only [Src.cmp, srcLe]
    rcases cmp_nat x y with ⟨h, e⟩ | ⟨h, e⟩ | ⟨h, e⟩ <;> simp [e] <;> omega

theorem srcLe_trans {a b c : Src} (h1 : srcLe a b) (h2 : srcLe b c) : srcLe a c := by
  cases a <;> cases b <;> cases c <;> simp only [srcLe] at * <;> first | omega | trivial | contradiction

theorem srcLe_total (a b : Src) : srcLe a b ∨ srcLe b a := by
  cases a <;> cases b <;> simp only [srcLe] <;> first | omega | exact Or.inl trivial | exact Or.inr trivial

theorem srcLe_antisymm_cmp {a b : Src} (h1 : srcLe a b) (h2 : srcLe b a) : Src.cmp a b = .eq := by
  cases a <;> cases b
  · simp only [srcLe] at h1 h2
    simp only [Src.cmp]
    rw [lex3_eq]
    omega
  · simp [srcLe] at h2
  · simp [srcLe] at h1
  · rename_i x y
    simp only [srcLe] at h1 h2
    simp only [Src.cmp]
    exact Nat.compare_eq_eq.mpr (Nat.le_antisymm h1 h2)

theorem leDesc_iff (a b : Lock) : leDesc a b = true ↔ srcLe b.src a.src := by
  unfold leDesc
  rw [bne_iff_ne]
  exact cmp_ne_gt_iff _ _

theorem leAsc_iff (a b : Lock) : leAsc a b = true ↔ srcLe a.src b.src := by
  unfold leAsc
  rw [bne_iff_ne]
  exact cmp_ne_gt_iff _ _

theorem leDesc_trans (a b c : Lock) (h1 : leDesc a b = true) (h2 : leDesc b c = true) : leDesc a c = true := by
  rw [leDesc_iff] at *
  exact srcLe_trans h2 h1

theorem leDesc_total (a b : Lock) : (leDesc a b || leDesc b a) = true := by
  rw [Bool.or_eq_true, leDesc_iff, leDesc_iff]
  exact (srcLe_total b.src a.src)

/-! ### lookup in a built table -/

theorem get_push (t : Table) (k' : Key) (l : Lock) (k : Key) :
    (Table.push t k' l).get k = if k' = k then t.get k ++ [l] else t.get k := by
  induction t with
  | nil =>
    simp only [Table.push, Table.get]
    split <;> simp
  | cons kv rest ih =>
    obtain ⟨k0, ls⟩ := kv
    unfold Table.push
    split
    · rename_i h0
      subst h0
      simp only [Table.get]
      split <;> simp
    · rename_i h0
      simp only [Table.get]
      split
      · rename_i h1
        subst h1
        have : ¬ k' = k0 := fun h => h0 h.symm
        simp [this]
      · exact ih

theorem get_foldl_push : ∀ (ls : List Lock) (t : Table) (k : Key),
    (ls.foldl (fun t l => Table.push t l.src.key l) t).get k = t.get k ++ ls.filter (fun l => l.src.key = k)
  | [], t, k => by simp
  | l :: ls, t, k => by
    simp only [List.foldl_cons]
    rw [get_foldl_push ls _ k, get_push]
    by_cases h : l.src.key = k
    · simp [h]
    · simp [h]

theorem get_sortTable (t : Table) (k : Key) : (sortTable t).get k = (t.get k).mergeSort leDesc := by
  induction t with
  | nil => simp [sortTable, Table.get]
  | cons kv rest ih =>
    obtain ⟨k0, ls⟩ := kv
    simp only [sortTable, List.map_cons, Table.get] at ih ⊢
    split
    · rfl
    · exact ih

theorem get_buildTable (ls : List Lock) (k : Key) :
    (buildTable ls).get k = (ls.filter (fun l => l.src.key = k)).mergeSort leDesc := by
  unfold buildTable
  rw [get_sortTable, get_foldl_push]
  simp [Table.get]

/-- In a table with unique keys whose buckets hold only locks of their key, the bucket of `k` is
    the sub-list of all locks with key `k`. -/
theorem filter_locks_eq_get : ∀ (t : Table) (k : Key),
    (t.map (·.1)).Nodup → (∀ kv ∈ t, ∀ l ∈ kv.2, l.src.key = kv.1) →
    t.locks.filter (fun l => l.src.key = k) = t.get k
  | [], k, _, _ => by simp [Table.locks, Table.get]
  | (k0, ls) :: rest, k, hk, hb => by
    have hk' : (rest.map (·.1)).Nodup := (List.nodup_cons.mp hk).2
    have hb' : ∀ kv ∈ rest, ∀ l ∈ kv.2, l.src.key = kv.1 := fun kv h => hb kv (List.mem_cons_of_mem _ h)
    have ih := filter_locks_eq_get rest k hk' hb'
    have hls : ∀ l ∈ ls, l.src.key = k0 := hb (k0, ls) List.mem_cons_self
    simp only [Table.locks, List.flatMap_cons, List.filter_append, Table.get] at ih ⊢
    by_cases h : k0 = k
    · subst h
      simp only [if_true]
      have h1 : ls.filter (fun l => l.src.key = k0) = ls := by
        apply List.filter_eq_self.mpr
        intro l hl
        simp [hls l hl]
      have h2 : (rest.flatMap (·.2)).filter (fun l => l.src.key = k0) = [] := by
        apply List.filter_eq_nil_iff.mpr
        intro l hl
        obtain ⟨kv, hkv, hl'⟩ := List.mem_flatMap.mp hl
        have hkey := hb' kv hkv l hl'
        simp only [decide_eq_true_eq]
        intro hc
        have : k0 ∈ rest.map (·.1) := List.mem_map.mpr ⟨kv, hkv, by rw [← hkey, hc]⟩
        exact (List.nodup_cons.mp hk).1 this
      rw [h1, h2]
      simp
    · simp only [h, if_false]
      have h1 : ls.filter (fun l => l.src.key = k) = [] := by
        apply List.filter_eq_nil_iff.mpr
        intro l hl
        simp only [decide_eq_true_eq]
        rw [hls l hl]
        exact h
      rw [h1]
      simpa using ih

theorem get_mem_locks {t : Table} {k : Key} {l : Lock} (h : l ∈ t.get k) : l ∈ t.locks := by
  induction t with
  | nil => simp [Table.get] at h
  | cons kv rest ih =>
    obtain ⟨k0, ls⟩ := kv
    simp only [Table.get] at h
    simp only [Table.locks, List.flatMap_cons, List.mem_append]
    split at h
    · exact Or.inl h
    · exact Or.inr (ih h)

theorem get_bucket {t : Table} {k : Key} (h : t.get k ≠ []) : (k, t.get k) ∈ t := by
  induction t with
  | nil => simp [Table.get] at h
  | cons kv rest ih =>
    obtain ⟨k0, ls⟩ := kv
    simp only [Table.get] at h ⊢
    split
    · rename_i h0; subst h0; exact List.mem_cons_self
    · rename_i h0
      simp only [h0, if_false] at h
      exact List.mem_cons_of_mem _ (ih h)

end VerylModel.Resolve
