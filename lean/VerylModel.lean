-- Root of the VerylModel library: property theorems (which import the models and lemmas).
import VerylModel.Props.C29
import VerylModel.Props.C04
