-- Root of the VerylModel library: property theorems (which import the models and lemmas).
import VerylModel.Props.C29
import VerylModel.Props.C12
import VerylModel.Props.C23
import VerylModel.Props.C04
import VerylModel.Props.C06
import VerylModel.Props.C24
import VerylModel.Props.C36
import VerylModel.Props.C35
import VerylModel.Props.C32
import VerylModel.Props.C28
