import VerylModel.Driver.Store
import VerylModel.Driver.CombLoop
import VerylModel.Driver.Pretty
import VerylModel.Driver.Fmt
import VerylModel.Driver.IdCodec
import VerylModel.Driver.Register
import VerylModel.Driver.TokenPos
import VerylModel.Driver.Migrator
import VerylModel.Driver.Incr
import VerylModel.Driver.Svlv
import VerylModel.Driver.Random
import VerylModel.Driver.Words
import VerylModel.Driver.Resolve
import VerylModel.Driver.Paths
import VerylModel.Driver.CheckModes
import VerylModel.Driver.Value
import VerylModel.Driver.LL
import VerylModel.Driver.Cdc
import VerylModel.Driver.Assign
import VerylModel.Driver.FS
import VerylModel.Driver.Crash
import VerylModel.Driver.Wide
import VerylModel.Driver.ExprRef
import VerylModel.Driver.Sim
import VerylModel.Driver.Aig
import VerylModel.Driver.Netlist
import VerylModel.Driver.Swap
import VerylModel.Driver.Reloc
import VerylModel.Driver.SV
import VerylModel.Driver.Emit
import VerylModel.Driver.Translate

def main (args : List String) : IO UInt32 := do
  match args with
  | ["store"] => VerylModel.Driver.Store.run; return 0
  | ["combloop"] => VerylModel.Driver.CombLoop.run; return 0
  | ["pretty"] => VerylModel.Driver.Pretty.run; return 0
  | ["fmt"] => VerylModel.Driver.Fmt.run; return 0
  | ["smap"] => VerylModel.Driver.Fmt.run; return 0
  | ["emitopts"] => VerylModel.Driver.Fmt.run; return 0
  | ["fragment"] => VerylModel.Driver.IdCodec.run; return 0
  | ["order"] => VerylModel.Driver.Register.run; return 0
  | ["tokens"] => VerylModel.Driver.TokenPos.run; return 0
  | ["migrate"] => VerylModel.Driver.Migrator.run; return 0
  | ["incr"] => VerylModel.Driver.Incr.run; return 0
  | ["svlv"] => VerylModel.Driver.Svlv.run; return 0
  | ["cosim"] => VerylModel.Driver.Svlv.run; return 0
  | ["random"] => VerylModel.Driver.Random.run; return 0
  | ["words"] => VerylModel.Driver.Words.run; return 0
  | ["resolve"] => VerylModel.Driver.Resolve.run; return 0
  | ["paths"] => VerylModel.Driver.Paths.run; return 0
  | ["checkmodes"] => VerylModel.Driver.CheckModes.run; return 0
  | ["value"] => VerylModel.Driver.Value.run; return 0
  | ["valueref"] => VerylModel.Driver.Value.runRef; return 0
  | ["ll"] => VerylModel.Driver.LL.run; return 0
  | ["cdc"] => VerylModel.Driver.Cdc.run; return 0
  | ["assign"] => VerylModel.Driver.Assign.run; return 0
  | ["assignref"] => VerylModel.Driver.Assign.runRef; return 0
  | ["fs"] => VerylModel.Driver.FS.run; return 0
  | ["crash"] => VerylModel.Driver.Crash.run; return 0
  | ["wide"] => VerylModel.Driver.Wide.run; return 0
  | ["exprref"] => VerylModel.Driver.ExprRef.run; return 0
  | ["sim"] => VerylModel.Driver.Sim.run; return 0
  | ["npn"] => VerylModel.Driver.Aig.runNpn; return 0
  | ["lib"] => VerylModel.Driver.Aig.runNpn; return 0
  | ["aig"] => VerylModel.Driver.Aig.runAig; return 0
  | ["rewrite"] => VerylModel.Driver.Aig.runRewrite; return 0
  | ["netlist"] => VerylModel.Driver.Netlist.run; return 0
  | ["swap"] => VerylModel.Driver.Swap.run; return 0
  | ["reuse"] => VerylModel.Driver.Reloc.run; return 0
  | ["sv"] => VerylModel.Driver.SVRun.run; return 0
  | ["emit"] => VerylModel.Driver.EmitD.run; return 0
  | ["translate"] => VerylModel.Driver.TranslateD.run; return 0
  | _ => IO.eprintln s!"vmodel: unknown domain {args}"; return 2
