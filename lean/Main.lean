import VerylModel.Driver.Store
import VerylModel.Driver.Incr

def main (args : List String) : IO UInt32 := do
  match args with
  | ["store"] => VerylModel.Driver.Store.run; return 0
  | ["incr"] => VerylModel.Driver.Incr.run; return 0
  | _ => IO.eprintln s!"vmodel: unknown domain {args}"; return 2
