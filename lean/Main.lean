import VerylModel.Driver.Store

def main (args : List String) : IO UInt32 := do
  match args with
  | ["store"] => VerylModel.Driver.Store.run; return 0
  | _ => IO.eprintln s!"vmodel: unknown domain {args}"; return 2
