use std::panic;
use veryl_analyzer::ir as air;
use veryl_analyzer::{Analyzer, Context, symbol_table};
use veryl_metadata::Metadata;
use veryl_parser::Parser;
use veryl_simulator::Simulator;
use veryl_simulator::ir::{Config, Value, build_ir};

struct Rng(u64);
impl Rng {
    fn next(&mut self) -> u64 {
        self.0 = self.0.wrapping_add(0x9E3779B97F4A7C15);
        let mut z = self.0;
        z = (z ^ (z >> 30)).wrapping_mul(0xBF58476D1CE4E5B9);
        z = (z ^ (z >> 27)).wrapping_mul(0x94D049BB133111EB);
        z ^ (z >> 31)
    }
    fn below(&mut self, n: u64) -> u64 {
        self.next() % n
    }
    fn pick<'a, T>(&mut self, xs: &'a [T]) -> &'a T {
        &xs[self.below(xs.len() as u64) as usize]
    }
}

fn wset() -> Vec<usize> {
    match std::env::var("WSET").as_deref() {
        Ok("small") => vec![1, 2, 3, 7, 8, 16, 31, 32, 33, 63, 64],
        Ok("mid") => vec![1, 8, 32, 64, 65, 100, 127, 128],
        _ => vec![1, 2, 3, 7, 8, 16, 31, 32, 33, 63, 64, 65, 100, 127, 128, 129, 200, 256, 300],
    }
}
const BIN: &[&str] = &[
    "+", "-", "*", "/", "%", "&", "|", "^", "~^", "==", "!=", "<:", "<=", ">:", ">=", "<<", ">>", "<<<", ">>>", "&&", "||",
];
const UN: &[&str] = &["~", "-", "!", "&", "|", "^", "~&", "~|"];

fn gen_expr(r: &mut Rng, depth: u32, names: &[String]) -> String {
    if depth == 0 || r.below(4) == 0 {
        if r.below(5) == 0 {
            let w = if std::env::var("WSET").as_deref()==Ok("small") { *r.pick(&[1usize, 4, 8, 32, 64]) } else { *r.pick(&[1usize, 4, 8, 32, 64, 70]) };
            let v = r.next();
            let hex = if w <= 64 {
                format!("{:x}", if w == 64 { v } else { v & ((1u64 << w) - 1) })
            } else {
                format!("{:x}{:016x}", v & 0x3f, r.next())
            };
            return format!("{}'h{}", w, hex);
        }
        let n = r.pick(names).clone();
        return n;
    }
    match r.below(10) {
        0 | 1 => {
            let op = *r.pick(UN);
            format!("({}{})", op, gen_expr(r, depth - 1, names))
        }
        2 => format!(
            "(if {} ? {} : {})",
            gen_expr(r, depth - 1, names),
            gen_expr(r, depth - 1, names),
            gen_expr(r, depth - 1, names)
        ),
        3 => format!("{{{}, {}}}", gen_expr(r, depth - 1, names), gen_expr(r, depth - 1, names)),
        _ => {
            let mut op = *r.pick(BIN); if std::env::var("NODIV").is_ok() { while op == "/" || op == "%" { op = *r.pick(BIN); } }
            format!("({} {} {})", gen_expr(r, depth - 1, names), op, gen_expr(r, depth - 1, names))
        }
    }
}

fn build(code: &str) -> Option<air::Ir> {
    symbol_table::clear();
    let metadata = Metadata::create_default("prj").unwrap();
    let parser = Parser::parse(code, &"").ok()?;
    let analyzer = Analyzer::new(&metadata);
    let mut context = Context::default();
    let mut ir = air::Ir::default();
    let mut errors = vec![];
    errors.append(&mut analyzer.analyze_pass1("prj", &parser.veryl));
    errors.append(&mut Analyzer::analyze_post_pass1());
    errors.append(&mut analyzer.analyze_pass2(&parser.veryl, &mut context, Some(&mut ir)));
    errors.append(&mut Analyzer::analyze_post_pass2(&ir));
    if (std::env::var("STRICT").is_ok() && !errors.is_empty()) || errors.iter().any(|e| e.is_error()) {
        return None;
    }
    Some(ir)
}

fn rand_value(r: &mut Rng, w: usize) -> Value {
    let nb = w.div_ceil(64) * 8;
    let mut bytes = vec![0u8; nb];
    let mode = r.below(4);
    for b in bytes.iter_mut() {
        *b = match mode {
            0 => 0,
            1 => 0xff,
            _ => r.next() as u8,
        };
    }
    // clear bits above w
    for bit in w..nb * 8 {
        bytes[bit / 8] &= !(1u8 << (bit % 8));
    }
    let mask = vec![0u8; nb];
    Value::from_le_bytes(&bytes, &mask, w, false)
}

use veryl_synthesizer::{CellKind, GateModule, PortDir};
use veryl_synthesizer::ir::NetDriver;

fn eval_cell(kind: CellKind, x: &[bool]) -> bool {
    use CellKind::*;
    match kind {
        Buf => x[0],
        Not => !x[0],
        And2 => x[0] & x[1],
        Or2 => x[0] | x[1],
        Nand2 => !(x[0] & x[1]),
        Nor2 => !(x[0] | x[1]),
        Xor2 => x[0] ^ x[1],
        Xnor2 => !(x[0] ^ x[1]),
        And3 => x[0] & x[1] & x[2],
        Or3 => x[0] | x[1] | x[2],
        Nand3 => !(x[0] & x[1] & x[2]),
        Nor3 => !(x[0] | x[1] | x[2]),
        Ao21 => (x[0] & x[1]) | x[2],
        Aoi21 => !((x[0] & x[1]) | x[2]),
        Oa21 => (x[0] | x[1]) & x[2],
        Oai21 => !((x[0] | x[1]) & x[2]),
        Ao31 => (x[0] & x[1] & x[2]) | x[3],
        Aoi31 => !((x[0] & x[1] & x[2]) | x[3]),
        Ao22 => (x[0] & x[1]) | (x[2] & x[3]),
        Aoi22 => !((x[0] & x[1]) | (x[2] & x[3])),
        Oai22 => !((x[0] | x[1]) & (x[2] | x[3])),
        Mux2 => if x[0] { x[2] } else { x[1] },
    }
}

fn eval_net(m: &GateModule, n: u32, memo: &mut Vec<Option<bool>>, inp: &std::collections::HashMap<u32, bool>, depth: usize) -> bool {
    if let Some(v) = memo[n as usize] { return v; }
    if depth > 100000 { panic!("cycle?"); }
    let v = match &m.nets[n as usize].driver {
        NetDriver::Const(b) => *b,
        NetDriver::PortInput => *inp.get(&n).unwrap_or(&false),
        NetDriver::Cell(i) => {
            let c = &m.cells[*i];
            let xs: Vec<bool> = c.inputs.iter().map(|&k| eval_net(m, k, memo, inp, depth + 1)).collect();
            eval_cell(c.kind, &xs)
        }
        NetDriver::Undriven => false,
        _ => panic!("seq element in comb probe"),
    };
    memo[n as usize] = Some(v);
    v
}

fn synth_main(seed: u64, n: u64) {
    let mut r = Rng(seed);
    let (mut ok, mut rejected, mut mism, mut synerr, mut panics) = (0, 0, 0, 0, 0);
    panic::set_hook(Box::new(|info| {
        let loc = info.location().map(|l| format!("{}:{}", l.file(), l.line())).unwrap_or_default();
        eprintln!("PANICMSG {}", loc);
    }));
    const SW: &[usize] = &[1, 2, 3, 7, 8, 16, 31, 32, 33, 63, 64, 65, 70];
    for case in 0..n {
        let mut ports = String::new();
        let mut names = vec![];
        let mut widths = vec![];
        for i in 0..3 {
            let w = *r.pick(&wset());
            let signed = std::env::var("NOSIGN").is_err() && r.below(3) == 0;
            let name = format!("i{}", i);
            ports.push_str(&format!("    {}: input {}logic<{}>,\n", name, if signed { "signed " } else { "" }, w));
            names.push(name);
            widths.push(w);
        }
        let ow = *r.pick(&wset());
        let expr = gen_expr(&mut r, 3, &names);
        let code = format!("module Top (\n{}    o: output logic<{}>,\n) {{\n    assign o = {};\n}}\n", ports, ow, expr);
        let Some(ir) = build(&code) else { rejected += 1; continue; };
        let stim: Vec<Vec<Value>> = (0..6).map(|_| widths.iter().map(|w| rand_value(&mut r, *w)).collect()).collect();
        let res = panic::catch_unwind(panic::AssertUnwindSafe(|| {
            let gate = match veryl_synthesizer::build_gate_ir(&ir, "Top".into()) { Ok(g) => g, Err(e) => return Err(format!("{e}")) };
            let m = &gate.module;
            let cfg = Config::default();
            let sir = build_ir(&ir, "Top".into(), &cfg).map_err(|e| format!("{e}"))?;
            let mut sim = Simulator::new(sir, None);
            let mut bad = vec![];
            for s in &stim {
                let mut inp = std::collections::HashMap::new();
                for (i, v) in s.iter().enumerate() {
                    sim.set(&names[i], v.clone());
                    let port = m.ports.iter().find(|p| p.name.to_string() == names[i]).unwrap();
                    let pv = v.payload();
                    for (b, &net) in port.nets.iter().enumerate() { inp.insert(net, pv.bit(b as u64)); }
                }
                let o = sim.get("o").unwrap();
                let oport = m.ports.iter().find(|p| p.name.to_string() == "o" && matches!(p.dir, PortDir::Output)).unwrap();
                let mut memo = vec![None; m.nets.len()];
                let mut netv = String::new();
                let mut simv = String::new();
                let op = o.payload();
                for (b, &net) in oport.nets.iter().enumerate().rev() {
                    netv.push(if eval_net(m, net, &mut memo, &inp, 0) { '1' } else { '0' });
                    simv.push(if op.bit(b as u64) { '1' } else { '0' });
                }
                if netv != simv { bad.push((simv, netv)); }
            }
            Ok(bad)
        }));
        match res {
            Ok(Ok(bad)) if bad.is_empty() => ok += 1,
            Ok(Ok(bad)) => { mism += 1; println!("=== SYNTH MISMATCH case {}\n{}  sim/net: {:?}", case, code, &bad[0]); }
            Ok(Err(e)) => { synerr += 1; if synerr < 6 { println!("synth error: {}", e.lines().next().unwrap_or("")); } }
            Err(_) => { panics += 1; println!("=== SYNTH PANIC case {}\n{}", case, code); }
        }
    }
    println!("synth cases={} ok={} rejected={} mismatches={} synth_err={} panics={}", n, ok, rejected, mism, synerr, panics);
}

fn main() {
    if std::env::args().nth(3).as_deref() == Some("synth") {
        let seed: u64 = std::env::args().nth(1).and_then(|x| x.parse().ok()).unwrap_or(1);
        let n: u64 = std::env::args().nth(2).and_then(|x| x.parse().ok()).unwrap_or(200);
        synth_main(seed, n);
        return;
    }
    let seed: u64 = std::env::args().nth(1).and_then(|x| x.parse().ok()).unwrap_or(1);
    let n: u64 = std::env::args().nth(2).and_then(|x| x.parse().ok()).unwrap_or(200);
    let mut r = Rng(seed);
    let configs = Config::all();
    eprintln!("configs: {}", configs.len());
    let mut ok = 0;
    let mut rejected = 0;
    let mut mismatches = 0;
    let mut panics = 0;
    panic::set_hook(Box::new(|info| {
        let loc = info.location().map(|l| format!("{}:{}", l.file(), l.line())).unwrap_or_default();
        let msg = if let Some(s) = info.payload().downcast_ref::<&str>() { s.to_string() } else if let Some(s) = info.payload().downcast_ref::<String>() { s.clone() } else { "?".into() };
        let msg: String = msg.chars().take(160).collect();
        eprintln!("PANICMSG {} :: {}", loc, msg.replace('\n', " "));
    }));
    for case in 0..n {
        let nin = 3;
        let mut ports = String::new();
        let mut names = vec![];
        let mut widths = vec![];
        for i in 0..nin {
            let w = *r.pick(&wset());
            let signed = std::env::var("NOSIGN").is_err() && r.below(3) == 0;
            let name = format!("i{}", i);
            ports.push_str(&format!(
                "    {}: input {}logic<{}>,\n",
                name,
                if signed { "signed " } else { "" },
                w
            ));
            names.push(name);
            widths.push(w);
        }
        let ow = *r.pick(&wset());
        let expr = gen_expr(&mut r, 3, &names);
        let code = format!(
            "module Top (\n{}    o: output logic<{}>,\n) {{\n    assign o = {};\n}}\n",
            ports, ow, expr
        );
        let Some(ir) = build(&code) else {
            rejected += 1;
            continue;
        };
        let stim: Vec<Vec<Value>> = (0..6)
            .map(|_| widths.iter().map(|w| rand_value(&mut r, *w)).collect())
            .collect();
        let mut results: Vec<(String, Vec<String>)> = vec![];
        for cfg in &configs {
            let label = format!(
                "4st={} jit={} noffopt={} cc={}",
                cfg.use_4state, cfg.use_jit, cfg.disable_ff_opt, cfg.aot_c
            );
            let res = panic::catch_unwind(panic::AssertUnwindSafe(|| {
                let sir = build_ir(&ir, "Top".into(), cfg).ok()?;
                let mut sim = Simulator::new(sir, None);
                let mut outs = vec![];
                for s in &stim {
                    for (i, v) in s.iter().enumerate() {
                        sim.set(&names[i], v.clone());
                    }
                    let o = sim.get("o").unwrap();
                    outs.push(format!("{:x}", o));
                }
                Some(outs)
            }));
            match res {
                Ok(Some(outs)) => results.push((label, outs)),
                Ok(None) => results.push((label, vec!["build_ir-error".into()])),
                Err(_) => {
                    panics += 1;
                    results.push((label, vec!["PANIC".into()]));
                }
            }
        }
        // categorise
        let two: Vec<&(String, Vec<String>)> = results.iter().filter(|(l, _)| l.starts_with("4st=false")).collect();
        let four: Vec<&(String, Vec<String>)> = results.iter().filter(|(l, _)| l.starts_with("4st=true")).collect();
        let mut cats: Vec<String> = vec![];
        let base2 = &two[0].1;
        for (l, o) in &two { if o != base2 { cats.push(format!("2state-differs:{}:{}", l, if o[0]=="PANIC" {"panic"} else {"value"})); } }
        let base4 = &four[0].1;
        for (l, o) in &four { if o != base4 { cats.push(format!("4state-differs:{}:{}", l, if o[0]=="PANIC" {"panic"} else {"value"})); } }
        if base4.len() == base2.len() {
            for (a, b) in base2.iter().zip(base4.iter()) {
                if !b.contains('x') && !b.contains('z') && a != b { cats.push("4state-vs-2state-xfree".into()); break; }
            }
        }
        if !cats.is_empty() {
            mismatches += 1;
            println!("=== MISMATCH case {} cats={:?}\n{}", case, cats, code);
            for (l, o) in &results {
                println!("  {:40} {:?}", l, o);
            }
        } else {
            ok += 1;
        }
    }
    println!(
        "cases={} ok={} rejected={} mismatches={} panics={}",
        n, ok, rejected, mismatches, panics
    );
}
