// usage: one <file.veryl> <names comma> [hexvals comma ...]  -- prints every engine's `o` and the netlist's
use std::panic;
use veryl_analyzer::ir as air;
use veryl_analyzer::{Analyzer, Context, symbol_table};
use veryl_metadata::Metadata;
use veryl_parser::Parser;
use veryl_simulator::Simulator;
use veryl_simulator::ir::{Config, Value, build_ir};
use veryl_synthesizer::ir::NetDriver;
use veryl_synthesizer::{CellKind, GateModule};

fn eval_cell(kind: CellKind, x: &[bool]) -> bool {
    use CellKind::*;
    match kind {
        Buf => x[0], Not => !x[0], And2 => x[0] & x[1], Or2 => x[0] | x[1], Nand2 => !(x[0] & x[1]), Nor2 => !(x[0] | x[1]),
        Xor2 => x[0] ^ x[1], Xnor2 => !(x[0] ^ x[1]), And3 => x[0] & x[1] & x[2], Or3 => x[0] | x[1] | x[2],
        Nand3 => !(x[0] & x[1] & x[2]), Nor3 => !(x[0] | x[1] | x[2]), Ao21 => (x[0] & x[1]) | x[2], Aoi21 => !((x[0] & x[1]) | x[2]),
        Oa21 => (x[0] | x[1]) & x[2], Oai21 => !((x[0] | x[1]) & x[2]), Ao31 => (x[0] & x[1] & x[2]) | x[3], Aoi31 => !((x[0] & x[1] & x[2]) | x[3]),
        Ao22 => (x[0] & x[1]) | (x[2] & x[3]), Aoi22 => !((x[0] & x[1]) | (x[2] & x[3])), Oai22 => !((x[0] | x[1]) & (x[2] | x[3])),
        Mux2 => if x[0] { x[2] } else { x[1] },
    }
}
fn eval_net(m: &GateModule, n: u32, memo: &mut Vec<Option<bool>>, inp: &std::collections::HashMap<u32, bool>) -> bool {
    if let Some(v) = memo[n as usize] { return v; }
    let v = match &m.nets[n as usize].driver {
        NetDriver::Const(b) => *b,
        NetDriver::PortInput => *inp.get(&n).unwrap_or(&false),
        NetDriver::Cell(i) => { let c = &m.cells[*i]; let xs: Vec<bool> = c.inputs.iter().map(|&k| eval_net(m, k, memo, inp)).collect(); eval_cell(c.kind, &xs) }
        _ => false,
    };
    memo[n as usize] = Some(v);
    v
}
fn parse_hex(h: &str, w: usize) -> Value {
    let nb = w.div_ceil(64) * 8;
    let mut bytes = vec![0u8; nb];
    let h = h.trim_start_matches("0x");
    let digits: Vec<u8> = h.bytes().rev().map(|c| (c as char).to_digit(16).unwrap() as u8).collect();
    for (i, d) in digits.iter().enumerate() { if i / 2 < nb { bytes[i / 2] |= d << (4 * (i % 2)); } }
    for bit in w..nb * 8 { bytes[bit / 8] &= !(1u8 << (bit % 8)); }
    Value::from_le_bytes(&bytes, &vec![0u8; nb], w, false)
}
fn main() {
    let args: Vec<String> = std::env::args().collect();
    let code = std::fs::read_to_string(&args[1]).unwrap();
    let names: Vec<&str> = args[2].split(',').collect();
    panic::set_hook(Box::new(|info| { eprintln!("  panic at {}", info.location().map(|l| format!("{}:{}", l.file(), l.line())).unwrap_or_default()); }));
    symbol_table::clear();
    let metadata = Metadata::create_default("prj").unwrap();
    let parser = Parser::parse(&code, &"").unwrap();
    let analyzer = Analyzer::new(&metadata);
    let mut context = Context::default();
    let mut ir = air::Ir::default();
    let mut errors = vec![];
    errors.append(&mut analyzer.analyze_pass1("prj", &parser.veryl));
    errors.append(&mut Analyzer::analyze_post_pass1());
    errors.append(&mut analyzer.analyze_pass2(&parser.veryl, &mut context, Some(&mut ir)));
    errors.append(&mut Analyzer::analyze_post_pass2(&ir));
    for e in &errors { println!("diag: {}", e); }
    println!("{}", ir);
    // widths from IR
    let mut widths = std::collections::HashMap::new();
    if let air::Component::Module(m) = &ir.components[0] { for v in m.variables.values() { widths.insert(v.path.to_string(), v.total_width().unwrap_or(1)); } }
    for stim in &args[3..] {
        let vals: Vec<&str> = stim.split(',').collect();
        println!("stimulus {}", stim);
        for cfg in Config::all() {
            if cfg.disable_ff_opt { continue; }
            let label = format!("4st={} jit={} cc={}", cfg.use_4state, cfg.use_jit, cfg.aot_c);
            let r = panic::catch_unwind(panic::AssertUnwindSafe(|| {
                let sir = build_ir(&ir, "Top".into(), &cfg).unwrap();
                let mut sim = Simulator::new(sir, None);
                for (n, v) in names.iter().zip(vals.iter()) { sim.set(n, parse_hex(v, widths[*n])); }
                format!("{:x}", sim.get("o").unwrap())
            }));
            println!("  {:28} {}", label, r.unwrap_or_else(|_| "PANIC".into()));
        }
        let r = panic::catch_unwind(panic::AssertUnwindSafe(|| {
            let gate = veryl_synthesizer::build_gate_ir(&ir, "Top".into()).unwrap();
            let m = &gate.module;
            let mut inp = std::collections::HashMap::new();
            for (n, v) in names.iter().zip(vals.iter()) {
                let val = parse_hex(v, widths[*n]);
                let port = m.ports.iter().find(|p| p.name.to_string() == *n).unwrap();
                for (b, &net) in port.nets.iter().enumerate() { inp.insert(net, val.payload().bit(b as u64)); }
            }
            let oport = m.ports.iter().find(|p| p.name.to_string() == "o").unwrap();
            let mut memo = vec![None; m.nets.len()];
            let mut s = String::new();
            for &net in oport.nets.iter().rev() { s.push(if eval_net(m, net, &mut memo, &inp) { '1' } else { '0' }); }
            s
        }));
        println!("  {:28} {}", "netlist(bin)", r.unwrap_or_else(|_| "PANIC".into()));
    }
}
