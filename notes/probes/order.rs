use std::collections::BTreeMap;
use std::panic;
use std::path::PathBuf;
use veryl_analyzer::ir as air;
use veryl_analyzer::{Analyzer, Context};
use veryl_emitter::Emitter;
use veryl_metadata::Metadata;
use veryl_parser::Parser;

fn run(order: &[(String, String)]) -> BTreeMap<String, String> {
    let metadata = Metadata::create_default("prj").unwrap();
    let analyzer = Analyzer::new(&metadata);
    analyzer.clear();
    let analyzer = Analyzer::new(&metadata);
    let mut parsers = vec![];
    let mut nerr = 0;
    for (name, code) in order {
        let p = Parser::parse(code, &name.as_str()).unwrap();
        nerr += analyzer.analyze_pass1("prj", &p.veryl).iter().filter(|e| e.is_error()).count();
        parsers.push((name.clone(), code.clone(), p));
    }
    nerr += Analyzer::analyze_post_pass1().iter().filter(|e| e.is_error()).count();
    let mut context = Context::default();
    let mut ir = air::Ir::default();
    let mut diags = vec![];
    for (_, _, p) in &parsers {
        for e in analyzer.analyze_pass2(&p.veryl, &mut context, Some(&mut ir)) {
            if e.is_error() { nerr += 1; }
            diags.push(format!("{}", e));
        }
    }
    for e in Analyzer::analyze_post_pass2(&ir) { if e.is_error() { nerr += 1; } diags.push(format!("{}", e)); }
    let mut out = BTreeMap::new();
    diags.sort();
    out.insert("#diags".to_string(), diags.join("\n"));
    out.insert("#nerr".to_string(), nerr.to_string());
    for (name, code, p) in &parsers {
        let pb = PathBuf::from(name);
        let r = panic::catch_unwind(panic::AssertUnwindSafe(|| {
            let mut emitter = Emitter::new(&metadata, "prj", &pb, &pb.with_extension("sv"), &pb.with_extension("sv.map"));
            emitter.emit(&p.veryl, code);
            emitter.as_str().to_string()
        }));
        out.insert(name.clone(), r.unwrap_or_else(|_| "PANIC".into()));
    }
    out
}

fn main() {
    panic::set_hook(Box::new(|_| {}));
    let mut files = vec![];
    for e in std::fs::read_dir("/repo/testcases/veryl").unwrap().flatten() {
        if e.path().extension().is_some_and(|x| x == "veryl") {
            let name = e.path().file_name().unwrap().to_string_lossy().to_string();
            if name.starts_with("25_") || name.starts_with("68_") || name.starts_with("52_") { continue; }
            files.push((name, std::fs::read_to_string(e.path()).unwrap()));
        }
    }
    files.sort();
    let handle = std::thread::Builder::new().stack_size(256 * 1024 * 1024).spawn(move || {
        let a = run(&files);
        let mut rev = files.clone(); rev.reverse();
        let b = run(&rev);
        let mut sh = files.clone();
        let mut s: u64 = 12345;
        for i in (1..sh.len()).rev() { s = s.wrapping_mul(6364136223846793005).wrapping_add(1442695040888963407); let j = (s >> 33) as usize % (i + 1); sh.swap(i, j); }
        let c = run(&sh);
        println!("files={} nerr sorted={} rev={} shuf={}", files.len(), a["#nerr"], b["#nerr"], c["#nerr"]);
        let mut diff = 0;
        for (k, v) in &a {
            for (label, o) in [("rev", &b), ("shuf", &c)] {
                if o.get(k) != Some(v) { diff += 1; println!("DIFF {} in {} (len {} vs {})", k, label, v.len(), o.get(k).map(|x| x.len()).unwrap_or(0)); }
            }
        }
        println!("diffs={}", diff);
        if diff > 0 {
            for (k, v) in &a { if b.get(k) != Some(v) && !k.starts_with('#') { 
                let x: Vec<&str> = v.lines().collect(); let y: Vec<&str> = b[k].lines().collect();
                for (l, (p, q)) in x.iter().zip(y.iter()).enumerate() { if p != q { println!("{}:{}\n  < {}\n  > {}", k, l+1, p, q); break; } }
            } }
        }
    }).unwrap();
    handle.join().unwrap();
}
