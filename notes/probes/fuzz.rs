use std::panic;
use std::path::PathBuf;
use veryl_analyzer::ir as air;
use veryl_analyzer::{Analyzer, Context, symbol_table};
use veryl_emitter::Emitter;
use veryl_formatter::Formatter;
use veryl_metadata::Metadata;
use veryl_parser::Parser;

struct Rng(u64);
impl Rng {
    fn next(&mut self) -> u64 {
        self.0 = self.0.wrapping_add(0x9E3779B97F4A7C15);
        let mut z = self.0;
        z = (z ^ (z >> 30)).wrapping_mul(0xBF58476D1CE4E5B9);
        z = (z ^ (z >> 27)).wrapping_mul(0x94D049BB133111EB);
        z ^ (z >> 31)
    }
    fn below(&mut self, n: u64) -> u64 { self.next() % n.max(1) }
}

fn mutate(r: &mut Rng, src: &str, all: &[String]) -> String {
    let mut lines: Vec<String> = src.lines().map(|x| x.to_string()).collect();
    let n = 1 + r.below(3);
    for _ in 0..n {
        if lines.is_empty() { break; }
        let i = r.below(lines.len() as u64) as usize;
        match r.below(6) {
            0 => { lines.remove(i); }
            1 => { let l = lines[i].clone(); lines.insert(i, l); }
            2 => { let other = &all[r.below(all.len() as u64) as usize]; let ol: Vec<&str> = other.lines().collect(); if !ol.is_empty() { let j = r.below(ol.len() as u64) as usize; lines.insert(i, ol[j].to_string()); } }
            3 => { // swap identifiers/numbers
                let l = lines[i].clone();
                let toks: Vec<&str> = l.split(' ').collect();
                if toks.len() > 1 { let a = r.below(toks.len() as u64) as usize; let b = r.below(toks.len() as u64) as usize; let mut t: Vec<String> = toks.iter().map(|x| x.to_string()).collect(); t.swap(a, b); lines[i] = t.join(" "); }
            }
            4 => { lines[i] = lines[i].replace("8", "0").replace("1", "100000"); }
            _ => { lines[i] = lines[i].replace("logic", "bit").replace("input", "output"); }
        }
    }
    lines.join("\n") + "\n"
}

fn run(code: &str) -> Result<(), String> {
    symbol_table::clear();
    let metadata = Metadata::create_default("prj").unwrap();
    let Ok(parser) = Parser::parse(code, &"f.veryl") else { return Err("parse".into()); };
    let analyzer = Analyzer::new(&metadata);
    let mut context = Context::default();
    let mut ir = air::Ir::default();
    let _ = analyzer.analyze_pass1("prj", &parser.veryl);
    let _ = Analyzer::analyze_post_pass1();
    let _ = analyzer.analyze_pass2(&parser.veryl, &mut context, Some(&mut ir));
    let _ = Analyzer::analyze_post_pass2(&ir);
    let p = PathBuf::from("f.veryl");
    let mut emitter = Emitter::new(&metadata, "prj", &p, &PathBuf::from("f.sv"), &PathBuf::from("f.sv.map"));
    emitter.emit(&parser.veryl, code);
    let mut formatter = Formatter::new(&metadata);
    formatter.format(&parser.veryl, code);
    Ok(())
}

fn main() {
    let seed: u64 = std::env::args().nth(1).and_then(|x| x.parse().ok()).unwrap_or(1);
    let n: u64 = std::env::args().nth(2).and_then(|x| x.parse().ok()).unwrap_or(500);
    let mut files = vec![];
    for dir in ["/repo/testcases/veryl", "/repo/testcases/error"] {
        for e in std::fs::read_dir(dir).unwrap().flatten() {
            if e.path().extension().is_some_and(|x| x == "veryl") {
                files.push(std::fs::read_to_string(e.path()).unwrap());
            }
        }
    }
    files.sort();
    let mut r = Rng(seed);
    panic::set_hook(Box::new(|info| {
        let loc = info.location().map(|l| format!("{}:{}", l.file(), l.line())).unwrap_or_default();
        let msg = if let Some(s) = info.payload().downcast_ref::<&str>() { s.to_string() } else if let Some(s) = info.payload().downcast_ref::<String>() { s.clone() } else { "?".into() };
        let msg: String = msg.chars().take(100).collect();
        eprintln!("PANICMSG {} :: {}", loc, msg.replace('\n', " "));
    }));
    let (mut parsed, mut panics, mut total) = (0, 0, 0);
    let handle = std::thread::Builder::new().stack_size(64 * 1024 * 1024).spawn(move || {
        for i in 0..n {
            let base = files[r.below(files.len() as u64) as usize].clone();
            let code = if i < files.len() as u64 { files[i as usize].clone() } else { mutate(&mut r, &base, &files) };
            total += 1;
            let c2 = code.clone();
            match panic::catch_unwind(panic::AssertUnwindSafe(|| run(&c2))) {
                Ok(Ok(())) => parsed += 1,
                Ok(Err(_)) => {}
                Err(_) => { panics += 1; if panics <= 40 { std::fs::write(format!("/tmp/probe/crash_{}.veryl", panics), &code).ok(); } }
            }
        }
        println!("total={} parsed={} panics={}", total, parsed, panics);
    }).unwrap();
    handle.join().unwrap();
}
