def toNat (W : Nat) : List Nat → Nat
  | [] => 0
  | w :: ws => w + W * toNat W ws

def wideAdd (W : Nat) : List Nat → List Nat → Nat → List Nat
  | a :: as, b :: bs, c =>
    let s1 := (a + b) % W
    let c1 := (a + b) / W
    let s2 := (s1 + c) % W
    let c2 := (s1 + c) / W
    s2 :: wideAdd W as bs (c1 + c2)
  | _, _, _ => []

theorem mod_mul_step (W n r q : Nat) (hW : 0 < W) (hr : r < W) :
    (r + W * q) % (W * n) = r + W * (q % n) := by
  rw [Nat.mod_mul]
  have h1 : (r + W * q) % W = r := by
    rw [Nat.add_mul_mod_self_left]; exact Nat.mod_eq_of_lt hr
  have h2 : (r + W * q) / W = q := by
    rw [Nat.add_mul_div_left _ _ hW, Nat.div_eq_of_lt hr]; simp
  rw [h1, h2]

theorem wideAdd_spec (W : Nat) (hW : 1 < W) (as bs : List Nat) (c : Nat) (hl : as.length = bs.length)
    (ha : ∀ x ∈ as, x < W) (hb : ∀ x ∈ bs, x < W) (hc : c ≤ 1) :
    toNat W (wideAdd W as bs c) = (toNat W as + toNat W bs + c) % W ^ as.length := by
  induction as generalizing bs c with
  | nil =>
    cases bs with
    | nil => simp [wideAdd, toNat]; omega
    | cons b bs => simp at hl
  | cons a as ih =>
    cases bs with
    | nil => simp at hl
    | cons b bs =>
      simp only [List.length_cons, Nat.add_right_cancel_iff] at hl
      have ha0 : a < W := ha a (by simp)
      have hb0 : b < W := hb b (by simp)
      have ha' : ∀ x ∈ as, x < W := fun x hx => ha x (by simp [hx])
      have hb' : ∀ x ∈ bs, x < W := fun x hx => hb x (by simp [hx])
      have hW0 : 0 < W := by omega
      have hs1 : (a + b) / W ≤ 1 := by
        have : a + b < W * 2 := by omega
        exact Nat.le_of_lt_succ (Nat.div_lt_of_lt_mul this)
      have hc' : (a + b) / W + ((a + b) % W + c) / W ≤ 1 := by
        have e1 := Nat.div_add_mod (a+b) W
        have e2 := Nat.div_add_mod ((a+b)%W + c) W
        have m1 := Nat.mod_lt (a+b) hW0
        have m2 := Nat.mod_lt ((a+b)%W + c) hW0
        -- total = a + b + c < 2W, and total = W*(c1+c2) + s2
        have tot : a + b + c = W * ((a + b) / W + ((a + b) % W + c) / W) + ((a + b) % W + c) % W := by
          rw [Nat.mul_add]; omega
        have : W * ((a + b) / W + ((a + b) % W + c) / W) < W * 2 := by omega
        exact Nat.le_of_lt_succ (Nat.lt_of_mul_lt_mul_left this)
      simp only [wideAdd, toNat, List.length_cons]
      rw [ih bs _ hl ha' hb' hc']
      have tot : a + W * toNat W as + (b + W * toNat W bs) + c
          = ((a + b) % W + c) % W + W * (toNat W as + toNat W bs + ((a + b) / W + ((a + b) % W + c) / W)) := by
        have e1 := Nat.div_add_mod (a+b) W
        have e2 := Nat.div_add_mod ((a+b)%W + c) W
        simp only [Nat.mul_add]
        omega
      rw [tot, Nat.pow_succ, Nat.mul_comm (W ^ as.length) W]
      exact (mod_mul_step W _ _ _ hW0 (Nat.mod_lt _ hW0)).symm
