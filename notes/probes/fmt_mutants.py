import os, random, re, glob, shutil
random.seed(2)
srcs = sorted(glob.glob('/repo/testcases/veryl/*.veryl'))
shutil.rmtree('/tmp/fmtp/prj2', ignore_errors=True)
os.makedirs('/tmp/fmtp/prj2/src', exist_ok=True)
open('/tmp/fmtp/prj2/Veryl.toml', 'w').write(
    '[project]\nname="prj"\nversion="0.1.0"\n[build]\nsources=["src"]\n'
    'target={type="directory",path="target"}\nexclude_std=true\n')
n = 0
for f in srcs:
    t = open(f).read()
    if '{{{' in t or '"' in t:
        continue
    lines = t.split('\n')
    base = os.path.basename(f)[:-6]
    variants = {'orig': t}
    out = []
    buf = ''
    for l in lines:
        if '//' in l or '/*' in l or '*/' in l or l.strip().startswith('#') or l.strip().startswith('`'):
            if buf:
                out.append(buf)
                buf = ''
            out.append(l)
        else:
            buf = (buf + ' ' + l.strip()) if buf else l.strip()
            if random.random() < 0.3:
                out.append(buf)
                buf = ''
    if buf:
        out.append(buf)
    variants['join'] = '\n'.join(out)
    out = []
    for l in lines:
        if '//' in l or '/*' in l or '*/' in l:
            out.append(l)
        else:
            out.append(re.sub(r' (?=\S)', lambda m: '\n' if random.random() < 0.15 else ' ', l))
    variants['split'] = '\n'.join(out)
    for k, v in variants.items():
        open(f'/tmp/fmtp/prj2/src/{base}_{k}.veryl', 'w').write(v)
        n += 1
print(n)
