use std::panic;
use veryl_analyzer::ir as air;
use veryl_analyzer::{Analyzer, Context, symbol_table};
use veryl_metadata::Metadata;
use veryl_parser::Parser;
use veryl_simulator::Simulator;
use veryl_simulator::ir::{Config, Value, build_ir};

struct Rng(u64);
impl Rng {
    fn next(&mut self) -> u64 { self.0 = self.0.wrapping_add(0x9E3779B97F4A7C15); let mut z = self.0; z = (z ^ (z >> 30)).wrapping_mul(0xBF58476D1CE4E5B9); z = (z ^ (z >> 27)).wrapping_mul(0x94D049BB133111EB); z ^ (z >> 31) }
    fn below(&mut self, n: u64) -> u64 { self.next() % n }
    fn pick<'a, T>(&mut self, xs: &'a [T]) -> &'a T { &xs[self.below(xs.len() as u64) as usize] }
}
const BIN: &[&str] = &["+", "-", "*", "&", "|", "^", "==", "!=", "<:", "<=", ">:", ">=", "<<", ">>"];
const UN: &[&str] = &["~", "-", "&", "|", "^"];
fn gen_expr(r: &mut Rng, depth: u32, names: &[String]) -> String {
    if depth == 0 || r.below(4) == 0 {
        if r.below(5) == 0 { let w = *r.pick(&[1usize, 4, 8, 16]); return format!("{}'h{:x}", w, r.next() & ((1u64 << w) - 1)); }
        return r.pick(names).clone();
    }
    match r.below(8) {
        0 => format!("({}{})", r.pick(UN), gen_expr(r, depth - 1, names)),
        1 => format!("{{{}, {}}}", gen_expr(r, depth - 1, names), gen_expr(r, depth - 1, names)),
        _ => format!("({} {} {})", gen_expr(r, depth - 1, names), r.pick(BIN), gen_expr(r, depth - 1, names)),
    }
}
fn gen_cond(r: &mut Rng, names: &[String]) -> String {
    format!("({} {} {})", gen_expr(r, 1, names), r.pick(&["==", "!=", "<:", ">="]), gen_expr(r, 1, names))
}
fn gen_stmts(r: &mut Rng, depth: u32, regs: &[(String, usize)], names: &[String], out: &mut String, ind: usize) {
    let n = 1 + r.below(3);
    for _ in 0..n {
        let pad = " ".repeat(ind);
        match if depth == 0 { 0 } else { r.below(4) } {
            0 | 1 => { let (q, _) = r.pick(regs).clone(); out.push_str(&format!("{}{} = {};\n", pad, q, gen_expr(r, 2, names))); }
            2 => {
                out.push_str(&format!("{}if {} {{\n", pad, gen_cond(r, names)));
                gen_stmts(r, depth - 1, regs, names, out, ind + 4);
                if r.below(2) == 0 { out.push_str(&format!("{}}} else {{\n", pad)); gen_stmts(r, depth - 1, regs, names, out, ind + 4); }
                out.push_str(&format!("{}}}\n", pad));
            }
            _ => {
                out.push_str(&format!("{}case {} {{\n", pad, r.pick(names)));
                for k in 0..2 { out.push_str(&format!("{}    {}: {{\n", pad, k)); gen_stmts(r, depth - 1, regs, names, out, ind + 8); out.push_str(&format!("{}    }}\n", pad)); }
                out.push_str(&format!("{}    default: {{\n", pad)); gen_stmts(r, depth - 1, regs, names, out, ind + 8); out.push_str(&format!("{}    }}\n", pad));
                out.push_str(&format!("{}}}\n", pad));
            }
        }
    }
}
fn build(code: &str) -> Option<air::Ir> {
    symbol_table::clear();
    let metadata = Metadata::create_default("prj").unwrap();
    let parser = Parser::parse(code, &"").ok()?;
    let analyzer = Analyzer::new(&metadata);
    let mut context = Context::default();
    let mut ir = air::Ir::default();
    let mut errors = vec![];
    errors.append(&mut analyzer.analyze_pass1("prj", &parser.veryl));
    errors.append(&mut Analyzer::analyze_post_pass1());
    errors.append(&mut analyzer.analyze_pass2(&parser.veryl, &mut context, Some(&mut ir)));
    errors.append(&mut Analyzer::analyze_post_pass2(&ir));
    if !errors.is_empty() { if std::env::var("SHOWERR").is_ok() { for e in &errors { eprintln!("ERR {}", e); } } return None; }
    Some(ir)
}
fn main() {
    let seed: u64 = std::env::args().nth(1).and_then(|x| x.parse().ok()).unwrap_or(1);
    let n: u64 = std::env::args().nth(2).and_then(|x| x.parse().ok()).unwrap_or(200);
    let mut r = Rng(seed);
    panic::set_hook(Box::new(|info| { eprintln!("PANICMSG {}", info.location().map(|l| format!("{}:{}", l.file(), l.line())).unwrap_or_default()); }));
    let configs = Config::all();
    let ws: &[usize] = &[1, 2, 7, 8, 16, 31, 32, 33, 63, 64];
    let (mut ok, mut rej, mut mism) = (0, 0, 0);
    for case in 0..n {
        let mut ports = String::from("    clk: input clock,\n    rst: input reset,\n");
        let mut ins = vec![]; let mut inw = vec![];
        for i in 0..2 { let w = *r.pick(ws); ports.push_str(&format!("    i{}: input logic<{}>,\n", i, w)); ins.push(format!("i{}", i)); inw.push(w); }
        let mut regs = vec![]; let mut decl = String::new();
        for i in 0..2 { let w = *r.pick(ws); ports.push_str(&format!("    o{}: output logic<{}>,\n", i, w)); decl.push_str(&format!("    var q{}: logic<{}>;\n    assign o{} = q{};\n", i, w, i, i)); regs.push((format!("q{}", i), w)); }
        let mut names = ins.clone(); names.extend(regs.iter().map(|x| x.0.clone()));
        let mut body = String::new();
        gen_stmts(&mut r, 2, &regs, &names, &mut body, 12);
        let resets: String = regs.iter().map(|(q, _)| format!("            {} = 0;\n", q)).collect();
        let code = format!("module Top (\n{}) {{\n{}    always_ff {{\n        if_reset {{\n{}        }} else {{\n{}        }}\n    }}\n}}\n", ports, decl, resets, body);
        let Some(ir) = panic::catch_unwind(panic::AssertUnwindSafe(|| build(&code))).ok().flatten() else { rej += 1; continue; };
        let stim: Vec<Vec<u64>> = (0..12).map(|_| inw.iter().map(|w| { let v = match r.below(4) { 0 => 0, 1 => u64::MAX, _ => r.next() }; if *w == 64 { v } else { v & ((1u64 << w) - 1) } }).collect()).collect();
        let mut results = vec![];
        for cfg in &configs {
            let label = format!("4st={} jit={} noffopt={} cc={}", cfg.use_4state, cfg.use_jit, cfg.disable_ff_opt, cfg.aot_c);
            let res = panic::catch_unwind(panic::AssertUnwindSafe(|| {
                let sir = build_ir(&ir, "Top".into(), cfg).ok()?;
                let mut sim = Simulator::new(sir, None);
                let clk = sim.get_clock("clk").unwrap(); let rst = sim.get_reset("rst").unwrap();
                sim.step_reset(&clk, &rst);
                let mut outs = vec![];
                for s in &stim {
                    for (i, v) in s.iter().enumerate() { sim.set(&ins[i], Value::new(*v, inw[i], false)); }
                    sim.step(&clk);
                    outs.push(format!("{:x} {:x}", sim.get("o0").unwrap(), sim.get("o1").unwrap()));
                }
                Some(outs)
            }));
            results.push((label, match res { Ok(Some(o)) => o, Ok(None) => vec!["build-error".into()], Err(_) => vec!["PANIC".into()] }));
        }
        if results.iter().any(|(_, o)| o != &results[0].1) {
            mism += 1;
            if mism <= 400 { println!("=== SEQ MISMATCH case {}\n{}", case, code); for (l, o) in &results { println!("  {:44} {:?}", l, &o[..o.len().min(4)]); } }
        } else { ok += 1; }
    }
    println!("seq cases={} ok={} rejected={} mismatches={}", n, ok, rej, mism);
}
