use std::panic;
use std::path::PathBuf;
use veryl_analyzer::{Analyzer};
use veryl_emitter::Emitter;
use veryl_metadata::Metadata;
use veryl_parser::Parser;

fn at(text: &str, line0: u32, col0: u32) -> Option<String> {
    let l = text.split('\n').nth(line0 as usize)?;
    let s: String = l.chars().skip(col0 as usize).collect();
    Some(s)
}

fn main() {
    panic::set_hook(Box::new(|_| {}));
    let mut files = vec![];
    for e in std::fs::read_dir("/repo/testcases/veryl").unwrap().flatten() {
        if e.path().extension().is_some_and(|x| x == "veryl") {
            let name = e.path().file_name().unwrap().to_string_lossy().to_string();
            if name.starts_with("25_") || name.starts_with("68_") || name.starts_with("52_") { continue; }
            files.push((name, std::fs::read_to_string(e.path()).unwrap()));
        }
    }
    files.sort();
    let extra = std::env::args().nth(1);
    if let Some(p) = extra { files = vec![("x.veryl".to_string(), std::fs::read_to_string(p).unwrap())]; }
    let handle = std::thread::Builder::new().stack_size(256 * 1024 * 1024).spawn(move || {
        let metadata = Metadata::create_default("prj").unwrap();
        let analyzer = Analyzer::new(&metadata);
        let mut parsers = vec![];
        for (name, code) in &files {
            let p = Parser::parse(code, &name.as_str()).unwrap();
            analyzer.analyze_pass1("prj", &p.veryl);
            parsers.push(p);
        }
        Analyzer::analyze_post_pass1();
        let (mut total, mut bad_dst, mut bad_src, mut unsorted) = (0, 0, 0, 0);
        for ((name, code), p) in files.iter().zip(parsers.iter()) {
            let pb = PathBuf::from(name);
            let r = panic::catch_unwind(panic::AssertUnwindSafe(|| {
                let mut emitter = Emitter::new(&metadata, "prj", &pb, &pb.with_extension("sv"), &pb.with_extension("sv.map"));
                emitter.emit(&p.veryl, code);
                let sv = emitter.as_str().to_string();
                let bytes = emitter.source_map().to_bytes().unwrap();
                (sv, bytes)
            }));
            let Ok((sv, bytes)) = r else { println!("{}: emit panic", name); continue; };
            let sm = sourcemap::SourceMap::from_reader(bytes.as_slice()).unwrap();
            let mut prev = (0u32, 0u32);
            for t in sm.tokens() {
                total += 1;
                let nm = t.get_name().unwrap_or("");
                let first = nm.lines().next().unwrap_or("");
                let d = at(&sv, t.get_dst_line(), t.get_dst_col());
                let s = at(code, t.get_src_line(), t.get_src_col());
                if !d.as_deref().is_some_and(|x| x.starts_with(first)) { bad_dst += 1; if bad_dst <= 8 { println!("{} BAD-DST name={:?} dst=({},{}) found={:?}", name, nm, t.get_dst_line()+1, t.get_dst_col()+1, d.map(|x| x.chars().take(20).collect::<String>())); } }
                if s.as_deref().is_none_or(|x| x.trim_start().is_empty()) && !first.is_empty() { bad_src += 1; if bad_src <= 8 { println!("{} BAD-SRC name={:?} src=({},{})", name, nm, t.get_src_line()+1, t.get_src_col()+1); } }
                let cur = (t.get_dst_line(), t.get_dst_col());
                if cur < prev { unsorted += 1; }
                prev = cur;
            }
        }
        println!("tokens={} bad_dst={} bad_src={} unsorted={}", total, bad_dst, bad_src, unsorted);
    }).unwrap();
    handle.join().unwrap();
}
