/- Feasibility probe: the frame-stack renderer of crates/pretty/src/render.rs as a total Lean function. -/

inductive Mode | flat | brk
deriving DecidableEq, Repr

structure CommentDoc where
  text : List Char
  leadingNewlines : Nat
  isLine : Bool
  srcLine : Nat
  srcCol : Nat
deriving Repr

inductive Doc where
  | nil
  | text (s : List Char)
  | concat (ds : List Doc)
  | indent (off : Int) (d : Doc)
  | group (d : Doc)
  | forceFlat (d : Doc)
  | line (sep : List Char)
  | hardline
  | dedentHardline (level : Nat)
  | comments (cs : List CommentDoc)
  | ifBreak (s : List Char)
  | ifBreakPad (w : Nat)
  | pad (w : Nat)
  | ifFlatPad (w : Nat)
  | anchored (s : List Char) (srcLine srcCol : Nat)

mutual
def Doc.size : Doc → Nat
  | .concat ds => 1 + Doc.sizeList ds
  | .indent _ d => 1 + d.size
  | .group d => 1 + d.size
  | .forceFlat d => 1 + d.size
  | _ => 1
def Doc.sizeList : List Doc → Nat
  | [] => 0
  | d :: ds => d.size + Doc.sizeList ds
end

structure Frame where
  indent : Int
  mode : Mode
  doc : Doc

def stackSize : List Frame → Nat
  | [] => 0
  | f :: fs => f.doc.size + stackSize fs

structure Opts where
  maxWidth : Nat
  indentWidth : Nat
  newline : List Char

structure Anchor where
  dstLine : Nat
  dstCol : Nat
  srcLine : Nat
  srcCol : Nat
  text : List Char

structure St where
  out : List Char := []          -- reversed? keep in order for the probe
  col : Nat := 0
  line : Nat := 1
  swallow : Bool := false
  pending : Option Nat := none
  anchors : List Anchor := []

def padFor (indent : Int) (o : Opts) : Nat := indent.toNat * o.indentWidth

def flushWith (s : St) (indent : Int) (o : Opts) : St :=
  match s.pending with
  | none => s
  | some p =>
    let t := min (padFor indent o) p
    { s with out := s.out ++ List.replicate t ' ', col := t, pending := none }

def flush (s : St) : St :=
  match s.pending with
  | none => s
  | some p => { s with out := s.out ++ List.replicate p ' ', col := p, pending := none }

def countNl (s : List Char) : Nat := (s.filter (· == '\n')).length

def lastLineLen (s : List Char) : Nat :=
  (s.reverse.takeWhile (· != '\n')).length

def emitText (s : St) (t : List Char) : St :=
  let n := countNl t
  if n == 0 then { s with out := s.out ++ t, col := s.col + t.length, swallow := false }
  else { s with out := s.out ++ t, col := lastLineLen t, line := s.line + n, swallow := false }

def emitBreak (s : St) (indent : Int) (o : Opts) : St :=
  let s := if s.swallow then { s with swallow := false }
           else { s with out := s.out ++ o.newline, line := s.line + 1, col := 0 }
  { s with pending := some (padFor indent o) }

/-- simplified fits_flat over the continuation (fuel = total size, structural on a work list) -/
def fitsWork : Nat → List (Doc × Bool) → Int → Bool
  | 0, _, b => b ≥ 0
  | _, [], b => b ≥ 0
  | fuel+1, (x, inStart) :: rest, b =>
    if b < 0 then false else
    match x with
    | .nil => fitsWork fuel rest b
    | .text s => fitsWork fuel rest (b - s.length)
    | .concat ds => fitsWork fuel (ds.map (·, inStart) ++ rest) b
    | .indent _ d | .group d | .forceFlat d => fitsWork fuel ((d, inStart) :: rest) b
    | .line sep => if inStart then fitsWork fuel rest (b - sep.length) else true
    | .hardline | .dedentHardline _ => !inStart
    | .ifBreak _ | .ifBreakPad _ => fitsWork fuel rest b
    | .pad w | .ifFlatPad w => fitsWork fuel rest (b - w)
    | .anchored s _ _ => fitsWork fuel rest (b - s.length)
    | .comments cs =>
      if cs.any (·.isLine) then !inStart
      else fitsWork fuel rest (b - ((cs.foldl (fun (a : Nat) c => a + c.text.length + 1) 0 : Nat) : Int))

theorem sizeList_append_map (ds : List Doc) (i : Int) (m : Mode) (fs : List Frame) :
    stackSize (ds.map (fun d => { indent := i, mode := m, doc := d : Frame }) ++ fs)
      = Doc.sizeList ds + stackSize fs := by
  induction ds with
  | nil => simp [stackSize, Doc.sizeList]
  | cons d ds ih => simp [stackSize, Doc.sizeList, ih]; omega

theorem size_pos (d : Doc) : 0 < d.size := by
  cases d <;> simp [Doc.size] <;> omega

def renderFrames (o : Opts) : List Frame → St → St
  | [], s => s
  | f :: fs, s =>
    match hd : f.doc with
    | .nil => renderFrames o fs s
    | .text t => renderFrames o fs (emitText (flushWith s f.indent o) t)
    | .concat ds =>
      renderFrames o (ds.map (fun d => { indent := f.indent, mode := f.mode, doc := d : Frame }) ++ fs) s
    | .indent off d => renderFrames o ({ indent := f.indent + off, mode := f.mode, doc := d } :: fs) s
    | .group d =>
      let chosen :=
        if f.mode == .flat then Mode.flat
        else
          let remaining : Int := (o.maxWidth - s.col : Nat)
          let work := (d, true) :: (fs.map (fun g => (g.doc, false)))
          if fitsWork (d.size + stackSize fs + 1) work remaining then Mode.flat else Mode.brk
      renderFrames o ({ indent := f.indent, mode := chosen, doc := d } :: fs) s
    | .forceFlat d => renderFrames o ({ indent := f.indent, mode := .flat, doc := d } :: fs) s
    | .line sep =>
      match f.mode with
      | .flat => renderFrames o fs (emitText (flush s) sep)
      | .brk => renderFrames o fs (emitBreak s f.indent o)
    | .hardline =>
      match f.mode with
      | .flat => renderFrames o fs (emitText (flush s) [' '])
      | .brk => renderFrames o fs (emitBreak s f.indent o)
    | .dedentHardline _ =>
      match f.mode with
      | .flat => renderFrames o fs (emitText (flush s) [' '])
      | .brk => renderFrames o fs (emitBreak s f.indent o)   -- truncation elided in the probe
    | .comments _ => renderFrames o fs s                       -- elided in the probe
    | .ifBreak t => if f.mode == .brk then renderFrames o fs (emitText (flushWith s f.indent o) t) else renderFrames o fs s
    | .ifBreakPad w => if f.mode == .brk then renderFrames o fs (emitText (flushWith s f.indent o) (List.replicate w ' ')) else renderFrames o fs s
    | .pad w => renderFrames o fs (emitText (flushWith s f.indent o) (List.replicate w ' '))
    | .ifFlatPad w => if f.mode == .flat then renderFrames o fs (emitText (flushWith s f.indent o) (List.replicate w ' ')) else renderFrames o fs s
    | .anchored t sl sc =>
      let s1 := flushWith s f.indent o
      let s2 := { s1 with anchors := s1.anchors ++ [{ dstLine := s1.line, dstCol := s1.col + 1, srcLine := sl, srcCol := sc, text := t }] }
      renderFrames o fs (emitText s2 t)
termination_by fs s => stackSize fs
decreasing_by
  all_goals simp_wf
  all_goals (try simp only [stackSize, hd, Doc.size, sizeList_append_map])
  all_goals (try omega)

def render (o : Opts) (d : Doc) : St := renderFrames o [{ indent := 0, mode := .brk, doc := d }] {}

def ex : Doc := .group (.indent 1 (.concat [.text "aaaa".toList, .line [' '], .text "bbbb".toList, .line [' '], .text "cccc".toList]))
#eval String.ofList (render { maxWidth := 8, indentWidth := 4, newline := ['\n'] } ex).out
#eval String.ofList (render { maxWidth := 80, indentWidth := 4, newline := ['\n'] } ex).out
