use std::panic;
use veryl_analyzer::Analyzer;
use veryl_formatter::Formatter;
use veryl_metadata::Metadata;
use veryl_parser::Parser;
use veryl_parser::resource_table;
use veryl_parser::token_collector::TokenCollector;
use veryl_parser::veryl_walker::VerylWalker;

fn toks(code: &str, name: &str) -> Option<(Vec<String>, Vec<String>)> {
    let p = Parser::parse(code, &name).ok()?;
    let mut tc = TokenCollector::new(true);
    tc.veryl(&p.veryl);
    let mut t = vec![];
    let mut c = vec![];
    for x in &tc.tokens {
        let s = resource_table::get_str_value(x.text).unwrap();
        if s.starts_with("//") || s.starts_with("/*") { c.push(s.lines().map(|l| l.trim_end()).collect::<Vec<_>>().join("\n").trim_end().to_string()); } else if !s.is_empty() { t.push(s); }
    }
    Some((t, c))
}

fn strip_trailing_commas(t: &[String]) -> Vec<String> {
    let mut out: Vec<String> = vec![];
    for (i, x) in t.iter().enumerate() {
        if x == "," {
            if let Some(n) = t.get(i + 1) { if n == ")" || n == "}" || n == ">" || n == "]" { continue; } }
        }
        out.push(x.clone());
    }
    out
}

fn main() {
    panic::set_hook(Box::new(|_| {}));
    let dir = std::env::args().nth(1).unwrap();
    let mut files = vec![];
    for e in std::fs::read_dir(&dir).unwrap().flatten() {
        if e.path().extension().is_some_and(|x| x == "veryl") { files.push((e.path().file_name().unwrap().to_string_lossy().to_string(), std::fs::read_to_string(e.path()).unwrap())); }
    }
    files.sort();
    let handle = std::thread::Builder::new().stack_size(256 * 1024 * 1024).spawn(move || {
        let metadata = Metadata::create_default("prj").unwrap();
        let (mut n, mut tokdiff, mut comdiff, mut reparse_fail, mut nonidem) = (0, 0, 0, 0, 0);
        for (name, code) in &files {
            let Ok(p) = Parser::parse(code, &name.as_str()) else { continue; };
            n += 1;
            let analyzer = Analyzer::new(&metadata);
            let _ = analyzer.analyze_pass1("prj", &p.veryl);
            let mut f = Formatter::new(&metadata);
            f.format(&p.veryl, code);
            let out = f.as_str().to_string();
            let Some((t1, c1)) = toks(code, name) else { continue; };
            let Some((t2, c2)) = toks(&out, name) else { reparse_fail += 1; println!("{}: formatted output does not parse", name); continue; };
            if strip_trailing_commas(&t1) != strip_trailing_commas(&t2) { tokdiff += 1; 
                let a = strip_trailing_commas(&t1); let b = strip_trailing_commas(&t2);
                let k = a.iter().zip(b.iter()).position(|(x, y)| x != y).unwrap_or(a.len().min(b.len()));
                println!("{}: TOKDIFF at {} : {:?} vs {:?}", name, k, &a[k.saturating_sub(3)..(k+3).min(a.len())], &b[k.saturating_sub(3)..(k+3).min(b.len())]); }
            if c1 != c2 { comdiff += 1; let k = c1.iter().zip(c2.iter()).position(|(x, y)| x != y).unwrap_or(0); println!("{}: COMDIFF {:?} vs {:?}", name, c1.get(k), c2.get(k)); }
            let p2 = Parser::parse(&out, &name.as_str()).unwrap();
            let mut f2 = Formatter::new(&metadata);
            f2.format(&p2.veryl, &out);
            if f2.as_str() != out { nonidem += 1; }
        }
        println!("files={} tokdiff={} comdiff={} reparse_fail={} nonidem={}", n, tokdiff, comdiff, reparse_fail, nonidem);
    }).unwrap();
    handle.join().unwrap();
}
