#!/usr/bin/env python3
"""witness.py RUN_DIR -> for every signature hit: count + one compact witness request line (no netlist)."""
import sys, json, collections
d=sys.argv[1]
ops=open(d+'/ops.txt').read().split('\n')[:-1]
imp=open(d+'/impl.txt').read().split('\n')[:-1]
ora=open(d+'/oracle.txt').read().split('\n')[:-1]
def kv(l):
    r={}
    for t in l.split(' '):
        if '=' in t:
            k,v=t.split('=',1); r.setdefault(k,v)
    return r
def plist(s):
    s=s[1:-1] if s.startswith('[') else s
    return [x for x in s.split(',') if x!='']
def differ(a,b):
    ca,cb=plist(a),plist(b)
    if len(ca)!=len(cb): return 0
    for i in range(len(ca)):
        for x,y in zip(ca[i].split(':'),cb[i].split(':')):
            if y!='x' and x!=y: return i
    return None
rows=[(kv(o),kv(a),kv(r),o) for o,a,r in zip(ops,imp,ora)]
byid={}
for ko,ka,kr,o in rows:
    byid.setdefault(ko.get('id'),(ko,ka,kr,o))
KEEP=('id','kind','S','ins','outs','clk','rst','lib','ram','stim','sig','src')
def compact(ko,sig):
    ko=dict(ko); ko['sig']=sig
    return 'net '+' '.join(f'{k}={ko[k]}' for k in KEEP)
hits=collections.OrderedDict(); fails=0; unattributed=[]
for i,(ko,ka,kr,o) in byid.items():
    if i is None or i.endswith('.shrunk') or i.endswith('.twin') or i.startswith('witness'): continue
    if kr.get('out','?')=='?' or ka.get('wf')!='1': continue
    if differ(ka.get('out','[]'),kr['out']) is None: continue
    fails+=1
    s=byid.get(i+'.shrunk'); t=byid.get(i+'.twin'); st=byid.get(i+'.shrunk.twin')
    if s and st and s[2].get('out','?')!='?' and differ(s[1].get('out','[]'),s[2]['out']) is not None and st[2].get('out','?')!='?' and differ(st[1].get('out','[]'),st[2]['out']) is None:
        sig=s[0]['sig']; line=compact(s[0],sig)
    elif t and t[2].get('out','?')!='?' and differ(t[1].get('out','[]'),t[2]['out']) is None:
        sig=t[0]['sig']; line=compact(ko,sig)
    else:
        unattributed.append((i,ko.get('kind'),ko.get('S'))); continue
    h=hits.setdefault(sig,{'n':0,'line':line,'S':set()})
    h['n']+=1; h['S'].add(ko.get('S'))
    if len(line)<len(h['line']): h['line']=line
print('failing designs',fails,'unattributed',unattributed[:20])
for sig,h in hits.items():
    print(h['n'],sorted(h['S']),sig)
json.dump({k:v['line'] for k,v in hits.items()},open(d+'/witnesses.json','w'),indent=1)
