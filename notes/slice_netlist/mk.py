#!/usr/bin/env python3
"""mk.py SRC.veryl 'ins=a.4.u,b.4.u' clk rst.l 'stim' [lib] [ram] -> replay line"""
import sys
src=open(sys.argv[1]).read()
ins=sys.argv[2]; clk=sys.argv[3]; rst=sys.argv[4]; stim=sys.argv[5]
lib=sys.argv[6] if len(sys.argv)>6 else '0'; ram=sys.argv[7] if len(sys.argv)>7 else '0'
print(f"net id=t kind=x S=S0 ins=[{ins}] outs=[] clk={clk} rst={rst} lib={lib} ram={ram} stim=[{stim}] sig=- src={src.encode().hex()}")
